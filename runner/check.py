#!/usr/bin/env python3
"""Entry point: ./check Cnn [--tier quick|thorough] [--replay path] ; ./check --setup"""
import argparse
import importlib
import json
import os
import random
import sys
import time

sys.path.insert(0, os.path.dirname(os.path.abspath(__file__)))
import vlib  # noqa: E402
from vlib import log  # noqa: E402


class Ctx:
    """State of one check run; passed to plug-in hooks."""

    def __init__(self, P, tier, seed):
        self.P = P
        self.pid = P.PID
        self.tier = tier
        self.seed = seed
        self.rng = random.Random(seed)
        self.t0 = time.time()
        self.violations = []      # dicts: {kind, what, case, result, tags, replay}
        self.known_hits = []
        self.notes = []
        self.extra_cov = {}
        self.bin = None
        self.proof = None

    # -- evaluation of a batch of cases on impl + model
    def evaluate(self, cases):
        """returns (results, M idx, V idx, errors)"""
        P = self.P
        for i, c in enumerate(cases):
            c["id"] = i
        res = vlib.run_harness(self.bin, cases, timeout=getattr(P, "HARNESS_TIMEOUT", 900),
                               procs=getattr(P, "PROCS", 8), env=getattr(P, "HARNESS_ENV", None))
        errs = list(res.get("_errors", []))
        terms, idxmap = [], []
        hv = []   # harness-level violations (panic etc.) found by the plug-in
        for i, c in enumerate(cases):
            r = res.get(i)
            if r is None:
                errs.append("no result for case %d" % i)
                continue
            if hasattr(P, "harness_violation"):
                w = P.harness_violation(c, r)
                if w:
                    hv.append((i, w))
                    continue
            try:
                t = P.to_coq(c, r)
            except Exception as ex:  # noqa
                errs.append("to_coq failed on case %d: %r" % (i, ex))
                continue
            if t is None:
                continue
            terms.append(t)
            idxmap.append(i)
        M, V, cerrs = vlib.coq_eval_cases(P.PID, P.COQ_IMPORTS, P.CASE_TYPE, terms,
                                          shard=getattr(P, "SHARD", 300),
                                          extra_defs=getattr(P, "COQ_EXTRA", ""),
                                          timeout=getattr(P, "COQ_TIMEOUT", 1200))
        errs += cerrs
        M = [idxmap[m] for m in M]
        V = [idxmap[v] for v in V]
        return res, M, V, hv, errs


def size_of(case):
    return len(json.dumps(case))


def shrink(ctx, case, rounds=12):
    """Greedy one-op-removal shrink keeping the case violating (monitor on impl)."""
    P = ctx.P
    key = getattr(P, "OPS_KEY", "ops")
    if key not in case:
        return case
    cur = case
    for _ in range(rounds):
        ops = cur[key]
        if len(ops) <= 1:
            break
        cands = []
        # halves first, then single removals
        n = len(ops)
        for a, b in ((0, n // 2), (n // 2, n)):
            c = json.loads(json.dumps(cur))
            c[key] = ops[:a] + ops[b:]
            cands.append(c)
        for i in range(n):
            c = json.loads(json.dumps(cur))
            c[key] = ops[:i] + ops[i + 1:]
            cands.append(c)
        if hasattr(P, "fixup"):
            cands = [P.fixup(c) for c in cands]
        res, M, V, hv, errs = ctx.evaluate(cands)
        bad = set(V) | set(i for i, _ in hv)
        if not bad:
            break
        best = min(bad, key=lambda i: size_of(cands[i]))
        cur = cands[best]
    return cur


def write_replay(ctx, kind, what, case, result, extra=None):
    d = os.path.join(vlib.ROOT, "replays", ctx.pid)
    os.makedirs(d, exist_ok=True)
    body = {"property": ctx.pid, "kind": kind, "what": what, "seed": ctx.seed, "tier": ctx.tier,
            "case": case, "impl": result}
    if extra:
        body.update(extra)
    name = "%s_%s.json" % (kind, vlib.chash([what, case]))
    p = os.path.join(d, name)
    with open(p, "w") as fh:
        json.dump(body, fh, indent=1, sort_keys=True)
    return p


def classify(ctx, tags):
    """match the tags of a minimised failing case against known_findings.json"""
    for f in vlib.load_findings():
        if f.get("property") != ctx.pid or f.get("status") != "known":
            continue
        if f.get("tag") in tags:
            return f
    return None


def report_case_violation(ctx, case, result, what):
    P = ctx.P
    tags = set(P.tags(case, result)) if hasattr(P, "tags") else set()
    f = classify(ctx, tags)
    if f:
        ctx.known_hits.append((f, case))
        return
    model = None
    if hasattr(P, "model_dump"):
        try:
            model = P.model_dump(case, result)
        except Exception as ex:  # noqa
            model = "model dump failed: %r" % ex
    rp = write_replay(ctx, "V1", what, case, result, {"tags": sorted(tags), "model": model})
    if any(v.get("replay") == rp for v in ctx.violations):
        return
    ctx.violations.append({"kind": "V1", "what": what, "replay": rp, "found_input": True})


def search_failing_input(ctx, seeds_cases, why):
    """V2/V3: look for a concrete failing input among neighbours + a fresh targeted batch."""
    P = ctx.P
    cands = []
    for c in seeds_cases[:5]:
        if hasattr(P, "neighbours"):
            cands += P.neighbours(c, ctx.rng)
    n = P.COUNTS.get(ctx.tier, 100) * (3 if ctx.tier == "quick" else 2)
    rng2 = random.Random(ctx.seed * 7919 + 13)
    cands += P.gen_cases(rng2, ctx.tier, n)
    cands = [json.loads(json.dumps(c)) for c in cands]
    res, M, V, hv, errs = ctx.evaluate(cands)
    bad = sorted(set(V) | set(i for i, _ in hv), key=lambda i: size_of(cands[i]))
    return cands, res, bad


def run_check(P, tier, seed, replay=None):
    ctx = Ctx(P, tier, seed)
    pid = P.PID
    proof_ok = True
    proof_why = ""
    # 1. regenerate constants from /repo
    if hasattr(P, "consts"):
        try:
            txt = P.consts(vlib.REPO)
            gp = os.path.join(vlib.COQ, "theories", "Generated", "Consts_%s.v" % pid)
            old = open(gp).read() if os.path.exists(gp) else None
            if old != txt:
                with open(gp, "w") as fh:
                    fh.write(txt)
                ctx.notes.append("Generated/Consts_%s.v rewritten from /repo" % pid)
        except Exception as ex:  # noqa
            proof_ok = False
            proof_why = "translator failed: %r" % ex
    # 2. build the development, re-check the property theorems
    tg = ["theories/Properties/%s.vo" % pid, "theories/Monitors/Mon_%s.vo" % pid] + \
        list(getattr(P, "COQ_TARGETS", []))
    ok, mlog = vlib.coq_make(targets=tg, src_specs=getattr(P, "SRC_SPECS", None))
    if not ok:
        proof_ok = False
        proof_why = (proof_why + "; " if proof_why else "") + "coq build failed: " + mlog[-1500:]
        pr = {"theorems": [], "closed": [], "assumptions": {}, "ok": False, "why": proof_why}
    else:
        pr = vlib.check_properties(pid)
        if not pr["ok"]:
            proof_ok = False
            proof_why = pr.get("why", "") + " " + pr.get("log", "")[-1500:]
    ctx.proof = pr
    closure = vlib.coq_closure([t[:-1] for t in tg])
    forb = vlib.scan_forbidden(closure)
    if forb:
        proof_ok = False
        proof_why += " forbidden constructs: %s" % forb[:5]
    # 3. harness
    binp, blog = vlib.go_build(P.MODULE, P.PKG, P.BIN, race=getattr(P, "RACE", False))
    evaluations = 0
    nontriv = set()
    samples = []
    hist = {}
    M, V, hv, errs = [], [], [], []
    cases = []
    if binp is None:
        rp = write_replay(ctx, "V2", "harness does not build against /repo working tree", {}, None,
                          {"build_log": blog[-4000:], "correspondence": "corr:%s/build" % pid})
        ctx.violations.append({"kind": "V2", "what": "harness build failed", "replay": rp,
                               "found_input": False})
    else:
        ctx.bin = binp
        if replay:
            body = json.load(open(replay))
            cases = [body["case"]] if "case" in body and body["case"] else body.get("cases", [])
        else:
            cdir = os.path.join(vlib.ROOT, "corpus", pid)
            if os.path.isdir(cdir):
                for f in sorted(os.listdir(cdir)):
                    if f.endswith(".json"):
                        cases.append(json.load(open(os.path.join(cdir, f))))
            cases += P.gen_cases(ctx.rng, tier, P.COUNTS[tier])
        res, M, V, hv, errs = ctx.evaluate(cases)
        evaluations = len(cases)
        for i, c in enumerate(cases):
            r = res.get(i)
            if r is None:
                continue
            try:
                if P.nontrivial(c, r):
                    cc = dict(c)
                    cc.pop("id", None)
                    nontriv.add(vlib.chash(cc))
                    if len(samples) < 2:
                        samples.append({"case": cc, "impl": r})
            except Exception:  # noqa
                pass
            if hasattr(P, "histogram"):
                try:
                    ks = list(P.histogram(c, r))
                except Exception:  # noqa  (coverage bookkeeping must never decide a verdict)
                    ks = ["histogram_error"]
                for k in ks:
                    hist[k] = hist.get(k, 0) + 1
        if not samples and cases:
            samples.append({"case": cases[0], "impl": res.get(0)})
        if errs:
            rp = write_replay(ctx, "V2", "correspondence could not be evaluated", {}, None,
                              {"errors": errs[:10], "correspondence": "corr:%s/eval" % pid})
            ctx.violations.append({"kind": "V2", "what": "evaluation errors: %s" % errs[0][:300],
                                   "replay": rp, "found_input": False})
        # harness-level violations (panics, races, hangs ...)
        for i, w in hv[:5]:
            report_case_violation(ctx, cases[i], res.get(i), w)
        # V1: the monitor rejects what the implementation did. Every rejected case is classified first
        # (cheap); cases explained by a known finding are recorded, up to three others are shrunk and reported.
        unknown = []
        for i in V:
            tg = set(P.tags(cases[i], res.get(i))) if hasattr(P, "tags") else set()
            f = classify(ctx, tg)
            if f:
                ctx.known_hits.append((f, cases[i]))
            else:
                unknown.append(i)
        seen_tags = set()
        for i in unknown[:3]:
            small = shrink(ctx, cases[i]) if not replay else cases[i]
            r2, _, V2, hv2, _ = ctx.evaluate([small])
            if not V2 and not hv2:
                small, r2 = cases[i], {0: res.get(i)}
            tg = tuple(sorted(P.tags(small, r2.get(0)))) if hasattr(P, "tags") else ()
            if tg in seen_tags and tg:
                continue
            seen_tags.add(tg)
            report_case_violation(ctx, small, r2.get(0), "monitor ok_%s rejects the implementation's behaviour" % pid)
        # V2: correspondence differs but monitor is content
        onlyM = [i for i in M if i not in V]
        if onlyM and not any(v["kind"] == "V1" for v in ctx.violations):
            cands, cres, bad = search_failing_input(ctx, [cases[i] for i in onlyM], "corr")
            if bad:
                small = shrink(ctx, cands[bad[0]])
                r2, _, V2, hv2, _ = ctx.evaluate([small])
                if not V2 and not hv2:
                    small, r2 = cands[bad[0]], {0: cres.get(bad[0])}
                report_case_violation(ctx, small, r2.get(0), "failing input found after correspondence broke")
            if not any(v["kind"] == "V1" for v in ctx.violations):
                i = onlyM[0]
                model = None
                if hasattr(P, "model_dump"):
                    try:
                        model = P.model_dump(cases[i], res.get(i))
                    except Exception as ex:  # noqa
                        model = repr(ex)
                rp = write_replay(ctx, "V2", "model and implementation disagree", cases[i], res.get(i),
                                  {"correspondence": "corr:%s/case#%d" % (pid, i), "model": model,
                                   "mismatching_cases": len(onlyM)})
                ctx.violations.append({"kind": "V2", "what": "correspondence corr:%s broke on %d cases" % (pid, len(onlyM)),
                                       "replay": rp, "found_input": False})
        # plug-in specific extra phase (concurrency soaks, alloc meters, ...)
        if hasattr(P, "extra") and not replay:
            P.extra(ctx)
    # V3: proof obligations
    if not proof_ok:
        found = False
        if ctx.bin and not any(v["kind"] == "V1" for v in ctx.violations):
            cands, cres, bad = search_failing_input(ctx, cases[:3], "proof")
            if bad:
                report_case_violation(ctx, cands[bad[0]], cres.get(bad[0]), "failing input found after a proof obligation broke")
                found = any(v["kind"] == "V1" for v in ctx.violations)
        if not found:
            rp = write_replay(ctx, "V3", "proof obligation no longer checks", {}, None,
                              {"theorem_file": "coq/theories/Properties/%s.v" % pid, "why": proof_why[-3000:]})
            ctx.violations.append({"kind": "V3", "what": "proof obligations of %s do not check" % pid,
                                   "replay": rp, "found_input": False})
    # ---- evidence
    wall = time.time() - ctx.t0
    obligations = len(pr.get("theorems", []))
    discharged = len([t for t in pr.get("theorems", []) if t in pr.get("closed", [])])
    cov = {
        "obligations": max(obligations, 1),
        "discharged": discharged if proof_ok else 0,
        "checker_cmd": "make -f Makefile.coq -j16 (full .vo build of /verif/coq) && coqc %s theories/Properties/%s.v" % (" ".join(vlib.COQ_ARGS[:3]), pid),
        "trusted_base": list(getattr(P, "TRUSTED", [])) + [
            "Coq 8.16.1 kernel + vm_compute (no native_compute)",
            "Print Assumptions: " + ("all theorems closed under the global context" if all(not a for a in pr.get("assumptions", {}).values()) else json.dumps(pr.get("assumptions"))),
            "hand-written Gallina model tied to /repo by the correspondence harness %s/%s (Go, built from /repo working tree with -tags verif -overlay)" % (P.MODULE, P.PKG),
            "runner (Python): generators, canonicalisation, Coq literal printer",
        ],
        "theorems": pr.get("theorems", []),
        "coq_files_in_closure": closure,
        "evaluations": max(evaluations, 0),
        "distinct_nontrivial": len(nontriv),
        "rule": getattr(P, "RULE", ""),
        "samples": samples[:2],
        "traces_validated_against_impl": evaluations - len(M),
        "mismatches": len(M),
        "monitor_rejections": len(V),
        "histogram": hist,
        "known_findings_hit": sorted(set(f["id"] for f, _ in ctx.known_hits)),
        "notes": ctx.notes,
        "partial": getattr(P, "PARTIAL", None),
    }
    cov.update(ctx.extra_cov)
    if cov["discharged"] < 1:
        # a run whose proof obligations did not check must not look like proof evidence
        cov["proof_obligations_failed"] = cov.pop("obligations")
        cov.pop("discharged")
    ev = {"property_id": pid, "tier": tier, "seed": seed, "level": "proof", "coverage": cov,
          "assumptions": list(getattr(P, "ASSUMES", [])), "wall_s": round(wall, 2),
          "violations": len(ctx.violations)}
    evdir = os.path.join(vlib.ROOT, "evidence") if "VERIF_REPO" not in os.environ else \
        os.path.join(vlib.BUILD, "evidence_alt")
    os.makedirs(evdir, exist_ok=True)
    if not replay:
        with open(os.path.join(evdir, pid + ".json"), "w") as fh:
            json.dump(ev, fh, indent=1, sort_keys=True, default=str)
    done = set()
    for f, _ in ctx.known_hits:
        if f["id"] in done:
            continue
        done.add(f["id"])
        print("KNOWN-FINDING: property=%s %s" % (pid, f["what"]))
    for v in ctx.violations:
        tail = "" if v.get("found_input") else " no-failing-input-found"
        print("VIOLATION property=%s replay=%s%s" % (pid, v["replay"], tail))
        log("  -> " + v["what"][:500])
    print("[%s %s] evaluations=%d nontrivial=%d mismatches=%d monitor_rejections=%d theorems=%d/%d wall=%.1fs %s" % (
        pid, tier, evaluations, len(nontriv), len(M), len(V), discharged, obligations, wall,
        "FAIL" if ctx.violations else "ok"))
    return 1 if ctx.violations else 0


def setup():
    """build everything that the claimed (READY) checks need; files of checks still under construction may fail"""
    rc = 0
    pd = os.path.join(vlib.ROOT, "runner", "props")
    tgs = []
    for f in sorted(os.listdir(pd)):
        if f.startswith("C") and f.endswith(".py"):
            try:
                P = importlib.import_module("props." + f[:-3])
            except Exception:  # noqa
                continue
            if getattr(P, "READY", False):
                tgs += ["theories/Properties/%s.vo" % P.PID, "theories/Monitors/Mon_%s.vo" % P.PID] + list(getattr(P, "COQ_TARGETS", []))
    ok, mlog = vlib.coq_make(timeout=3600, targets=sorted(set(tgs)) + ["-k"])
    for f in sorted(os.listdir(pd)):
        if not (f.startswith("C") and f.endswith(".py")):
            continue
        try:
            P = importlib.import_module("props." + f[:-3])
        except Exception as ex:  # noqa
            print("plug-in %s does not import: %r" % (f, ex))
            continue
        if not getattr(P, "READY", False):
            continue
        for t in ["theories/Properties/%s.vo" % P.PID, "theories/Monitors/Mon_%s.vo" % P.PID] + list(getattr(P, "COQ_TARGETS", [])):
            if not os.path.exists(os.path.join(vlib.COQ, t)):
                print("setup: %s was not built\n%s" % (t, mlog[-3000:]))
                rc = 1
        b, blog = vlib.go_build(P.MODULE, P.PKG, P.BIN, race=getattr(P, "RACE", False))
        if b is None:
            print(blog[-3000:])
            rc = 1
        for extra in getattr(P, "EXTRA_BUILDS", []):
            b, blog = vlib.go_build(*extra[:3], race=extra[3] if len(extra) > 3 else False)
            if b is None:
                print(blog[-3000:])
                rc = 1
    return rc


def coqchk():
    """independent re-check of every compiled Properties module (and all they depend on)"""
    import subprocess
    ok, mlog = vlib.coq_make(timeout=7200)
    mods = ["Synnax.Properties." + f[:-2] for f in sorted(os.listdir(os.path.join(vlib.COQ, "theories", "Properties")))
            if f.endswith(".v") and os.path.exists(os.path.join(vlib.COQ, "theories", "Properties", f + "o"))]
    t = time.time()
    r = subprocess.run(["coqchk", "-silent", "-o", "-Q", "theories", "Synnax", *mods], cwd=vlib.COQ,
                       stdout=subprocess.PIPE, stderr=subprocess.STDOUT, text=True)
    out = r.stdout
    with open(os.path.join(vlib.BUILD, "coqchk.log"), "w") as fh:
        fh.write("modules: %s\nwall_s: %.0f\nrc: %d\n\n%s" % (" ".join(mods), time.time() - t, r.returncode, out))
    print(out[-3000:])
    print("coqchk rc=%d wall=%.0fs modules=%d" % (r.returncode, time.time() - t, len(mods)))
    return r.returncode


def main():
    ap = argparse.ArgumentParser()
    ap.add_argument("pid", nargs="?")
    ap.add_argument("--tier", default=os.environ.get("VERIF_TIER", "quick"))
    ap.add_argument("--replay")
    ap.add_argument("--setup", action="store_true")
    ap.add_argument("--coqchk", action="store_true")
    a = ap.parse_args()
    if a.setup:
        sys.exit(setup())
    if a.coqchk:
        sys.exit(coqchk())
    if not a.pid:
        ap.error("property id required")
    seed = int(os.environ.get("VERIF_SEED", "1") or "1")
    P = importlib.import_module("props." + a.pid)
    tier = a.tier if a.tier in ("quick", "thorough") else "quick"
    try:
        rc = run_check(P, tier, seed, a.replay)
    except SystemExit:
        raise
    except Exception as ex:  # noqa
        # the machinery itself failed (on the unchanged tree this is a broken check; on a changed tree the property
        # is no longer shown to hold): keep to the interface — a VIOLATION line with a replay file naming what broke
        import traceback
        tb = traceback.format_exc()
        rdir = os.path.join(vlib.ROOT, "replays" if vlib.REPO == "/repo" else os.path.join("build", "replays_alt"), a.pid)
        os.makedirs(rdir, exist_ok=True)
        rp = os.path.join(rdir, "V2_check_crashed.json")
        with open(rp, "w") as fh:
            json.dump({"property": a.pid, "kind": "V2", "what": "the check machinery crashed: %r" % ex,
                       "correspondence": "corr:%s/runner" % a.pid, "traceback": tb[-4000:]}, fh, indent=1)
        print(tb, file=sys.stderr)
        print("VIOLATION property=%s replay=%s no-failing-input-found" % (a.pid, rp))
        rc = 1
    sys.exit(rc)


if __name__ == "__main__":
    main()
