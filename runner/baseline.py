#!/usr/bin/env python3
"""Run the repository's pinned test suite (BASELINE.json) against a repo dir (default /repo) with the hook guard OFF
and compare with the stable baseline.   usage: baseline.py [repo_dir] [module ...]
Failing tests are re-run alone up to 2 times (the aspen root package binds fixed TCP ports and collides with
other runs in this sandbox)."""
import json
import os
import subprocess
import sys

repo = sys.argv[1] if len(sys.argv) > 1 else "/repo"
mods = sys.argv[2:] or [l.strip() for l in open("/w/out/gomods.txt") if l.strip()]
base = set(json.load(open("/root/.vp/BASELINE.json"))["stable_pass"])
env = dict(os.environ, GOFLAGS="-mod=mod", GOPROXY="off")
passed, failed = set(), set()


def run(mod, pkgs):
    p = subprocess.run(["go", "test", "-mod=mod", "-json", "-vet=off", "-count=1", "-timeout", "25m", *pkgs],
                       cwd=os.path.join(repo, mod), env=env, stdout=subprocess.PIPE, stderr=subprocess.DEVNULL, text=True)
    ps, fs = set(), set()
    for line in p.stdout.splitlines():
        if not line.startswith("{"):
            continue
        try:
            ev = json.loads(line)
        except Exception:
            continue
        if ev.get("Test") is None or ev.get("Action") not in ("pass", "fail"):
            continue
        tid = ev["Package"] + "::" + ev["Test"]
        (ps if ev["Action"] == "pass" else fs).add(tid)
    return ps - fs, fs


for m in mods:
    ps, fs = run(m, ["./..."])
    for attempt in range(2):
        if not fs:
            break
        pk = sorted(set(t.split("::")[0] for t in fs))
        ps2, fs2 = run(m, pk)
        ps |= ps2
        fs = fs2
    passed |= ps
    failed |= fs
    print("[%s] passed=%d failed=%d" % (m, len(ps), len(fs)), flush=True)
missing = sorted(t for t in base if t not in passed)
print("baseline stable=%d passed_of_baseline=%d missing=%d" % (len(base), len(base) - len(missing), len(missing)))
for t in missing[:40]:
    print("  MISSING", t, "(FAILED)" if t in failed else "(not run)")
sys.exit(1 if missing else 0)
