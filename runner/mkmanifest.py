#!/usr/bin/env python3
"""Regenerate /verif/MANIFEST.json from the plug-ins (READY ones are claimed)."""
import importlib
import json
import os
import sys

sys.path.insert(0, os.path.dirname(os.path.abspath(__file__)))
ROOT = "/verif"
props = [json.loads(l) for l in open(os.path.join(ROOT, "properties.jsonl"))]
NA_REASONS = json.load(open(os.path.join(ROOT, "runner", "not_applicable.json")))
checks, na, engines = [], [], []
for p in props:
    pid = p["id"]
    path = os.path.join(ROOT, "runner", "props", pid + ".py")
    P = None
    if os.path.exists(path):
        P = importlib.import_module("props." + pid)
    if P is None or not getattr(P, "READY", False):
        na.append({"property_id": pid, "reason": NA_REASONS.get(pid, "check not built yet in this session (designed in DESIGN.md §8; to be claimed once its Coq model, theorems and correspondence harness run clean)")})
        continue
    checks.append({
        "property_id": pid,
        "quick_cmd": "./check %s --tier quick" % pid,
        "thorough_cmd": "./check %s --tier thorough" % pid,
        "evidence_file": "/verif/evidence/%s.json" % pid,
        "replay_cmd_template": "./check %s --replay {path}" % pid,
        "engine": "coq-proof+correspondence",
        "level_claimed": {"category": "proof", "text": P.LEVEL_TEXT, "design_ref": P.DESIGN_REF},
        "level_note": P.LEVEL_NOTE,
        "technique": P.TECHNIQUE,
    })
m = {
    "version": 1,
    "setup_cmd": "./check --setup",
    "hooks": {
        "guard": "verif",
        "enable": "go build -tags verif -overlay /verif/build/overlay.json (overlay maps every file under /verif/hooks/<repo-relative path> into /repo; nothing is written to /repo)",
        "baseline_off_cmd": "for m in $(cat /w/out/gomods.txt); do MF=$(cd /repo/$m && . /w/out/goenv.sh && gomodflag); (cd /repo/$m && go test $MF -json -vet=off -count=1 -timeout 25m ./...); done",
        "source_commits": [],
        "add_only": True,
    },
    "engines": [{
        "name": "coq-proof+correspondence",
        "path": "/verif/coq + /verif/runner + /verif/hooks",
        "serves_properties": [c["property_id"] for c in checks],
        "kind_free_text": "Coq 8.16.1 development (std++/stdlib) with executable Gallina models, theorems in theories/Properties, "
                          "Go harnesses injected by -overlay, Python runner evaluating model vs implementation inside Coq (vm_compute)",
    }],
    "checks": checks,
    "not_applicable": na,
    "notes": "All hook files are add-only, tag-guarded (//go:build verif) and supplied through go's -overlay; /repo carries only fix: commits. See DESIGN.md.",
}
with open(os.path.join(ROOT, "MANIFEST.json"), "w") as fh:
    json.dump(m, fh, indent=1)
print("claimed:", [c["property_id"] for c in checks], "not_applicable:", len(na))
