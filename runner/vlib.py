"""Common machinery for the /verif checks (see DESIGN.md §3–§5).

A property plug-in (runner/props/Cnn.py) provides:
  PID, TITLE, COQ_IMPORTS (text), CASE_TYPE ("case_t"), harness build info (MODULE, PKG, BIN,
  optional RACE), gen_cases(rng, tier) -> [case], to_coq(case, result) -> str,
  nontrivial(case, result) -> bool, neighbours(case, rng) -> [case], tags(case, result) -> set,
  COUNTS = {"quick": n, "thorough": n}, TRUSTED (list of strings), PARTIAL (str|None),
  optional consts(repo) -> str (text of Generated/Consts_Cnn.v), optional extra(ctx) hook.
"""
import fcntl
import hashlib
import json
import os
import random
import re
import subprocess
import sys
import time

ROOT = os.path.dirname(os.path.dirname(os.path.abspath(__file__)))  # /verif (or a snapshot of it)
REPO = os.environ.get("VERIF_REPO", "/repo")
COQ = os.path.join(ROOT, "coq")
BUILD = os.path.join(ROOT, "build")
HOOKS = os.path.join(ROOT, "hooks")

ALLOWED_AXIOMS = {
    # axioms declared by the standard library that the development may depend on; each is
    # named in DESIGN.md §6.  (Empty so far: every theorem is closed under the global context.)
}


def _limit_mem():
    """children (coqc / make) may not exceed MEM_LIMIT bytes of address space: a runaway proof search must
    die instead of taking the sandbox down"""
    import resource
    lim = int(os.environ.get("VERIF_COQ_MEM", str(12 * 1024 ** 3)))
    resource.setrlimit(resource.RLIMIT_AS, (lim, lim))


def goenv():
    e = dict(os.environ)
    e["GOFLAGS"] = "-mod=mod"
    e["GOPROXY"] = "off"
    e.pop("GOSUMDB", None)
    e.pop("GOTOOLCHAIN", None)
    return e


def log(*a):
    print(*a, file=sys.stderr, flush=True)


# --------------------------------------------------------------------------- overlay / go
def write_overlay():
    """Map every file under /verif/hooks/<repo-relative path> into /repo virtually."""
    rep = {}
    for d, _, fs in os.walk(HOOKS):
        for f in fs:
            if not f.endswith((".go", ".s", ".mod", ".sum")):
                continue
            src = os.path.join(d, f)
            rel = os.path.relpath(src, HOOKS)
            rep[os.path.join(REPO, rel)] = src
    os.makedirs(BUILD, exist_ok=True)
    p = os.path.join(BUILD, "overlay.json" if REPO == "/repo" else
                     "overlay_%s.json" % hashlib.sha256(REPO.encode()).hexdigest()[:8])
    tmp = p + ".%d" % os.getpid()
    with open(tmp, "w") as fh:
        json.dump({"Replace": rep}, fh, indent=1, sort_keys=True)
    os.replace(tmp, p)
    return p


def go_build(module, pkg, binname, race=False, tags="verif"):
    """Build a harness main package that lives (virtually) inside a /repo module."""
    ov = write_overlay()
    out = os.path.join(BUILD, "bin" if REPO == "/repo" else
                       "bin_%s" % hashlib.sha256(REPO.encode()).hexdigest()[:8],
                       binname + ("_race" if race else ""))
    os.makedirs(os.path.dirname(out), exist_ok=True)
    cmd = ["go", "build", "-tags", tags, "-overlay", ov, "-o", out]
    if race:
        cmd.append("-race")
    cmd.append(pkg)
    t = time.time()
    r = subprocess.run(cmd, cwd=os.path.join(REPO, module), env=goenv(),
                       stdout=subprocess.PIPE, stderr=subprocess.STDOUT, text=True)
    log("[go build %s %s] %.1fs rc=%d" % (module, pkg, time.time() - t, r.returncode))
    if r.returncode != 0:
        return None, r.stdout
    return out, r.stdout


def run_harness(binpath, cases, timeout=600, procs=8, env=None, args=()):
    """Feed cases (dicts, one JSON line each) to the harness; returns {id: result}."""
    if not cases:
        return {}
    procs = max(1, min(procs, len(cases)))
    chunks = [cases[i::procs] for i in range(procs)]
    ps = []
    e = dict(os.environ)
    if env:
        e.update(env)
    for ch in chunks:
        p = subprocess.Popen([binpath, *args], stdin=subprocess.PIPE, stdout=subprocess.PIPE,
                             stderr=subprocess.PIPE, text=True, env=e)
        ps.append((p, ch))
    import threading
    outs = {}
    errs = []

    def work(p, ch):
        data = "".join(json.dumps(c, separators=(",", ":")) + "\n" for c in ch)
        try:
            so, se = p.communicate(data, timeout=timeout)
        except subprocess.TimeoutExpired:
            p.kill()
            so, se = p.communicate()
            errs.append("harness timeout")
        if p.returncode not in (0, None):
            errs.append("harness exit %s: %s" % (p.returncode, se[-2000:]))
        for line in so.splitlines():
            line = line.strip()
            if not line.startswith("{"):
                continue
            try:
                r = json.loads(line)
                outs[r["id"]] = r
            except Exception as ex:  # noqa
                errs.append("bad harness line: %r" % line[:200])
        if se and se.strip():
            outs.setdefault("_stderr", []).append(se[-4000:])

    ths = [threading.Thread(target=work, args=pc) for pc in ps]
    for t in ths:
        t.start()
    for t in ths:
        t.join()
    if errs:
        outs["_errors"] = errs
    return outs


# --------------------------------------------------------------------------- coq
def coq_project_files():
    fs = []
    for d, _, names in os.walk(os.path.join(COQ, "theories")):
        for n in names:
            if n.endswith(".v"):
                fs.append(os.path.relpath(os.path.join(d, n), COQ))
    return sorted(fs)


class Lock:
    def __init__(self, name):
        os.makedirs(BUILD, exist_ok=True)
        self.p = os.path.join(BUILD, name + ".lock")

    def __enter__(self):
        self.fh = open(self.p, "w")
        fcntl.flock(self.fh, fcntl.LOCK_EX)

    def __exit__(self, *a):
        fcntl.flock(self.fh, fcntl.LOCK_UN)
        self.fh.close()


COQ_ARGS = ["-Q", "theories", "Synnax", "-w",
            "-notation-overridden,-ambiguous-paths,-deprecated-instance-without-locality,-deprecated-hint-without-locality,-future-coercion-class-field"]


def gen_sources(specs):
    """Source translator (translator/go2coq): for every spec name, regenerate coq/theories/Generated/<module>.v
    from REPO's current Go source. Returns (ok, log). Called with the coqmake lock held."""
    if not specs:
        return True, ""
    tdir = os.path.join(ROOT, "translator", "go2coq")
    binp = os.path.join(BUILD, "bin", "go2coq")
    os.makedirs(os.path.dirname(binp), exist_ok=True)
    env = dict(os.environ, GOFLAGS="-mod=mod", GOPROXY="off")
    r = subprocess.run(["go", "build", "-o", binp, "."], cwd=tdir, env=env, stdout=subprocess.PIPE,
                       stderr=subprocess.STDOUT, text=True)
    if r.returncode != 0:
        return False, "go2coq does not build: " + r.stdout[-1500:]
    logs = []
    for name in specs:
        sp = os.path.join(ROOT, "translator", "specs", name + ".json")
        mod = json.load(open(sp))["module"]
        r = subprocess.run([binp, REPO, sp], stdout=subprocess.PIPE, stderr=subprocess.PIPE, text=True)
        if r.returncode != 0:
            return False, "go2coq %s: %s" % (name, r.stderr[-1500:])
        gp = os.path.join(COQ, "theories", "Generated", mod + ".v")
        old = open(gp).read() if os.path.exists(gp) else None
        if old != r.stdout:
            with open(gp, "w") as fh:
                fh.write(r.stdout)
            logs.append("Generated/%s.v rewritten from the Go source" % mod)
    return True, "; ".join(logs)


def coq_make(timeout=None, targets=None, src_specs=None):
    """Full .vo build (incremental) of the whole development (targets=None) or of the given .vo
    targets and everything they depend on. Returns (ok, log)."""
    if timeout is None:
        timeout = 1200 if targets else 7200
    with Lock("coqmake"):
        if src_specs:
            gok, glog = gen_sources(src_specs)
            if not gok:
                return False, "source translator failed: " + glog
            if glog:
                log("[go2coq] " + glog)
        files = coq_project_files()
        proj = "-Q theories Synnax\n" + \
               "-arg -w -arg %s\n" % COQ_ARGS[-1] + "\n".join(files) + "\n"
        pp = os.path.join(COQ, "_CoqProject")
        old = open(pp).read() if os.path.exists(pp) else ""
        if old != proj or not os.path.exists(os.path.join(COQ, "Makefile.coq")):
            with open(pp, "w") as fh:
                fh.write(proj)
            subprocess.run(["coq_makefile", "-f", "_CoqProject", "-o", "Makefile.coq"], cwd=COQ,
                           check=True, stdout=subprocess.DEVNULL, stderr=subprocess.DEVNULL)
        t = time.time()
        try:
            cmd = ["make", "-f", "Makefile.coq", "-j16"]
            if targets:
                cmd += list(targets)
            else:
                cmd += ["-k"]
            r = subprocess.run(cmd, cwd=COQ, timeout=timeout, preexec_fn=_limit_mem,
                               stdout=subprocess.PIPE, stderr=subprocess.STDOUT, text=True)
        except subprocess.TimeoutExpired as ex:
            return False, "make timeout\n" + (ex.stdout or "")
        log("[coq make] %.1fs rc=%d" % (time.time() - t, r.returncode))
        return r.returncode == 0, r.stdout


def coqc_file(path, timeout=600):
    try:
        r = subprocess.run(["coqc", *COQ_ARGS, path], cwd=COQ, timeout=timeout, preexec_fn=_limit_mem,
                           stdout=subprocess.PIPE, stderr=subprocess.STDOUT, text=True)
        return r.returncode, r.stdout
    except subprocess.TimeoutExpired as ex:
        return 124, "coqc timeout\n" + (ex.stdout or "")


def check_properties(pid):
    """Re-run coqc on Properties/<pid>.v; returns dict with theorem names, assumptions."""
    src = os.path.join(COQ, "theories", "Properties", pid + ".v")
    text = open(src).read()
    thms = re.findall(r"^\s*Theorem\s+([A-Za-z0-9_']+)", text, re.M)
    printed = re.findall(r"^\s*Print Assumptions\s+([A-Za-z0-9_']+)\s*\.", text, re.M)
    bad_words = re.findall(r"\b(Admitted|admit|Axiom|Parameter|Conjecture|Abort All)\b", text)
    rc, out = coqc_file(os.path.relpath(src, COQ))
    res = {"theorems": thms, "rc": rc, "assumptions": {}, "ok": False, "log": out[-4000:],
           "closed": []}
    if rc != 0:
        res["why"] = "coqc failed on Properties/%s.v" % pid
        return res
    # split output into blocks, one per Print Assumptions, in order
    blocks = []
    cur = None
    for line in out.splitlines():
        if line.startswith("Closed under the global context"):
            blocks.append([])
            cur = None
        elif line.startswith("Axioms:"):
            cur = []
            blocks.append(cur)
        elif cur is not None and line.strip():
            cur.append(line.strip())
    ok = True
    why = []
    if bad_words:
        ok = False
        why.append("forbidden vernacular in Properties file: %s" % sorted(set(bad_words)))
    if len(blocks) != len(printed):
        ok = False
        why.append("Print Assumptions blocks %d != statements %d" % (len(blocks), len(printed)))
    for name, b in zip(printed, blocks):
        axs = []
        for l in b:
            m = re.match(r"([A-Za-z0-9_.']+)\s*:", l)
            if m:
                axs.append(m.group(1))
        res["assumptions"][name] = axs
        extra = [a for a in axs if a not in ALLOWED_AXIOMS]
        if extra:
            ok = False
            why.append("%s depends on %s" % (name, extra))
        else:
            res["closed"].append(name)
    missing = [t for t in thms if t not in printed]
    if missing:
        ok = False
        why.append("theorems without Print Assumptions: %s" % missing)
    res["ok"] = ok
    res["why"] = "; ".join(why)
    return res


def coq_closure(roots):
    """files of the development that the given theories-relative roots transitively Require"""
    seen, todo = set(), list(roots)
    while todo:
        f = todo.pop()
        if f in seen or not os.path.exists(os.path.join(COQ, f)):
            continue
        seen.add(f)
        txt = open(os.path.join(COQ, f)).read()
        txt = re.sub(r"\(\*.*?\*\)", "", txt, flags=re.S)
        for m in re.finditer(r"From\s+Synnax\s+Require\s+(?:Import\s+|Export\s+)?(.*?)\.(?:\s|$)", txt + "\n", flags=re.S):
            for name in m.group(1).split():
                todo.append("theories/" + name.replace(".", "/") + ".v")
        for m in re.finditer(r"Require\s+(?:Import\s+|Export\s+)?(.*?)\.(?:\s|$)", txt + "\n", flags=re.S):
            for name in m.group(1).split():
                if name.startswith("Synnax."):
                    todo.append("theories/" + name[len("Synnax."):].replace(".", "/") + ".v")
    return sorted(seen)


def scan_forbidden(files=None):
    """grep the development (or the given files) for forbidden constructs."""
    pat = re.compile(r"\b(Admitted|admit|Axiom|Axioms|Parameter|Parameters|Conjecture|Conjectures|Admit Obligations|"
                     r"Unset Guard Checking|Unset Positivity Checking|Unset Universe Checking|bypass_check|"
                     r"native_compute|type-in-type|impredicative-set)\b")
    hits = []
    for f in (files if files is not None else coq_project_files()):
        txt = open(os.path.join(COQ, f)).read()
        txt = re.sub(r"\(\*.*?\*\)", "", txt, flags=re.S)
        for m in pat.finditer(txt):
            hits.append("%s: %s" % (f, m.group(1)))
        # Variable / Hypothesis / Context outside a Section declare axioms
        depth = 0
        for line in txt.splitlines():
            t = line.strip()
            if re.match(r"(Section|Module)\s+[A-Za-z0-9_']+\s*\.", t) or re.match(r"Module\s+(Type\s+)?[A-Za-z0-9_']+.*\.$", t) and ":=" not in t:
                depth += 1
            elif re.match(r"End\s+[A-Za-z0-9_']+\s*\.", t):
                depth = max(0, depth - 1)
            elif depth == 0 and re.match(r"(Variables?|Hypothes[ie]s|Context)\b", t):
                hits.append("%s: %s outside a Section" % (f, t[:40]))
    return hits


# --- Coq literal helpers
def cN(n):
    return "%d%%N" % int(n)


def cZ(n):
    n = int(n)
    return "(%d)%%Z" % n


def cnat(n):
    return "%d%%nat" % int(n)


def clist(items):
    return "[" + "; ".join(items) + "]"


def cpair(*xs):
    return "(" + ", ".join(xs) + ")"


def cbool(b):
    return "true" if b else "false"


def cbytes(bs):
    """list of N bytes"""
    return "[" + ";".join("%d" % b for b in bs) + "]%N"


def cstr(s):
    """Coq string literal"""
    return '"' + s.replace('"', '""') + '"%string'


def coq_eval_cases(pid, imports, case_type, terms, shard=400, timeout=900, extra_defs="",
                   mism="mismatches", viol="violations", jobs=8):
    """Evaluate mismatches/violations over case terms in shards. Returns (M, V, errors)."""
    cdir = os.path.join(BUILD, "cases", pid)
    os.makedirs(cdir, exist_ok=True)
    for f in os.listdir(cdir):
        if f.startswith(("cases_", ".cases_", "print_", ".print_")):
            try:
                if time.time() - os.path.getmtime(os.path.join(cdir, f)) > 1800:
                    os.remove(os.path.join(cdir, f))
            except OSError:
                pass
    shards = [terms[i:i + shard] for i in range(0, len(terms), shard)]
    procs = []
    M, V, errs = [], [], []
    import concurrent.futures as cf

    def one(si):
        sh = shards[si]
        name = "cases_%s_%d_%d" % (pid, os.getpid(), si)
        path = os.path.join(cdir, name + ".v")
        with open(path, "w") as fh:
            fh.write(imports + "\n")
            fh.write("From Coq Require Import List NArith ZArith String.\nImport ListNotations.\n")
            fh.write(extra_defs + "\n")
            fh.write("Definition cases : list %s :=\n  [ %s ].\n" % (case_type, "\n  ; ".join(sh)))
            fh.write("Definition M := Eval vm_compute in %s cases.\n" % mism)
            fh.write("Definition V := Eval vm_compute in %s cases.\n" % viol)
            fh.write("Print M.\nPrint V.\n")
        try:
            r = subprocess.run(["coqc", *COQ_ARGS, "-Q", cdir, "VCases", path], cwd=COQ,
                               timeout=timeout, stdout=subprocess.PIPE, stderr=subprocess.STDOUT,
                               text=True, preexec_fn=_limit_mem)
        except subprocess.TimeoutExpired:
            return si, None, None, "coqc timeout on shard %d" % si
        if r.returncode != 0:
            return si, None, None, "coqc failed on shard %d: %s" % (si, r.stdout[-3000:])
        out = r.stdout.replace("\n", " ")
        mm = re.search(r"M\s*=\s*(\[[^\]]*\])", out)
        vv = re.search(r"V\s*=\s*(\[[^\]]*\])", out)
        if not mm or not vv:
            return si, None, None, "cannot parse coqc output: %s" % r.stdout[-1000:]

        def parse(s):
            s = s.strip()[1:-1].strip()
            if not s:
                return []
            return [int(x.replace("%nat", "").strip()) for x in s.split(";")]
        for ext in (".v", ".vo", ".glob", ".vok", ".vos"):
            for pre in ("", "."):
                try:
                    os.remove(os.path.join(cdir, pre + name + ext))
                except OSError:
                    pass
        try:
            os.remove(os.path.join(cdir, "." + name + ".aux"))
        except OSError:
            pass
        return si, parse(mm.group(1)), parse(vv.group(1)), None

    with cf.ThreadPoolExecutor(max_workers=jobs) as ex:
        for si, m, v, e in ex.map(one, range(len(shards))):
            if e:
                errs.append(e)
                continue
            M += [si * shard + x for x in m]
            V += [si * shard + x for x in v]
    return sorted(M), sorted(V), errs


def coq_print(pid, imports, body, timeout=300):
    """Run a small Coq script and return its stdout (for model dumps in replays)."""
    cdir = os.path.join(BUILD, "cases", pid)
    os.makedirs(cdir, exist_ok=True)
    path = os.path.join(cdir, "print_%s_%d.v" % (pid, os.getpid()))
    with open(path, "w") as fh:
        fh.write(imports + "\nFrom Coq Require Import List NArith ZArith String.\nImport ListNotations.\n" + body + "\n")
    try:
        r = subprocess.run(["coqc", *COQ_ARGS, path], cwd=COQ, timeout=timeout, preexec_fn=_limit_mem,
                           stdout=subprocess.PIPE, stderr=subprocess.STDOUT, text=True)
        return r.stdout
    except subprocess.TimeoutExpired:
        return "timeout"


# --------------------------------------------------------------------------- findings
def load_findings():
    p = os.path.join(ROOT, "known_findings.json")
    if not os.path.exists(p):
        return []
    return json.load(open(p)).get("findings", [])


def canon(obj):
    return json.dumps(obj, sort_keys=True, separators=(",", ":"))


def chash(obj):
    return hashlib.sha256(canon(obj).encode()).hexdigest()[:16]
