#!/usr/bin/env python3
"""Seeded-change experiments.

  seed.py confirm <dir>            confirm a candidate (patch.diff, demo, meta.json) in a scratch worktree:
                                   demo passes on HEAD, fails with the patch, touched packages' tests pass
  seed.py check <dir> [PID ...]    apply the patch in a scratch worktree and run ./check PID against it
  seed.py keep <dir> <name>        copy a confirmed candidate to /verif/seeded/<name>/

Nothing is ever applied to /repo itself; worktrees live under /tmp and are removed afterwards.
"""
import json
import os
import re
import shutil
import subprocess
import sys
import time

ROOT = "/verif"


def sh(cmd, cwd=None, timeout=3600, env=None):
    e = dict(os.environ)
    e.update({"GOFLAGS": "-mod=mod", "GOPROXY": "off"})
    if env:
        e.update(env)
    p = subprocess.run(cmd, shell=True, cwd=cwd, env=e, stdout=subprocess.PIPE, stderr=subprocess.STDOUT,
                       text=True, timeout=timeout)
    return p.returncode, p.stdout


def mkwt(tag):
    wt = "/tmp/seedwt_%s_%d" % (tag, os.getpid())
    sh("git -C /repo worktree remove --force %s" % wt)
    rc, out = sh("git -C /repo worktree add -q --detach %s HEAD" % wt)
    if rc != 0:
        raise SystemExit("worktree add failed: " + out)
    return wt


def rmwt(wt):
    sh("git -C /repo worktree remove --force %s" % wt)
    sh("git -C /repo worktree prune")
    shutil.rmtree(wt, ignore_errors=True)


def load_meta(d):
    p = os.path.join(d, "meta.json")
    return json.load(open(p)) if os.path.exists(p) else {}


def demo_plan(d, meta):
    """returns (src file, dest relative path, run dir, command)"""
    loc = meta.get("demo_location", "")
    if isinstance(loc, dict):
        loc = json.dumps(loc)
    src = None
    for n in sorted(os.listdir(d)):
        if n.endswith(".go"):
            src = os.path.join(d, n)
    m = re.search(r"(?:copy|cp|place|put)\s+\S*?\s*(?:to|at|into|as)\s+[`'\"]?([A-Za-z0-9_./-]+\.go)", loc)
    dest = m.group(1) if m else None
    m2 = re.search(r"(?:run from|run in|from|cd)\s+[`'\"]?([A-Za-z0-9_./-]+)[`'\"]?\s*(?:[:;]|&&)+\s*(.*)$", loc, re.S)
    rundir, cmd = (m2.group(1), m2.group(2).strip().strip("`").rstrip(".")) if m2 else (None, None)
    if cmd and "go test" in cmd:
        cmd = cmd[cmd.index("go test") if not cmd.startswith("GO") else 0:]
        cmd = cmd.split("\n")[0].split(" (")[0].strip().strip("`")
    return src, dest, rundir, cmd


def confirm(d):
    d = os.path.abspath(d)
    meta = load_meta(d)
    src, dest, rundir, cmd = demo_plan(d, meta)
    over = os.path.join(d, "confirm_plan.json")
    if os.path.exists(over):
        o = json.load(open(over))
        dest, rundir, cmd = o.get("dest", dest), o.get("rundir", rundir), o.get("cmd", cmd)
        if o.get("src"):
            src = os.path.join(d, o["src"])
    if not (src and dest and rundir and cmd) or "<repo>" in (dest or "") + (rundir or ""):
        # auto-plan: destination from the text, test name from the demo file
        loc = json.dumps(meta.get("demo_location", ""))
        m = re.search(r"(?:<repo>/)?((?:x/go|alamos/go|arc/go|freighter/go|freighter/integration|aspen|cesium|core)/[A-Za-z0-9_./-]*_test\.go)", loc)
        names = re.findall(r"^func (Test[A-Za-z0-9_]+)\(", open(src).read(), re.M) if src else []
        if m and names and "ginkgo" not in open(src).read():
            dest = m.group(1)
            for mod in ("x/go", "alamos/go", "arc/go", "freighter/go", "freighter/integration", "aspen", "cesium", "core"):
                if dest.startswith(mod + "/"):
                    rundir = mod
                    rel = os.path.dirname(dest[len(mod) + 1:])
                    cmd = "go test -mod=mod -vet=off -count=1 -run '^(%s)$' ./%s" % ("|".join(names), rel + "/" if rel else "")
                    break
    if not (src and dest and rundir and cmd):
        print("cannot derive demo plan; write %s with dest/rundir/cmd" % over)
        print(json.dumps(meta.get("demo_location")))
        return 2
    dest = dest.lstrip("/")
    for pre in ("tmp/mut_", ):
        pass
    wt = mkwt(os.path.basename(os.path.dirname(d.rstrip("/"))) + "_" + os.path.basename(d.rstrip("/")))
    res = {"dest": dest, "rundir": rundir, "cmd": cmd}
    try:
        rd = rundir
        if rd.startswith("/"):
            rd = re.sub(r"^/tmp/mut_[A-Za-z0-9]+/?", "", rd)
            rd = re.sub(r"^/repo/?", "", rd)
        dst = dest
        dst = re.sub(r"^/?tmp/mut_[A-Za-z0-9]+/", "", dst)
        os.makedirs(os.path.dirname(os.path.join(wt, dst)), exist_ok=True)
        shutil.copy(src, os.path.join(wt, dst))
        rc0, out0 = sh(cmd, cwd=os.path.join(wt, rd), timeout=1800)
        res["demo_on_head"] = "pass" if rc0 == 0 else "FAIL"
        rc, out = sh("git apply %s" % os.path.join(d, "patch.diff"), cwd=wt)
        if rc != 0:
            res["apply"] = "FAILED: " + out[-400:]
            print(json.dumps(res, indent=1))
            return 1
        rc1, out1 = sh(cmd, cwd=os.path.join(wt, rd), timeout=1800)
        res["demo_with_patch"] = "fail (as required)" if rc1 != 0 else "PASSES (bad)"
        os.remove(os.path.join(wt, dst))
        # existing tests of the touched packages
        rc, files = sh("git diff --name-only", cwd=wt)
        mods = {}
        for f in files.split():
            for m in ("x/go", "alamos/go", "arc/go", "freighter/go", "aspen", "cesium", "core"):
                if f.startswith(m + "/") and f.endswith(".go"):
                    mods.setdefault(m, set()).add("./" + os.path.dirname(f[len(m) + 1:]) + "/...")
        res["tests"] = {}
        for m, pk in mods.items():
            pk = sorted(pk)
            # package itself plus, for internal packages, the module root tests
            extra = ["./..."] if m in ("aspen", "cesium", "x/go", "freighter/go") else []
            t = time.time()
            rc, out = sh("go test -mod=mod -vet=off -count=1 %s 2>&1 | grep -v '^ok\\|no test files' | tail -15" % " ".join(extra or pk),
                         cwd=os.path.join(wt, m), timeout=3000)
            failed = sorted(set(re.findall(r"^FAIL\s+(github\.com\S+)", out, re.M)) - {"github.com/synnaxlabs/x/io/fs/testutil"})
            # packages that bind fixed TCP ports (aspen root) collide with other test runs in this sandbox: retry alone
            for attempt in range(3):
                if not failed:
                    break
                still = []
                for pkgpath in failed:
                    rel = "./" + pkgpath.split("/", 3)[3] if pkgpath.count("/") >= 3 else "."
                    if m in ("x/go", "alamos/go", "arc/go", "freighter/go"):
                        rel = "./" + "/".join(pkgpath.split("/")[3:]) if pkgpath.count("/") >= 3 else "."
                    rc2, out2 = sh("go test -mod=mod -vet=off -count=1 %s 2>&1 | tail -5" % rel, cwd=os.path.join(wt, m), timeout=1500)
                    if not re.search(r"^ok\s", out2, re.M):
                        still.append(pkgpath)
                        out = out2
                failed = still
            # x/io/fs/testutil::TestTestutil is not in the stable baseline (depends on the shared OS temp dir)
            res["tests"][m] = {"pkgs": extra or pk, "wall_s": round(time.time() - t), "failed_pkgs": failed,
                               "non_ok_output": (out.strip()[-1500:] if failed else "")}
        res["confirmed"] = (rc0 == 0 and rc1 != 0 and all(not v["failed_pkgs"] for v in res["tests"].values()))
    finally:
        rmwt(wt)
    print(json.dumps(res, indent=1))
    with open(os.path.join(d, "confirm.json"), "w") as fh:
        json.dump(res, fh, indent=1)
    return 0 if res.get("confirmed") else 1


def check(d, pids):
    d = os.path.abspath(d)
    meta = load_meta(d)
    pids = pids or [meta.get("property")]
    wt = mkwt("chk_" + os.path.basename(os.path.dirname(d.rstrip("/"))) + "_" + os.path.basename(d.rstrip("/")))
    out_all = {}
    try:
        rc, out = sh("git apply %s" % os.path.join(d, "patch.diff"), cwd=wt)
        if rc != 0:
            print("patch does not apply:", out)
            return 2
        for pid in pids:
            t = time.time()
            rc, out = sh("./check %s --tier %s" % (pid, os.environ.get("SEED_TIER", "quick")), cwd=ROOT, env={"VERIF_REPO": wt}, timeout=7200)
            lines = [l for l in out.splitlines() if l.startswith(("VIOLATION", "KNOWN-FINDING", "[" + pid))]
            out_all[pid] = {"rc": rc, "wall_s": round(time.time() - t), "lines": lines[-6:]}
            print(pid, "rc=%d" % rc, "\n  " + "\n  ".join(lines[-6:]))
    finally:
        rmwt(wt)
    with open(os.path.join(d, "check_result.json"), "w") as fh:
        json.dump(out_all, fh, indent=1)
    return 0


def keep(d, name):
    dst = os.path.join(ROOT, "seeded", name)
    os.makedirs(dst, exist_ok=True)
    for n in os.listdir(d):
        if os.path.isfile(os.path.join(d, n)):
            shutil.copy(os.path.join(d, n), os.path.join(dst, n))
    print("kept", dst)


if __name__ == "__main__":
    a = sys.argv[1:]
    if a[0] == "confirm":
        sys.exit(confirm(a[1]))
    if a[0] == "check":
        sys.exit(check(a[1], a[2:]))
    if a[0] == "keep":
        keep(a[1], a[2])
