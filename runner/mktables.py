#!/usr/bin/env python3
"""Regenerate the machine-written tables of DESIGN.md (between <!-- BEGIN:x --> / <!-- END:x --> markers):
findings (from known_findings.json), seeded (from seeded/*/meta.json + check_result.json), status (from plug-ins + evidence)."""
import glob
import importlib
import json
import os
import re
import sys

ROOT = os.path.dirname(os.path.dirname(os.path.abspath(__file__)))
sys.path.insert(0, os.path.join(ROOT, "runner"))


def findings():
    d = json.load(open(os.path.join(ROOT, "known_findings.json")))
    rows = ["| id | property | status | commit / tag | what |", "|---|---|---|---|---|"]
    for f in d["findings"]:
        what = re.sub(r"^(fixed|known): property=\S+ ?(\S+ )?", "", f["what"]).replace("|", "\\|").replace("\n", " ")
        rows.append("| %s | %s | %s | %s | %s |" % (f["id"], f["property"], f["status"], f.get("commit") or ("`%s`" % f.get("tag")), what[:420]))
    return "\n".join(rows)


def seeded():
    rows = ["| seed | property | what it changes | needs to manifest | result of `./check` on the changed tree |", "|---|---|---|---|---|"]
    for d in sorted(glob.glob(os.path.join(ROOT, "seeded", "*"))):
        name = os.path.basename(d)
        meta = json.load(open(os.path.join(d, "meta.json"))) if os.path.exists(os.path.join(d, "meta.json")) else {}
        res = "not run yet"
        cr = os.path.join(d, "check_result.json")
        if os.path.exists(cr):
            r = json.load(open(cr))
            parts = []
            for pid, v in r.items():
                viol = [l for l in v["lines"] if l.startswith("VIOLATION")]
                nfi = [l for l in viol if "no-failing-input-found" in l]
                if not viol:
                    parts.append("%s: **missed** (exit %s)" % (pid, v["rc"]))
                elif len(nfi) == len(viol):
                    parts.append("%s: VIOLATION, no-failing-input-found (correspondence/proof broke)" % pid)
                else:
                    parts.append("%s: VIOLATION with a concrete failing input" % pid)
            res = "; ".join(parts)
        def cut(s, n):
            s = (s or "").replace("|", "\\|").replace("\n", " ")
            return s[:n] + ("…" if len(s) > n else "")
        rows.append("| %s | %s | %s | %s | %s |" % (name, meta.get("property", name.split("_")[0]), cut(meta.get("summary") or meta.get("what_it_breaks"), 260),
                                                cut(meta.get("needs_to_manifest"), 200), res))
    return "\n".join(rows)


def status():
    rows = ["| property | claimed | theorems (closed) | quick evaluations | distinct non-trivial | partial / not proved |", "|---|---|---|---|---|---|"]
    for l in open(os.path.join(ROOT, "properties.jsonl")):
        pid = json.loads(l)["id"]
        try:
            P = importlib.import_module("props." + pid)
        except Exception:
            rows.append("| %s | no | | | | |" % pid)
            continue
        ev = {}
        ep = os.path.join(ROOT, "evidence", pid + ".json")
        if os.path.exists(ep):
            ev = json.load(open(ep)).get("coverage", {})
        part = (getattr(P, "PARTIAL", None) or "").replace("|", "\\|").replace("\n", " ")
        rows.append("| %s | %s | %s/%s | %s | %s | %s |" % (pid, "yes" if getattr(P, "READY", False) else "no", ev.get("discharged", "-"), ev.get("obligations", "-"),
                                                    ev.get("evaluations", "-"), ev.get("distinct_nontrivial", "-"), part[:300]))
    return "\n".join(rows)


def main():
    p = os.path.join(ROOT, "DESIGN.md")
    s = open(p).read()
    for key, fn in (("findings", findings), ("seeded", seeded), ("status", status)):
        b, e = "<!-- BEGIN:%s -->" % key, "<!-- END:%s -->" % key
        if b in s and e in s:
            s = s[:s.index(b) + len(b)] + "\n" + fn() + "\n" + s[s.index(e):]
    open(p, "w").write(s)


if __name__ == "__main__":
    main()
