"""C10 — iterator steps return exactly the samples inside the reported view."""
import json
import os
import random
import re
import vlib
from vlib import coq_print
from props import cesgen
from props.cesgen import z, zl, c_tr, MAXTS

PID = "C10"
MODULE, PKG, BIN = "cesium", "./verifh/c10", "c10"
COQ_IMPORTS = ("From Synnax Require Import Common.Base Cesium.Store Cesium.IndexSearch Cesium.Distance Cesium.Stamp "
               "Cesium.UnaryIter Cesium.UnaryWrite Cesium.Read Monitors.Mon_C10.")
COQ_EXTRA = "Local Open Scope Z_scope."
CASE_TYPE = "case_t"
COUNTS = {"quick": 2500, "thorough": 20000}
SHARD = 70
OPS_KEY = "ops"
RULE = ("layouts written through the real cesium writer: 1-3 index channels x 0-3 data channels (int64/uint8/float32/"
        "string/json), 1-4 writer sessions at disjoint times (35% out of time order, contiguous writers, writer start "
        "0/1/5 ns before the first sample), frames of 1-8 samples, spacing {1,2,7,1000} ns, explicit or auto commit, "
        "file-size caps {default,40,64,100,200,1000} B forcing rollover, groups that do not write their index, zero-length "
        "samples on string/json channels (preferably last in a frame/domain), 40% iterated after Close+Open (offset tables "
        "rebuilt from the files), 10% "
        "with one illegal step; then 3-25 iterator commands (30% of the cases arm a one-shot read fault on the index channel's data "
        "files before one or two steps; every frame is kept by reference and re-examined after the last command) on one channel; 5% of the cases continue with a CONCURRENT phase: 4-8 goroutines, each running its own command sequence "
        "10-30 times on a fresh iterator over a channel of the same index group, 60% with a writer of that group committing 10-40 "
        "frames later than every bound (every outcome judged by the monitor; compared with the sequential model when no writer runs); "
        "30 (thorough 200) such cases run once more under the Go race detector; positions from sample stamps, +-1, writer "
        "starts, 0, MAX; spans {1,2,gap,gap+-1,domain length,whole range,MAX}; chunk {1,2,3,7,100}. Non-trivial = the "
        "iterated channel holds >=2 committed sessions or a rollover-size cap, and the sequence has both a forward and "
        "a backward step and at least one step returning data; distinct by hash.")
TRUSTED = ["hook cesium/export_verif_c10.go (VerifOpenUnaryIterator = uDB.OpenIterator as newStreamIterator does)",
           "harness package verifh/cesh: sample value <-> bytes bijection per data type (garbled bytes are reported as a value no "
           "stored sample has)"]
ASSUMES = ["time stamps and spans within [0, 2^63-1]; int64 wrap-around modelled only at ref+1 / End-1 of the domain iterator bounds",
           "one writer session open at a time (file acquisition is then deterministic)",
           "variable-length offset cache is transparent (rebuilt tables equal published ones)",
           "concurrency: only iterators (and one writer beyond their bounds) of one index group at a time; interleavings are "
           "whatever the scheduler produces within 10-30 rounds per goroutine, not enumerated"]
PARTIAL = ("C10_step_exact_partial / C10_full_traversal_partial carry the visible hypothesis layout_ok (ascending index stamps, sorted "
           "data domains, each data domain within a contiguous run of index domains with one sample per index stamp; decidable "
           "check layout_okb proved sound, satisfied by every generated layout — see layout_guard_sample); that legal histories "
           "only produce such layouts is observed, not proved. The per-series clause of the monitor: correspondence + monitor "
           "only (structural theorem C10_step_frame). Known finding F24 (C10-auto-prev-eof): backwardStamp makes Prev(AutoSpan) report EOF on a domain "
           "boundary; not fixed.")

CMDS = {"seek_first": "SeekFirst", "seek_last": "SeekLast", "next_auto": "NextAuto", "prev_auto": "PrevAuto"}


def c_cmd(o):
    c = o["c"]
    if c in CMDS:
        return CMDS[c]
    if c == "seek_le":
        return "SeekLE %s" % z(o["a"])
    if c == "seek_ge":
        return "SeekGE %s" % z(o["a"])
    if c == "next":
        return "Next %s" % z(o["a"])
    if c == "prev":
        return "Prev %s" % z(o["a"])
    return "SetBounds %s" % c_tr(o["a"], o["b"])


def c_obs(o):
    return "Obs %s %s %s %d [%s]" % ("true" if o["ok"] else "false", "true" if o["valid"] else "false",
                                    c_tr(o["view"][0], o["view"][1]), o["err"],
                                    ";".join(cesgen.c_series(s) for s in o["ser"]))


def gen_ops(rng, setup, key, bounds):
    pos, st = cesgen.positions(setup, key)
    gaps = sorted({b - a for a, b in zip(st, st[1:])}) or [1]
    whole = (st[-1] - st[0] + 1) if st else 10
    spans = {1, 2, MAXTS, whole, max(1, whole // 2)}
    for g in gaps[:6] + gaps[-2:]:
        spans.update([g, max(1, g - 1), g + 1])
    spans = sorted(spans)
    ops = []
    n = rng.randrange(3, 26)
    mode = rng.random()
    if mode < 0.2:
        # full traversal
        fwd = rng.random() < 0.6
        ops.append({"c": "seek_first" if fwd else "seek_last"})
        auto = rng.random() < 0.4
        sp = rng.choice(spans)
        for _ in range(n):
            if auto:
                ops.append({"c": "next_auto" if fwd else "prev_auto"})
            else:
                ops.append({"c": "next" if fwd else "prev", "a": sp if rng.random() < 0.7 else rng.choice(spans)})
        return ops
    p_auto = rng.choice([0.0, 0.0, 0.25, 0.6])
    direction = rng.random() < 0.5
    for _ in range(n):
        x = rng.random()
        if not ops or x < 0.18:
            y = rng.random()
            if y < 0.3:
                ops.append({"c": "seek_first"})
            elif y < 0.5:
                ops.append({"c": "seek_last"})
            elif y < 0.75:
                ops.append({"c": "seek_le", "a": rng.choice(pos)})
            else:
                ops.append({"c": "seek_ge", "a": rng.choice(pos)})
        elif x < 0.22:
            a, b = sorted([rng.choice(pos), rng.choice(pos)])
            ops.append({"c": "set_bounds", "a": a, "b": b})
        else:
            if rng.random() < 0.25:
                direction = not direction
            if rng.random() < p_auto:
                ops.append({"c": "next_auto" if direction else "prev_auto"})
            else:
                ops.append({"c": "next" if direction else "prev", "a": rng.choice(spans)})
    return ops


def avoid_known(ops, rng, spans=(1, 2, 7)):
    """The main stream stays outside the signature of the known finding C10-auto-prev-eof (a pure
    SeekLast; Prev(auto)... traversal): the first step after a SeekLast is never Prev(auto).
    Those traversals are exercised by the extra phase, which classifies every rejection."""
    out = []
    for o in ops:
        if o["c"] == "prev_auto" and out and out[-1]["c"] == "seek_last":
            out.append({"c": "prev", "a": rng.choice(spans)})
        out.append(o)
    return out


SEEKS = ("seek_first", "seek_last", "seek_le", "seek_ge")
STEPS = ("next", "prev", "next_auto", "prev_auto")


def add_faults(ops, rng, pos):
    """Arm a scripted ONE-SHOT read fault (the f-th ReadAt on the index channel's data files fails
    once) before one or two step commands. A step hit by the fault may fail; if it claims success
    it must still be exact. Errors are sticky, so a seek follows every faulted step."""
    cand = [i for i, o in enumerate(ops) if o["c"] in STEPS]
    if not cand:
        return ops
    chosen = set(rng.sample(cand, min(len(cand), rng.choice([1, 1, 2]))))
    out = []
    for i, o in enumerate(ops):
        if i in chosen:
            o = dict(o)
            o["f"] = rng.choice([1, 1, 1, 2, 3, 5])
            out.append(o)
            nxt = ops[i + 1]["c"] if i + 1 < len(ops) else None
            if nxt not in SEEKS:
                y = rng.random()
                out.append({"c": "seek_first"} if y < 0.3 else {"c": "seek_last"} if y < 0.45 else
                           {"c": rng.choice(["seek_le", "seek_ge"]), "a": rng.choice(pos)})
        else:
            out.append(o)
    return out


def gen_case(rng, tier, backward_auto=False):
    malformed = rng.random() < 0.1
    setup = cesgen.gen_setup(rng, malformed=malformed)
    if rng.random() < 0.4:
        # iterate a re-opened database: offset tables of variable-length channels are then
        # rebuilt by scanning the files instead of being the ones the writers published
        setup["script"].append({"op": "reopen"})
    keys = [c["key"] for c in setup["channels"]]
    written = {kv["k"] for o in setup["script"] if o["op"] == "write" for kv in o["frame"]}
    cand = [k for k in keys if k in written] or keys
    key = rng.choice(cand)
    pos, st = cesgen.positions(setup, key)
    x = rng.random()
    if x < 0.55:
        bounds = [0, MAXTS]
    else:
        a, b = sorted([rng.choice(pos), rng.choice(pos)])
        bounds = [a, b]
    chunk = rng.choice([1, 2, 2, 3, 7, 100])
    if backward_auto:
        ops = [{"c": "seek_last"}] + [{"c": "prev_auto"} for _ in range(rng.randrange(2, 14))]
    else:
        ops = gen_ops(rng, setup, key, bounds)
        if rng.random() < 0.3:
            ops = add_faults(ops, rng, pos)
        ops = avoid_known(ops, rng)
    case = {"setup": setup, "key": key, "bounds": bounds, "chunk": chunk, "ops": ops}
    if not backward_auto and not malformed and rng.random() < CONC_SHARE:
        add_conc(case, rng)
    return case


CONC_SHARE = 0.05


def add_conc(case, rng):
    """Concurrent phase after the sequential commands: 4-8 goroutines, each running its own
    command sequence `rounds` times on a fresh iterator over a channel of the iterated channel's
    index group (they share one index), while (60%) one writer of that group commits frames
    later than every stored sample and later than every worker's bounds. The content inside the
    bounds does not change, so every round must produce the sequential model's outcome."""
    setup = case["setup"]
    chans = {c["key"]: c for c in setup["channels"]}
    idx = chans[case["key"]]["index"] or case["key"]
    group = [k for k, c in chans.items() if k == idx or c["index"] == idx]
    written = {kv["k"] for o in setup["script"] if o["op"] == "write" for kv in o["frame"]}
    cand = [k for k in group if k in written] or [case["key"]]
    allst, starts = cesgen.sample_stamps(setup)
    top = max(list(allst) + list(starts) + [0])
    if top > MAXTS // 2:
        return
    wstart = top + rng.choice([1, 2, 10, 1000])
    writer = []
    if rng.random() < 0.6:
        data = [k for k in group if k != idx]
        writer.append({"op": "open", "keys": [idx] + data, "start": wstart, "auto": rng.random() < 0.3})
        vs = cesgen.ValueSrc(setup["channels"], rng)
        t = wstart
        for _ in range(rng.randrange(10, 40)):
            n = rng.randrange(1, 5)
            st = [t + i * rng.choice([1, 2]) for i in range(n)]
            st = sorted(set(st))
            t = st[-1] + 1
            fr = [{"k": idx, "v": st}] + [{"k": k, "v": vs.take(k, len(st))} for k in data]
            writer.append({"op": "write", "frame": fr})
            writer.append({"op": "commit"})
        writer.append({"op": "close"})
    workers = []
    for _ in range(rng.randrange(4, 9)):
        key = rng.choice(cand)
        pos, _ = cesgen.positions(setup, key)
        pos = [p for p in pos if p <= wstart]
        if rng.random() < 0.6:
            bounds = [0, wstart if writer else MAXTS]
        else:
            a, b = sorted([rng.choice(pos), rng.choice(pos)])
            bounds = [a, b]
        ops = gen_ops(rng, setup, key, bounds)
        if writer:
            ops = [o for o in ops if o["c"] != "set_bounds"]     # bounds stay below the writer's range
        ops = avoid_known(ops, rng)      # after the filter: it must see the final neighbours of every SeekLast
        if ops[0]["c"] not in SEEKS:
            ops.insert(0, {"c": rng.choice(["seek_first", "seek_last"])})
            ops = avoid_known(ops, rng)
        workers.append({"key": key, "bounds": bounds, "chunk": rng.choice([1, 2, 3, 7, 100]), "ops": ops})
    case["conc"] = {"workers": workers, "rounds": rng.choice([10, 20, 30]), "writer": writer}


def gen_cases(rng, tier, n):
    return [gen_case(rng, tier) for _ in range(n)]


def harness_violation(case, r):
    if r.get("panic"):
        return "panic in the real iterator/writer: " + r["panic"][:300]
    if r.get("fatal"):
        return "harness could not set the case up: " + r["fatal"][:300]
    for n, w in enumerate(r.get("conc") or []):
        if w.get("panic"):
            return "panic in the real iterator of concurrent worker %d: %s" % (n, w["panic"][:300])
        if w.get("fatal"):
            return "concurrent worker %d could not open its iterator: %s" % (n, w["fatal"][:300])
    return None


def c_late(outs):
    return ";".join("[%s]" % ";".join(cesgen.c_series(x) for x in (o["late"] if o.get("late") is not None else o["ser"]))
                    for o in outs)


def c_conc(case, r):
    """the distinct outcomes of every worker of the concurrent phase"""
    qs = []
    for w, wr in zip((case.get("conc") or {}).get("workers", []), r.get("conc") or []):
        for outs in wr["variants"]:
            qs.append("Conc %d %s %s [%s] [%s] [%s] %s" % (w["key"], c_tr(*w["bounds"]), z(w["chunk"]),
                      ";".join(c_cmd(o) for o in w["ops"]), ";".join(c_obs(o) for o in outs), c_late(outs),
                      "false" if case["conc"]["writer"] else "true"))
    return ";".join(qs)


def to_coq(case, r):
    s = case["setup"]
    return "Case %s %s %s %s %d %s %s [%s] [%s] [%s] [%s]" % (
        z(s["cap"]), cesgen.c_chans(s["channels"]), cesgen.c_script(s["script"]), cesgen.c_sres(r["script"]),
        case["key"], c_tr(*case["bounds"]), z(case["chunk"]),
        ";".join(c_cmd(o) for o in case["ops"]), ";".join(c_obs(o) for o in r["outs"]), c_late(r["outs"]),
        c_conc(case, r))


def nontrivial(case, r):
    s = case["setup"]
    sessions = 0
    for o, res in zip(s["script"], r["script"]):
        if o["op"] == "open" and case["key"] in o["keys"] and res["err"] == 0:
            sessions += 1
    multi = sessions >= 2 or s["cap"] in (40, 64, 100)
    cs = [o["c"] for o in case["ops"]]
    fwd = any(c in ("next", "next_auto") for c in cs)
    bwd = any(c in ("prev", "prev_auto") for c in cs)
    data = any(o["ser"] for o in r["outs"])
    return multi and fwd and bwd and data


def histogram(case, r):
    ks = ["cap=%d" % case["setup"]["cap"], "chunk=%d" % case["chunk"],
          "channels=%d" % len(case["setup"]["channels"])]
    for o in case["ops"]:
        ks.append("cmd=" + o["c"])
        if o.get("f"):
            ks.append("read_fault_armed")
    for res in r.get("script", []):
        if res["err"]:
            ks.append("script_err=%d" % res["err"])
    for o in r.get("outs", []):
        if o["err"]:
            ks.append("iter_err=%d" % o["err"])
        if o.get("fired"):
            ks.append("read_fault_fired")
        ks.append("series=%d" % min(len(o["ser"]), 3))
    dt = next(c["dt"] for c in case["setup"]["channels"] if c["key"] == case["key"])
    ks.append("dt=" + dt)
    if case.get("conc"):
        ks.append("concurrent_phase")
        ks.append("concurrent_workers=%d" % len(case["conc"]["workers"]))
        if case["conc"]["writer"]:
            ks.append("concurrent_writer")
        if any(x["err"] for x in r.get("writer") or []):
            ks.append("concurrent_writer_error")
        for w in r.get("conc") or []:
            ks.append("concurrent_outcomes_per_worker=%d" % len(w["variants"]))
    return ks


def neighbours(case, rng):
    out = []
    for i in range(len(case["ops"])):
        c = json.loads(json.dumps(case))
        del c["ops"][i]
        out.append(c)
        o = case["ops"][i]
        if "a" in o and o["c"] != "set_bounds":
            for d in (-1, 1):
                c = json.loads(json.dumps(case))
                c["ops"][i]["a"] = max(0, min(MAXTS, o["a"] + d))
                out.append(c)
    for ch in (1, 2, 3, 7):
        c = json.loads(json.dumps(case))
        c["chunk"] = ch
        out.append(c)
    return out


KNOWN_EOF = "C10-auto-prev-eof"


def diagnose(case, r):
    """[(command index, [clause codes])] from the Coq monitor (see Mon_C10.diagnose)"""
    out = coq_print(PID, COQ_IMPORTS, COQ_EXTRA + "\nEval vm_compute in diagnose (%s)." % to_coq(case, r))
    out = re.sub(r"\s+", " ", out)
    m = re.search(r"= (\[.*?\]) : list", out)
    if not m:
        return None
    return [(int(a), [int(x) for x in b.replace(" ", "").split(";") if x])
            for a, b in re.findall(r"\((\d+), \[([\d; ]*)\]\)", m.group(1))]


def _eof_signature(ops, outs, n, codes):
    """command n is a SeekLast rejected by the traversal clause (7) only, and the pure Prev(auto)
    run that follows it stops with the error of backwardStamp on a chunk boundary at the first
    sample of a domain: io.EOF (class 5) or 'failed to resolve position'"""
    if codes != [7] or n >= len(ops) or ops[n]["c"] != "seek_last":
        return False
    j = n + 1
    while j < len(ops) and j < len(outs) and ops[j]["c"] == "prev_auto":
        if outs[j]["err"] == 5 or (outs[j]["err"] == 1 and "failed to resolve position" in (outs[j].get("msg") or "")):
            return True
        if outs[j]["err"] != 0:
            return False
        j += 1
    return False


def tags(case, r):
    """Signature of the known finding C10-auto-prev-eof: EVERY rejected clause, of the sequential
    commands and of every outcome of the concurrent phase, is the traversal clause of a SeekLast
    followed by a pure Prev(auto) run ending in the backwardStamp error. Anything else is tagged
    with the clauses that are not explained by it."""
    if r is None or r.get("panic") or r.get("fatal") or not r.get("outs"):
        return set()
    d = diagnose(case, r)
    if not d:
        return set()
    variants = [(w["ops"], outs) for w, wr in zip((case.get("conc") or {}).get("workers", []), r.get("conc") or [])
                for outs in wr["variants"]]
    other_seq, other_conc = set(), set()
    for n, codes in d:
        if n >= 1000:
            v = n // 1000 - 1
            if not (v < len(variants) and _eof_signature(variants[v][0], variants[v][1], n % 1000, codes)):
                other_conc.update(codes)
        elif not _eof_signature(case["ops"], r["outs"], n, codes):
            other_seq.update(codes)
    if other_conc:
        return {"concurrent-clause-%s" % "-".join(map(str, sorted(other_conc)))}
    if other_seq:
        return {"clause-%s" % "-".join(map(str, sorted(other_seq)))}
    return {KNOWN_EOF}


def extra(ctx):
    """Pure backward automatic traversals (the signature of C10-auto-prev-eof): evaluated
    separately so that the known finding never masks a mismatch or a new rejection of the
    main stream; every mismatch here is reported, every rejection is classified by tags()."""
    import check
    n = max(40, COUNTS[ctx.tier] // 8)
    rng = random.Random(ctx.seed * 104729 + 7)
    cases = [gen_case(rng, ctx.tier, backward_auto=True) for _ in range(n)]
    res, M, V, hv, errs = ctx.evaluate(cases)
    ctx.extra_cov["backward_auto_traversals"] = len(cases)
    ctx.extra_cov["backward_auto_mismatches"] = len(M)
    ctx.extra_cov["backward_auto_rejections"] = len(V)
    if errs:
        rp = check.write_replay(ctx, "V2", "extra phase could not be evaluated", {}, None, {"errors": errs[:5]})
        ctx.violations.append({"kind": "V2", "what": "extra phase: %s" % errs[0][:200], "replay": rp, "found_input": False})
    for i, w in hv[:3]:
        check.report_case_violation(ctx, cases[i], res.get(i), w)
    seen = set()
    for i in V[:12]:
        tg = tuple(sorted(tags(cases[i], res.get(i))))
        if tg in seen:
            continue
        seen.add(tg)
        small = cases[i]
        if tg != (KNOWN_EOF,):
            small = check.shrink(ctx, cases[i])
            r2, _, V2, hv2, _ = ctx.evaluate([small])
            if V2 or hv2:
                check.report_case_violation(ctx, small, r2.get(0), "monitor ok_C10 rejects a backward automatic traversal")
                continue
        check.report_case_violation(ctx, cases[i], res.get(i), "monitor ok_C10 rejects a backward automatic traversal")
    guard_coverage(ctx)
    race_phase(ctx)
    onlyM = [i for i in M if i not in V]
    if onlyM:
        i = onlyM[0]
        rp = check.write_replay(ctx, "V2", "model and implementation disagree (backward automatic traversal)",
                                cases[i], res.get(i), {"correspondence": "corr:C10/extra#%d" % i,
                                                       "model": model_dump(cases[i], res.get(i))})
        ctx.violations.append({"kind": "V2", "what": "correspondence corr:C10 broke on %d backward traversals" % len(onlyM),
                               "replay": rp, "found_input": False})


RACE_CASES = {"quick": 30, "thorough": 200}


def race_phase(ctx):
    """the concurrent phase once more on a harness built with the Go race detector: iterators of
    one index group (and a committing writer) must not share unsynchronised state"""
    import check
    binp, blog = vlib.go_build(MODULE, PKG, BIN, race=True)
    if binp is None:
        ctx.notes.append("race-detector build of the harness failed; the concurrent phase ran without it: %s" % blog[-300:])
        return
    rng = random.Random(ctx.seed * 7919 + 11)
    cases = []
    while len(cases) < RACE_CASES[ctx.tier]:
        c = gen_case(rng, ctx.tier)
        if c.get("conc"):
            c["id"] = len(cases)
            cases.append(c)
    res = vlib.run_harness(binp, cases, timeout=600, procs=8, env={"GORACE": "halt_on_error=1"})
    races = [i for i in range(len(cases)) if "DATA RACE" in ((res.get(i) or {}).get("panic") or "")]
    ctx.extra_cov["race_detector_concurrent_cases"] = len(cases)
    ctx.extra_cov["race_detector_reports"] = len(races)
    for i in races[:1]:
        check.report_case_violation(ctx, cases[i], res.get(i),
                                    "the Go race detector reports a data race between concurrent iterators / a committing "
                                    "writer of one index group (concurrent phase of the case)")


def model_dump(case, r):
    t = to_coq(case, r)
    return coq_print(PID, COQ_IMPORTS, COQ_EXTRA + "\nEval vm_compute in model_dump (%s)." % t)[-8000:]


def guard_coverage(ctx, n=120):
    """share of generated layouts inside the decidable hypothesis (layout_okb) of the exactness
    theorems, evaluated by the model on a fresh sample of the main-stream generator"""
    rng = random.Random(ctx.seed * 15485863 + 3)
    cases = [gen_case(rng, ctx.tier) for _ in range(n)]
    terms = []
    for c in cases:
        s = c["setup"]
        terms.append("Case %s %s %s [] %d %s %s [] [] [] []" % (z(s["cap"]), cesgen.c_chans(s["channels"]),
                     cesgen.c_script(s["script"]), c["key"], c_tr(*c["bounds"]), z(c["chunk"])))
    out = coq_print(PID, COQ_IMPORTS, COQ_EXTRA + "\nEval vm_compute in map in_guard [%s]." % ";\n".join(terms), timeout=600)
    out = re.sub(r"\s+", " ", out)
    m = re.search(r"= (\[[a-z; ]*\]) : list bool", out)
    if m:
        vals = [x.strip() for x in m.group(1)[1:-1].split(";") if x.strip()]
        ctx.extra_cov["layout_guard_sample"] = "%d of %d generated layouts satisfy layout_okb" % (vals.count("true"), len(vals))
    else:
        ctx.notes.append("guard coverage could not be evaluated")


def consts(repo):
    """unary.AutoSpan and the default AutoChunkSize, read from the Go source on every run"""
    src = open(os.path.join(repo, "cesium/internal/unary/iterator.go")).read()
    m = re.search(r"const\s+AutoSpan\s+telem\.TimeSpan\s*=\s*(-?\d+)", src)
    d = re.search(r"DefaultIteratorConfig\s*=\s*IteratorConfig\{AutoChunkSize:\s*([0-9.e]+)\}", src)
    if not m or not d:
        raise ValueError("AutoSpan / DefaultIteratorConfig not found in unary/iterator.go")
    chunk = int(float(d.group(1)))
    return ("(* generated from cesium/internal/unary/iterator.go by runner/props/C10.py; do not edit *)\n"
            "From Coq Require Import ZArith.\nLocal Open Scope Z_scope.\n"
            "Definition go_auto_span : Z := %d.\nDefinition go_default_chunk : Z := %d.\n" % (int(m.group(1)), chunk))


SRC_SPECS = ["telem"]     # translator/specs/telem.json -> Generated/Src_Telem.v (regenerated on every run)
READY = True
TECHNIQUE = "Coq proof (binary-search specs, invariants over command lists) + model/impl correspondence by vm_compute"
DESIGN_REF = "DESIGN.md §8 C10"
LEVEL_TEXT = ("Machine-checked Coq theorems over an executable Gallina copy of index.Domain.search/Distance/Stamp, the domain index "
              "search and domain iterator, and unary.Iterator (SetBounds/Seek*/Next/Prev explicit and AutoSpan, accumulate/sliceDomain/"
              "pickSampleOffset/approximateStart/End/insert/satisfied): search_spec (binary search = Exactly i / Between (k-1) k); "
              "Distance inside an index domain yields the exact sample count under every exact/inexact flag combination; for EVERY layout "
              "satisfying the hypothesis layout_ok (decidable check proved sound), every bounds and EVERY command sequence each non-erroring command returns exactly "
              "the stored samples of its view (C10_step_exact_partial, by a structural theorem: the frame of a step is the in-order slices "
              "of all domains overlapping the view, wherever earlier commands left the domain iterator); for ALL layouts step views lie in "
              "the bounds and consecutive same-direction steps are adjacent (C10_views_adjacent_and_bounded); a forward and a backward full "
              "traversal visit every in-bounds sample exactly once (C10_full_traversal_partial, C10_full_traversal_backward_partial). The model is tied to /repo on every run by writing "
              "generated layouts through the real cesium writer, driving the real unary.Iterator and comparing ok/Valid/View/Error/series "
              "after every command inside Coq; a decidable monitor states the property on the implementation's observations.")
LEVEL_NOTE = ("Trusted: Coq kernel/vm_compute; hand-written model (tied by correspondence, not translation); harness + hook "
              "VerifOpenUnaryIterator; sample<->bytes codec of the harness; generator. Theorems closed under the global context. "
              "partial: exactness/traversal theorems carry the visible hypothesis layout_ok (decidable check proved sound, all generated "
              "layouts inside); that legal histories only produce such layouts is observed by the correspondence. Finding F1 (stepping relied on the stale domain-iterator position; "
              "AutoSpan chunk loops returned samples outside the view, panicked, or recursed without bound) was found by this check and "
              "repaired by fix commit e87d2c5 (C10_legacy_steps_refuted keeps witnesses); F24 (backwardStamp EOF) is a known finding "
              "exercised by a separate stream so that it never masks other rejections. Errors reported by a step exempt it from the "
              "exactness clause (the iterator documents itself as stopped until the next seek).")
