"""C04 — time-range deletes remove exactly the range; GC is invisible to readers."""
import json
import struct
from vlib import cZ, clist, cpair, cbool, coq_print

PID = "C04"
MODULE, PKG, BIN = "cesium", "./verifh/c04", "c04"
COQ_IMPORTS = ("From Synnax Require Import Common.Base Cesium.Store Cesium.DeleteModel Cesium.GCModel "
               "Monitors.Mon_C04.")
CASE_TYPE = "case_t"
COUNTS = {"quick": 250, "thorough": 2000}
SHARD = 20
MAXTS = 2 ** 63 - 1

DENS = {"ts": 8, "i64": 8, "u8": 1, "str": 0}
THRESHOLDS = [2.0 ** -20, 0.2, 0.5, 1.0]
CAPS = [210, 260, 400, 1200]


# ----------------------------------------------------------------------------- float32
def f32(x):
    return struct.unpack("f", struct.pack("f", x))[0]


def fsz_of_cap(cap):
    return (8 * cap + 5) // 10


def thr_bytes(cap, thr):
    """int64(GCThreshold * float32(FileSize)) in float32 arithmetic"""
    return int(f32(f32(thr) * f32(float(fsz_of_cap(cap)))))


# ----------------------------------------------------------------------------- generator
class Gen:
    """Builds one script. Time is cut into blocks of 1000 ns per index group; every block
    holds at most one 'run' of stamps written by full-group writes, so the generator knows
    which regions are certainly free (fresh blocks) and which may conflict (gap writes)."""

    def __init__(self, rng):
        self.rng = rng
        self.next_val = 1

    def vals(self, typ, n):
        out = []
        for _ in range(n):
            v = self.next_val
            self.next_val += 1
            if typ == "u8":
                v = v % 251
            elif typ == "str":
                v = v % 1000 if self.rng.random() < 0.7 else v % 10
            out.append(v)
        return out

    def case(self):
        if self.rng.random() < 0.15:
            return self.multifile_case()
        return self.plain_case()

    def multifile_case(self):
        """One index + int64 (+ optional) channels whose data spans 2-3 files (cap 210: a file takes
        five 40-byte frames), tombstones only in the first file(s), then GC right before a reopen."""
        rng = self.rng
        chans = [{"key": 1, "index": 1, "type": "ts"}, {"key": 2, "index": 1, "type": "i64"}]
        data = [2]
        if rng.random() < 0.5:
            chans.append({"key": 3, "index": 1, "type": rng.choice(["i64", "str", "u8"])})
            data.append(3)
        self.types = {c["key"]: c["type"] for c in chans}
        g = {"ix": 1, "data": data, "blocks": [], "nblock": 0, "desc": False}
        alphabet = {0, MAXTS}
        ops = []
        allch = [1] + data
        nw = rng.randrange(7, 13)
        for _ in range(nw):
            g["nblock"] += 1
            gap = rng.choice([2, 7, 10])
            first = 1000 * g["nblock"]
            start = first if rng.random() < 0.7 else first - rng.choice([1, 4])
            stamps = [first + i * gap for i in range(5)]
            g["blocks"].append({"stamps": stamps, "written": set(allch), "start": start})
            self.note_stamps(alphabet, stamps, start, stamps[-1] + 1)
            ops.append(self.mk_write(start, allch, stamps))
        # tombstones in the first file only: a range inside the first 2-4 blocks
        nb = rng.randrange(2, 5)
        b0 = g["blocks"][rng.randrange(0, 2)]
        b1 = g["blocks"][min(nb, 4)]
        a = rng.choice(b0["stamps"][:3]) + rng.choice([0, 0, 1])
        b = rng.choice(b1["stamps"]) + rng.choice([0, 0, -1])
        named = list(data) if rng.random() < 0.6 else [2]
        if rng.random() < 0.4:
            named = named + [1]
        ops.append({"op": "delete", "chans": named, "a": a, "b": b})
        alphabet.update((a, b))
        tail = rng.choice([["reopen", "gc", "reopen"], ["gc", "reopen"], ["reopen", "gc", "gc", "reopen"],
                           ["reopen", "gc", "reopen", "gc"]])
        ops += [{"op": t} for t in tail]
        groups = [g]
        deleted = []
        for _ in range(rng.randrange(0, 4)):
            x = rng.random()
            if x < 0.4:
                ops.append(self.gen_delete(groups, 0, alphabet, deleted))
            elif x < 0.6:
                op = self.gen_write(g, 0, alphabet, deleted, 0)
                if op:
                    ops.append(op)
            elif x < 0.8:
                ops.append({"op": "gc"})
            else:
                ops.append({"op": "reopen"})
        al = sorted(alphabet)
        ranges = [[0, MAXTS]]
        for _ in range(rng.randrange(4, 7)):
            x, y = rng.choice(al), rng.choice(al)
            ranges.append([min(x, y), max(x, y)])
        return {"cap": 210, "thr": rng.choice([0.2, 0.2, 0.5]), "channels": chans, "ops": ops, "ranges": ranges}

    def plain_case(self):
        rng = self.rng
        groups = []
        chans = []
        key = 1
        ngroups = 2 if rng.random() < 0.25 else 1
        for _ in range(ngroups):
            ix = key
            key += 1
            chans.append({"key": ix, "index": ix, "type": "ts"})
            data = []
            for _ in range(rng.choice([1, 1, 2, 2, 3])):
                t = rng.choice(["i64", "i64", "u8", "str", "str"])
                chans.append({"key": key, "index": ix, "type": t})
                data.append(key)
                key += 1
            groups.append({"ix": ix, "data": data, "blocks": [], "nblock": 0, "desc": rng.random() < 0.3})
        self.types = {c["key"]: c["type"] for c in chans}
        cap = rng.choice(CAPS)
        thr = rng.choice(THRESHOLDS)
        ops = []
        alphabet = {0, MAXTS}
        deleted = []   # (group index, a, b) of deletes naming every channel of a group
        nops = rng.randrange(6, 15)
        base_of_group = [0, 500000]
        if rng.random() < 0.3:
            # nested multi-domain deletes: the second delete starts in the sample-free tail of
            # the remainder left by the first and ends on (or just inside) a later domain
            ops += self.nested_scenario(groups[0], base_of_group[0], alphabet)
            nops = rng.randrange(2, 8)
        for step in range(nops):
            x = rng.random()
            gi = rng.randrange(len(groups))
            g = groups[gi]
            if step < 2 or x < 0.36:
                op = self.gen_write(g, base_of_group[gi], alphabet, deleted, gi)
                if op:
                    ops.append(op)
            elif x < 0.76:
                op = self.gen_delete(groups, gi, alphabet, deleted)
                ops.append(op)
            elif x < 0.90:
                ops.append({"op": "gc"})
            else:
                ops.append({"op": "reopen"})
        # a tail that makes GC effective: reopen closes the pooled handles
        if rng.random() < 0.75:
            ops.append({"op": "reopen"})
            ops.append({"op": "gc"})
            if rng.random() < 0.5:
                ops.append(self.gen_delete(groups, rng.randrange(len(groups)), alphabet, deleted))
                ops.append({"op": "gc"})
        al = sorted(alphabet)
        # read bounds around the delete bounds (between the last kept sample and the cut)
        hot = set()
        for o in ops:
            if o["op"] == "delete":
                for t in (o["a"], o["b"]):
                    hot.update(x for x in (t, t - 1, t + 1, t - 5, t + 5, t - 12) if 0 <= x <= MAXTS)
        hot = sorted(hot) or al
        ranges = [[0, MAXTS]]
        for _ in range(rng.randrange(5, 10)):
            x = rng.random()
            a = rng.choice(hot if x < 0.5 else al)
            b = rng.choice(hot if 0.25 < x < 0.75 else al)
            if a > b:
                a, b = b, a
            if rng.random() < 0.06:
                a, b = b, a        # inverted bounds
            ranges.append([a, b])
        return {"cap": cap, "thr": thr, "channels": chans, "ops": ops, "ranges": ranges}

    def nested_scenario(self, g, base, alphabet):
        rng = self.rng
        ops = []
        chs = [g["ix"]] + g["data"]
        nb = rng.choice([2, 3, 3, 4])
        blocks = []
        for _ in range(nb):
            gap = rng.choice([2, 7, 10])
            n = rng.randrange(3, 6)
            cont = blocks and rng.random() < 0.3
            if cont:
                start = blocks[-1]["stamps"][-1] + 1
                first = start if rng.random() < 0.5 else start + rng.choice([1, 3])
            else:
                g["nblock"] += 1
                first = base + 1000 * g["nblock"]
                start = first if rng.random() < 0.6 else first - rng.choice([1, 4, 20])
            stamps = [first + i * gap for i in range(n)]
            blk = {"stamps": stamps, "written": set(chs), "start": start}
            g["blocks"].append(blk)
            blocks.append(blk)
            self.note_stamps(alphabet, stamps, start, stamps[-1] + 1)
            ops.append(self.mk_write(start, chs, stamps))
        named = [k for k in g["data"] if rng.random() < 0.8] or [g["data"][0]]
        if rng.random() < 0.3:
            named = named + [g["ix"]]
            rng.shuffle(named)
        A = blocks[0]
        st = A["stamps"]
        i = rng.randrange(1, len(st))          # first deleted sample (exact bound: not snapped)
        j = rng.randrange(i, len(st) + 1)      # delete st[i..j)
        a1 = st[i]
        b1 = st[j] if j < len(st) else st[-1] + 1
        if j < len(st) and rng.random() < 0.3:
            b1 = st[j] - 1 if st[j] - 1 > a1 else st[j]
        ops.append({"op": "delete", "chans": list(named), "a": a1, "b": b1})
        if rng.random() < 0.3:
            ops.append({"op": rng.choice(["gc", "reopen"])})
        # second delete: from the tail (st[i-1], st[i]) of the remainder to a later domain
        a2 = rng.randrange(st[i - 1] + 1, st[i])
        C = rng.choice(blocks[1:])
        y = rng.random()
        if y < 0.6:
            b2 = C["start"]                     # exactly the start of a later domain
        elif y < 0.8:
            b2 = rng.randrange(C["start"], C["stamps"][0] + 1)   # up to its first sample
        else:
            b2 = rng.choice(C["stamps"] + [C["start"] - 1, C["stamps"][-1] + 1])
        ops.append({"op": "delete", "chans": list(named), "a": a2, "b": b2})
        alphabet.update((a1, b1, a2, b2))
        return ops

    def note_stamps(self, alphabet, stamps, start, end):
        for t in stamps:
            alphabet.update((t, t - 1, t + 1))
        for a, b in zip(stamps, stamps[1:]):
            alphabet.add((a + b) // 2)
        alphabet.update((start, end, max(start - 1, 0), end + 1))

    def gen_write(self, g, base, alphabet, deleted, gi):
        rng = self.rng
        x = rng.random()
        n = rng.randrange(1, 6)
        gap = rng.choice([1, 2, 7, 10, 10])
        # W3: write into a region deleted from every channel of the group
        mine = [d for d in deleted if d[0] == gi and d[2] - d[1] >= 2]
        if x < 0.15 and mine:
            _, a, b = rng.choice(mine)
            b = min(b, a + 400)
            first = rng.randrange(a, b)
            stamps = []
            t = first
            while len(stamps) < n and t < b:
                stamps.append(t)
                t += gap
            start = first if rng.random() < 0.6 else rng.randrange(a, first + 1)
            chs = [g["ix"]] + [k for k in g["data"] if rng.random() < 0.8]
            self.note_stamps(alphabet, stamps, start, stamps[-1] + 1)
            return self.mk_write(start, chs, stamps)
        # W2: data-only write over stamps of an existing block
        cands = [(b, k) for b in g["blocks"] for k in g["data"] if k not in b["written"]]
        if x < 0.35 and cands:
            b, _ = rng.choice(cands)
            ks = [k for k in g["data"] if k not in b["written"] and rng.random() < 0.7]
            if ks:
                i = rng.randrange(len(b["stamps"]))
                m = rng.randrange(1, len(b["stamps"]) - i + 1)
                if rng.random() < 0.1:
                    m += 1            # one sample too many: Stamp is discontinuous
                for k in ks:
                    b["written"].add(k)
                return self.mk_write(b["stamps"][i], ks, None, m)
        # W1: full-group write; fresh block, or the continuation of the last run
        cont = g["blocks"] and rng.random() < 0.35
        if cont:
            last = g["blocks"][-1]
            end = last["stamps"][-1] + 1
            start = end
            first = start if rng.random() < 0.5 else start + rng.choice([1, 3, 9])
        else:
            g["nblock"] += 1
            # descending mode: later writes go to earlier times, so files are not in time order
            nb = (40 - g["nblock"]) if g.get("desc") else g["nblock"]
            first = base + 1000 * nb + rng.choice([0, 0, 5])
            start = first if rng.random() < 0.65 else first - rng.choice([1, 4, 20])
        stamps = [first + i * gap for i in range(n)]
        chs = [g["ix"]] + [k for k in g["data"] if rng.random() < 0.75]
        blk = {"stamps": stamps, "written": set(chs), "start": start}
        g["blocks"].append(blk)
        self.note_stamps(alphabet, stamps, start, stamps[-1] + 1)
        return self.mk_write(start, chs, stamps)

    def mk_write(self, start, chs, stamps, n=None):
        n = len(stamps) if stamps is not None else n
        vals = {}
        for k in chs:
            if self.types[k] != "ts":
                vals[str(k)] = self.vals(self.types[k], n)
        return {"op": "write", "start": start, "chans": chs, "stamps": stamps or [], "vals": vals}

    def gen_delete(self, groups, gi, alphabet, deleted):
        rng = self.rng
        g = groups[gi]
        al = sorted(alphabet)
        x = rng.random()
        if g["blocks"] and x < 0.75:
            # bounds near one or two runs of the group
            b1 = rng.choice(g["blocks"])
            b2 = rng.choice(g["blocks"]) if rng.random() < 0.3 else b1
            pool = set()
            for b in (b1, b2):
                st = b["stamps"]
                for t in st:
                    pool.update((t, t - 1, t + 1))
                for p, q in zip(st, st[1:]):
                    pool.add((p + q) // 2)
                pool.update((st[0] - 20, st[0] - 4, st[-1] + 1, st[-1] + 2, st[-1] + 30))
            pool = sorted(t for t in pool if t >= 0)
            a, b = rng.choice(pool), rng.choice(pool)
        else:
            a, b = rng.choice(al), rng.choice(al)
        if a > b and rng.random() < 0.9:
            a, b = b, a
        y = rng.random()
        allch = [g["ix"]] + g["data"]
        if y < 0.45:
            chs = [k for k in g["data"] if rng.random() < 0.6] or [rng.choice(g["data"])]
        elif y < 0.72:
            chs = list(allch)
            rng.shuffle(chs)
            if a < b:
                deleted.append((gi, a, b))
        elif y < 0.88:
            chs = [g["ix"]] + [k for k in g["data"] if rng.random() < 0.3]
        elif y < 0.95 and len(groups) > 1:
            o = groups[1 - gi]
            chs = [rng.choice(allch), rng.choice([o["ix"]] + o["data"])]
        else:
            chs = [rng.choice(allch), 99]     # unknown channel
        alphabet.update((a, b))
        return {"op": "delete", "chans": chs, "a": a, "b": b}


def gen_cases(rng, tier, n):
    g = Gen(rng)
    return [g.case() for _ in range(n)]


# ----------------------------------------------------------------------------- Coq terms
def sample_len(typ, v):
    if typ == "str":
        return 4 + len(str(v))
    return DENS[typ]


def c_samples(typ, vals):
    return clist(["Smp %s %s" % (cZ(v), cZ(sample_len(typ, v))) for v in vals])


def chan_obs(out, key):
    for c in out["chans"]:
        if c["key"] == key:
            return c
    return None


def file_key_for(prev, cur, key, start):
    """the file the implementation appended to: the one that grew (or appeared)"""
    before = {f[0]: f[1] for f in (chan_obs(prev, key)["files"] if prev else [])}
    for f in chan_obs(cur, key)["files"]:
        if f[0] > 0 and f[1] > before.get(f[0], 0):
            return f[0]
    for p in chan_obs(cur, key)["ptrs"]:
        if p[0] == start:
            return p[2]
    return 0


def c_op(case, o, prev, cur):
    types = {c["key"]: c["type"] for c in case["channels"]}
    if o["op"] == "write":
        parts = []
        for k in o["chans"]:
            typ = types[k]
            vals = o["stamps"] if typ == "ts" else o["vals"][str(k)]
            fk = file_key_for(prev, cur, k, o["start"])
            parts.append(cpair(cZ(k), cZ(fk), c_samples(typ, vals)))
        return "OWrite %s %s" % (cZ(o["start"]), clist(parts))
    if o["op"] == "delete":
        return "ODelete %s %s %s" % (clist([cZ(k) for k in o["chans"]]), cZ(o["a"]), cZ(o["b"]))
    if o["op"] == "gc":
        return "OGC"
    return "OReopen"


def err_class(e):
    if not e:
        return 0
    return 1 if "cannot delete index channel" in e else 2


def c_obs(out):
    chans = []
    for c in out["chans"]:
        ptrs = clist([cpair(*[cZ(x) for x in p]) for p in c["ptrs"]])
        files = clist([cpair(cZ(f[0]), cZ(f[1])) for f in c["files"]])
        reads = clist([clist([cpair(cZ(s[0]), cZ(s[1]), clist([cZ(v) for v in s[2:]])) for s in r])
                       for r in c["reads"]])
        chans.append(cpair(cZ(c["key"]), ptrs, files, reads))
    return cpair(cZ(err_class(out["err"])), cZ(out["size"]), clist(chans))


def to_coq(case, r):
    chdecl = clist([cpair(cZ(c["key"]), cZ(c["index"]), cbool(c["type"] == "ts"),
                          cbool(c["type"] == "str"), cZ(DENS[c["type"]])) for c in case["channels"]])
    steps = []
    prev = None
    for o, out in zip(case["ops"], r["outs"]):
        steps.append(cpair(c_op(case, o, prev, out), c_obs(out)))
        prev = out
    ranges = clist([cpair(cZ(a), cZ(b)) for a, b in case["ranges"]])
    return cpair(cZ(case["cap"]), cZ(thr_bytes(case["cap"], case["thr"])), chdecl, ranges, clist(steps))


def harness_violation(case, r):
    if r.get("panic"):
        return "panic: " + r["panic"]
    if r.get("fatal"):
        return "harness could not run the script: " + r["fatal"]
    if len(r.get("outs", [])) != len(case["ops"]):
        return "script stopped early"
    if r.get("thr_bytes") != thr_bytes(case["cap"], case["thr"]):
        return "float32 threshold emulation disagrees with Go: %s vs %s" % (
            r.get("thr_bytes"), thr_bytes(case["cap"], case["thr"]))
    for out in r["outs"]:
        for c in out["chans"]:
            if any(e for e in c["rerr"]):
                return "read returned an error: %s" % [e for e in c["rerr"] if e][0]
            if any(f[0] < 0 for f in c["files"]):
                return "GC left a temporary file behind"
    return None


# ----------------------------------------------------------------------------- coverage
def split_and_rewrite(case, r):
    split = rewrote = False
    prev = None
    for o, out in zip(case["ops"], r["outs"]):
        if prev is not None:
            for c in out["chans"]:
                p = chan_obs(prev, c["key"])
                if o["op"] == "delete" and not out["err"]:
                    starts_before = {q[0] for q in p["ptrs"]}
                    ends_before = {q[1] for q in p["ptrs"]}
                    for q in c["ptrs"]:
                        # a pointer that is a strict part of an old one
                        for old in p["ptrs"]:
                            if old[0] <= q[0] and q[1] <= old[1] and (q[0], q[1]) != (old[0], old[1]) \
                                    and q[4] < old[4]:
                                split = True
                if o["op"] == "gc":
                    fb = {f[0]: f[1] for f in p["files"]}
                    for f in c["files"]:
                        if f[0] in fb and f[1] < fb[f[0]]:
                            rewrote = True
        prev = out
    return split, rewrote


def nontrivial(case, r):
    s, w = split_and_rewrite(case, r)
    return s and w


def histogram(case, r):
    ks = ["channels=%d" % len(case["channels"]), "cap=%d" % case["cap"], "thr=%g" % case["thr"]]
    s, w = split_and_rewrite(case, r)
    if s:
        ks.append("delete_split_a_domain")
    if w:
        ks.append("gc_rewrote_a_file")
    if any(len([f for f in c["files"] if f[0] > 0]) >= 2 for out in r.get("outs", []) for c in out["chans"]):
        ks.append("channel_spans_several_files")
    for (o1, o2) in zip(case["ops"], case["ops"][1:]):
        if o1["op"] == "gc" and o2["op"] == "reopen":
            ks.append("gc_then_reopen")
            break
    types = {c["key"]: c["type"] for c in case["channels"]}
    for o, out in zip(case["ops"], r.get("outs", [])):
        ks.append("op=" + o["op"])
        if o["op"] == "delete":
            ks.append("delete_%s" % ("failed" if out["err"] else "ok"))
            if o["a"] > o["b"]:
                ks.append("delete_inverted")
            if o["a"] == o["b"]:
                ks.append("delete_empty")
            if any(types.get(k) == "ts" for k in o["chans"]):
                ks.append("delete_names_index")
            if any(types.get(k) == "str" for k in o["chans"]):
                ks.append("delete_names_variable")
        if o["op"] == "write" and out["err"]:
            ks.append("write_failed")
    return ks


def tags(case, r):
    return set()


def neighbours(case, rng):
    out = []
    for i, o in enumerate(case["ops"]):
        c = json.loads(json.dumps(case))
        del c["ops"][i]
        out.append(c)
        if o["op"] == "delete":
            for da, db in ((1, 0), (-1, 0), (0, 1), (0, -1)):
                c = json.loads(json.dumps(case))
                c["ops"][i]["a"] = max(0, o["a"] + da)
                c["ops"][i]["b"] = max(0, o["b"] + db)
                out.append(c)
            c = json.loads(json.dumps(case))
            c["ops"].insert(i + 1, {"op": "gc"})
            out.append(c)
    return out[:60]


def model_dump(case, r):
    t = to_coq(case, r)
    return coq_print(PID, COQ_IMPORTS, "Eval vm_compute in model_dump (%s)." % t)[-8000:]


RULE = ("scripts of 6-18 operations over 1-2 index groups (index channel + 1-3 data channels of types int64, uint8, "
        "string/variable): writes (fresh blocks, contiguous continuations, starts before the first sample, data-only "
        "writes over existing index stamps, writes into deleted regions), 15% of the scripts are multi-file layouts (7-12 frames at cap 210 B so a channel spans 2-3 files, tombstones in the first file only, then GC directly followed by reopen); 30% of the other scripts open with a nested multi-domain delete pair (a second delete starting in the sample-free tail of the remainder of the first and ending on the start of a later domain), DeleteTimeRange over data-only / whole-group / "
        "index-only / cross-group / unknown-channel sets with bounds from {sample stamps, +-1, mid-gap, domain edges, 0, "
        "MAX, inverted, empty}, GC at thresholds {2^-20, 0.2, 0.5, 1} and file caps {210..1200} B, reopen; after every "
        "operation every channel is read over [0,MAX) and 5-9 ranges drawn from the same alphabet and from the neighbourhood of the delete bounds. Non-trivial = a script with "
        ">=1 delete that splits a domain and >=1 GC that rewrote a file; distinct by hash.")
TRUSTED = ["hook cesium/export_verif_c04.go (VerifGC = the private garbageCollect pass, synchronous)",
           "harness drives the public cesium API on an in-memory FS and decodes the persisted index.domain records",
           "Distance/Stamp/index-search/domain-iterator MODELS of Cesium/{Store,IndexSearch,Distance,Stamp}.v (C10/C01) are "
           "imported; their specifications used here (isearch_spec, usearch_point, distance_ok, stamp_ok) are proved in "
           "Cesium/DeleteSearch.v and DeleteDistance.v",
           "float32 GC threshold int64(thr*float32(FileSize)) is computed by the runner and cross-checked against Go on every case"]
ASSUMES = ["sequential histories (no writer/iterator open during Delete/GC); files < 4 GiB (uint32 casts do not wrap)",
           "the file a writer acquires is taken from the implementation (Go map order); no file rollover inside a commit",
           "index stamps strictly increasing within a domain; stamps in [0, 2^63-1)",
           "theorems hold for states satisfying db_ok/db_cov/wf_db; the decidable checks db_okb and db_covb (proved sound) are "
           "evaluated on every model state of every generated history, writes included"]
PARTIAL = ("proved for every history state satisfying the invariant (db_ok) and the index coverage (db_cov): delete exactness for "
           "any channel set and bounds when the call returns no error, read exactness with no success hypothesis, invariant and "
           "coverage kept by GC/reopen/data-channel deletes, invariant kept by index-channel deletes. Not proved, observed on "
           "every run instead: (a) that a well-formed DeleteTimeRange returns no error (success of its Stamp look-ups) - the "
           "monitor flags any failure other than the guard or a malformed request; (b) coverage after an index-channel delete and "
           "(c) invariant + coverage after writes - both validated by the sound checks db_okb/db_covb on every model state of "
           "every generated history")
SRC_SPECS = ["telem"]     # translator/specs/telem.json -> Generated/Src_Telem.v (regenerated on every run)
READY = True
TECHNIQUE = ("Coq proof (storage invariant + alignment with the index; binary-search, Distance/Stamp specifications; "
             "refinement of pointer surgery to filtered (stamp, sample) lists; GC view preservation) + model/impl "
             "correspondence by vm_compute on persisted pointers, file sizes and reads")
DESIGN_REF = "DESIGN.md §8 C04"
LEVEL_TEXT = ("Machine-checked Coq theorems over an executable Gallina copy of unary/delete.go (calculateStart/EndOffset, all "
              "approximation cases), domain/delete.go (Delete, validateDelete, GarbageCollect, garbageCollectFile, "
              "resolvePointerOffset), cesium/delete.go (DeleteTimeRange, index guard), HasDataFor and the DB.Read path, on top "
              "of the imported Distance/Stamp models: delete offsets snap to sample boundaries in every case "
              "(C04_start/end_offset_snaps); domain.Delete removes exactly the samples stamped in [a,b) for arbitrary bounds and "
              "restores the invariant, so it composes over repeated/nested deletes (C04_delete_exact_one_channel, C04_delete_exact, "
              "C04_reads_after_delete); reads return exactly the stored content of the range (C04_read_is_content); unnamed "
              "channels untouched in every outcome; index delete refused iff a dependant has data, in particular when it has a "
              "sample in range; GC at any threshold and reopen change no read and keep the invariant, with the delta-map lookup "
              "proved independent of Go map order. The model is tied to /repo on every run: the real cesium DB is driven through "
              "write/delete/GC/reopen scripts and persisted pointers, file sizes, DB size, error class and reads of 6-10 ranges "
              "per channel after every operation are compared exactly inside Coq; the decidable monitor states the property on "
              "the implementation's reads and produced the replays of five defects (F30-F34), fixed in /repo.")
LEVEL_NOTE = ("partial: see PARTIAL. Trusted: Coq kernel/vm_compute; hand-written model (tied by correspondence, not translation); "
              "imported Distance/Stamp models; harness + VerifGC hook; generator. All theorems closed under the global context. "
              "C04_pinned_*_refuted keep the witnesses of F30-F34 for the pinned code (fx=false).")
