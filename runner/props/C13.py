"""C13 — key-value observers see each applied change once, never a stale one."""
import json
import random
import re
from vlib import cN, clist, cbool, coq_print
import vlib
from props import C06 as K

PID = "C13"
MODULE, PKG, BIN = "aspen", "./verifh/c13", "c13"
COQ_IMPORTS = "From Synnax Require Import Common.Base Aspen.KV Monitors.Mon_C06 Monitors.Mon_C13."
CASE_TYPE = "Mon_C13.case_t"
COUNTS = {"quick": 420, "thorough": 14000}
EXTRA_COUNTS = {"quick": 40, "thorough": 1500}
SHARD = 60
PROCS = 8
HARNESS_TIMEOUT = 900
COQ_EXTRA = ("Definition mismatches := Mon_C13.mismatches.\nDefinition violations := Mon_C13.violations.\n")

RULE = ("the delivery scripts of C06's proved space (coherent operation sets injected in different orders/batchings/"
        "duplications; one-creator cluster life with lease forwarding, rounds with early/late replies, late/duplicated/"
        "lost payloads, feedback, restart followed by back-to-back recovery; overwrite-vs-feedback races) over 2-3 real "
        "kv.DB nodes, with 1-3 subscribers per node registered through DB.OnChange / NewObservable("
        "IgnoreHostLeaseholder).OnChange before the traffic, in the middle of it and after restarts; every subscriber's "
        "callbacks are collected after every step (FIFO marker barrier through splitter, relay and the async observer, "
        "no sleeps). 30% of the scripts add storage faults (the wrapped engine refuses to commit the next ingress "
        "transaction that wrote something; the same delivery usually follows again: nothing may be handed for the failed "
        "one, exactly once for the redelivery). In 40% of the scripts a share of the DB.Set/Delete calls run under a "
        "per-call context cancelled right after the call returned (must have no effect on what is handed later). 14% of the scripts stall one subscriber (its handler blocks, 66-90 forwarded requests overflow its "
        "64-slot buffer) next to subscribers that keep up and continue with 4-7 accepted batches on that node: the others "
        "must still be handed every change. Extra phase: two creators of one key (the known lease-path finding) where the only allowed code is "
        "'same (key, version, leaseholder) handed twice'. Non-trivial = some subscriber was handed >= 2 batches, a "
        "redelivery was rejected while it was registered, a filtered and an unfiltered subscriber of one node differ, "
        "and some subscriber joined after the first change; distinct by hash.")
TRUSTED = K.TRUSTED + ["subscriber callbacks are recorded by the harness from the xkv.TxReader they receive (key, variant, "
                       "value); versions are not visible to a subscriber, the monitor attaches them from the delivered "
                       "operations"]
ASSUMES = K.ASSUMES + ["a subscriber keeps up: neither the 500-slot relay of the persist splitter nor the 64-slot channel of "
                       "the async observer overflows (the harness drains after every step; the drop paths are not modelled)",
                       "recovery runs inside kv.Open, before a subscriber can exist: scripts only recover on a node that "
                       "has no subscriber"]

CODE_TAG = {4: "C13:notified_twice_after_leasepath_regress"}
ALLOWED = {"G13": {4}}


# --------------------------------------------------------------------------- generator
def add_subs(rng, c, stall=False, unsub=False):
    nodes = c["nodes"]
    ops = []
    subs = {n: set() for n in nodes}
    nxt = {n: 0 for n in nodes}

    def sub(n, filt=None):
        s = nxt[n]
        nxt[n] += 1
        subs[n].add(s)
        return {"op": "sub", "n": n, "s": s, "filter": (rng.random() < 0.45) if filt is None else filt}

    # before the traffic
    for n in nodes:
        if rng.random() < 0.75:
            ops.append(sub(n, filt=False if rng.random() < 0.6 else True))
        if rng.random() < 0.5:
            ops.append(sub(n, filt=True))
    for o in c["ops"]:
        if o["op"] in ("recover", "recbegin", "recend"):
            if subs.get(o["n"]):
                continue                      # recovery only on a node without subscribers
        ops.append(o)
        if o["op"] == "fail":
            continue                          # stays glued to the ingesting op that follows
        if o.get("ctrfail") and o["n"] in subs:
            subs[o["n"]] = set()                 # the step reopens the leaseholder's kv layer
            if rng.random() < 0.7:
                ops.append(sub(o["n"]))
            continue
        if o["op"] == "restart" and o["n"] in subs:
            subs[o["n"]] = set()
            if rng.random() < 0.5:
                p = rng.choice([m for m in nodes if m != o["n"]])
                ops.append({"op": "recover", "n": o["n"], "p": p})
            if rng.random() < 0.8:
                ops.append(sub(o["n"]))
        elif rng.random() < 0.12:
            ops.append(sub(rng.choice(nodes)))
        elif rng.random() < 0.03:
            ops.append({"op": "sub", "n": rng.choice(nodes), "s": 0, "filter": True})   # duplicate id: ignored
    if stall and any(subs.values()):
        # one subscriber stops keeping up (its handler blocks, > 64 forwarded requests pile up for it)
        # next to subscribers that keep up; traffic goes on: the others must still be handed everything
        n = rng.choice([m for m in nodes if subs[m]])
        victim = sub(n)
        pos = rng.randrange(0, len(ops) + 1)
        if pos > 0 and ops[pos - 1]["op"] == "fail":
            pos -= 1
        tail = ops[pos:]
        if any(o["op"] == "restart" and o.get("n") == n for o in tail):
            tail = [o for o in tail if not (o["op"] == "restart" and o.get("n") == n)]
        ops = ops[:pos] + [victim, {"op": "stall", "n": n, "s": victim["s"], "count": rng.choice([66, 70, 90])}] + tail
        other = rng.choice([m for m in nodes if m != n] + [9])
        for i in range(rng.randrange(4, 8)):
            ops.append({"op": "inject", "n": n, "sender": other,
                        "batch": [{"k": rng.choice(K.XKEYS), "ver": 100 + i, "lh": 7, "del": rng.random() < 0.2, "v": rng.randrange(1, 90)}]})
            if rng.random() < 0.3:
                ops.append(sub(n))
        for b in ops:
            if b["op"] == "inject":
                for it in b["batch"]:
                    if it["del"]:
                        it["v"] = 0
    if unsub:
        # a subscriber is disconnected while its handler is mid-callback; > 600 forwarded requests go
        # by while the disconnect is pending; changes keep arriving; the others must be handed all
        n = rng.choice(nodes)
        victim = sub(n, filt=False)
        fast = [sub(n, filt=False)] + ([sub(n, filt=True)] if rng.random() < 0.5 else [])
        other = rng.choice([m for m in nodes if m != n] + [9])

        def inj(i):
            d = rng.random() < 0.2
            return {"op": "inject", "n": n, "sender": other,
                    "batch": [{"k": rng.choice(K.XKEYS), "ver": 200 + i, "lh": 7, "del": d, "v": 0 if d else rng.randrange(1, 90)}]}
        ops += [victim] + fast + [inj(0), {"op": "unsub_begin", "n": n, "s": victim["s"], "count": rng.choice([700, 760])}]
        ops += [inj(i) for i in range(1, rng.randrange(4, 7))]
        ops += [{"op": "unsub_end", "n": n, "s": victim["s"]}, inj(9), inj(10)]
    c = dict(c)
    c["ops"] = ops
    return c


def gen_case(rng):
    x = rng.random()
    if x < 0.30:
        c = K.gen_A(rng)
        # injected operations led by a cluster node would be forged; use the host as sender instead
    elif x < 0.60:
        c = K.gen_B(rng)
        if rng.random() < 0.3:
            c["ops"].insert(rng.randrange(0, len(c["ops"]) + 1), {"op": "restart", "n": rng.choice(c["nodes"])})
    elif x < 0.75:
        c = K.gen_B(rng, quiesce=True)
    elif x < 0.90:
        c = K.gen_E(rng)
    else:
        c = K.gen_D(rng)
    fam = c["fam"]
    c = K.add_ctrfaults(rng, c, p=0.25)
    c = K.add_faults(rng, c, p=0.3)
    c = K.add_cancels(rng, c, p=0.4)
    c = add_subs(rng, c, stall=rng.random() < 0.14, unsub=rng.random() < 0.025)
    c["fam"] = fam
    return c


def gen_cases(rng, tier, n):
    return [gen_case(rng) for _ in range(n)]


def _w(n, k, v, lease=0):
    return {"op": "write", "n": n, "k": k, "v": v, "lease": lease}


def _r(i, j, late=False):
    return {"op": "round", "i": i, "j": j, "late": late}


WITNESSES = [
    ("handed_twice_after_leasepath_regress", 4, {"nodes": [1, 2, 3], "T": 2, "fam": "G13", "ops": [
        {"op": "sub", "n": 3, "s": 0, "filter": False},
        _w(2, 2, 55), _w(2, 2, 85), _w(2, 1, 23), _w(3, 1, 44), _r(3, 1), _r(2, 3), _w(1, 1, 69), _r(2, 3)]}),
]


def gen_extra(rng, n):
    out = []
    for _ in range(n):
        c = K.gen_G(rng)
        if rng.random() < 0.7:
            a, b = rng.sample(c["nodes"], 2)
            c["ops"].append(_r(a, b))
            c["ops"].append(_r(b, a))
        c = add_subs(rng, c)
        c["fam"] = "G13"
        out.append(c)
    return out


# --------------------------------------------------------------------------- Coq terms
def c_chg(x):
    return "(%s, %s, %s)" % (cN(x[0]), cbool(x[1]), cN(x[2] if x[2] >= 0 else K.BIG))


def c_subs(d):
    out = []
    for s in d.get("subs") or []:
        out.append("RSub %s %s %s" % (cN(s["n"]), cN(s["s"]), clist([clist([c_chg(x) for x in b]) for b in s["b"]])))
    return clist(out)


fixup = K.fixup


def to_coq(case, r):
    steps = ["(%s, %s, %s)" % (st, K.c_obs(d), c_subs(d)) for st, d in K.paired_steps(case, r)]
    return "Case13 %s %s %s" % (clist([cN(n) for n in case["nodes"]]), cN(K.eff_T(case)), clist(steps))


harness_violation = K.harness_violation


# --------------------------------------------------------------------------- coverage
def nontrivial(case, r):
    outs = r.get("outs") or []
    if not outs:
        return False
    total = {}
    filt = {}
    first_change = None
    joined_late = False
    for i, (o, d) in enumerate(zip(case["ops"], outs)):
        if o["op"] == "sub":
            filt.setdefault((o["n"], o["s"]), o.get("filter", False))
            if first_change is not None:
                joined_late = True
        for s in d.get("subs") or []:
            if s["b"]:
                total[(s["n"], s["s"])] = total.get((s["n"], s["s"]), 0) + len(s["b"])
                if first_change is None:
                    first_change = i
    many = any(v >= 2 for v in total.values())
    rejected = any(d["fbs"] for d in outs)
    differ = False
    for (n, s), f in filt.items():
        for (n2, s2), f2 in filt.items():
            if n == n2 and f != f2 and total.get((n, s), 0) != total.get((n2, s2), 0):
                differ = True
    return many and rejected and differ and joined_late


def histogram(case, r):
    ks = K.histogram(case, r)
    if r.get("missed"):
        ks.append("keeping_up_subscriber_missed_a_marker")
    ks.append("subscribers=%d" % sum(1 for o in case["ops"] if o["op"] == "sub"))
    ks.append("filtered_subscribers=%d" % sum(1 for o in case["ops"] if o["op"] == "sub" and o.get("filter")))
    outs = r.get("outs") or []
    ks.append("batches_handed=%d" % min(50, sum(len(s["b"]) for d in outs for s in (d.get("subs") or [])) // 5 * 5))
    return ks


def neighbours(case, rng):
    out = K.neighbours(case, rng)
    for i, o in enumerate(case["ops"]):
        if o["op"] in K.INGEST:
            c = json.loads(json.dumps(case))
            tgt = o["n"] if o["op"] != "round" else o["j"]
            c["ops"][i:i + 1] = [{"op": "fail", "n": tgt}, o, json.loads(json.dumps(o))]
            out.append(c)
    for n in case["nodes"]:
        c = json.loads(json.dumps(case))
        c["ops"].insert(0, {"op": "sub", "n": n, "s": 77, "filter": False})
        out.append(c)
        c = json.loads(json.dumps(case))
        c["ops"].insert(0, {"op": "sub", "n": n, "s": 78, "filter": True})
        out.append(c)
    return out[:70]


def kinds_batch(pairs):
    if not pairs:
        return []
    body = "Definition cs : list Mon_C13.case_t := [ %s ].\nDefinition K := Eval vm_compute in map Mon_C13.violation_kinds cs.\nPrint K." % \
        "\n ; ".join(to_coq(c, r) for c, r in pairs)
    out = coq_print(PID, COQ_IMPORTS, body, timeout=600).replace("\n", " ")
    m = re.search(r"K\s*=\s*\[(.*)\]\s*:\s*list", out)
    if not m:
        raise RuntimeError("cannot evaluate violation_kinds: " + out[-500:])
    res = []
    for grp in re.findall(r"\[([^\[\]]*)\]", m.group(1)):
        grp = grp.strip()
        res.append([int(x.replace("%N", "").strip()) for x in grp.split(";")] if grp else [])
    if len(res) != len(pairs):
        raise RuntimeError("violation_kinds: %d results for %d cases" % (len(res), len(pairs)))
    return res


_K = {}


def kinds(case, r):
    key = vlib.chash([case.get("nodes"), case.get("T"), case.get("ops"), r.get("outs")])
    if key not in _K:
        _K[key] = kinds_batch([(case, r)])[0]
    return _K[key]


def tags_of(case, codes):
    fam = case.get("fam", "?")
    out = set()
    for k in codes:
        if k in ALLOWED.get(fam, ()) and k in CODE_TAG:
            out.add(CODE_TAG[k])
        else:
            out.add("C13:unexpected:%d:family_%s" % (k, fam))
    return out


def tags(case, r):
    if not r or harness_violation(case, r):
        return set()
    return tags_of(case, kinds(case, r))


def model_dump(case, r):
    return coq_print(PID, COQ_IMPORTS, "Eval vm_compute in Mon_C13.model_dump (%s)." % to_coq(case, r))[-8000:]


def extra(ctx):
    """two creators of one key with subscribers: the only allowed code is 4"""
    import check
    rng = random.Random(ctx.seed * 7907 + 13)
    cases = [json.loads(json.dumps(w[2])) for w in WITNESSES] + gen_extra(rng, EXTRA_COUNTS.get(ctx.tier, 40))
    res, M, V, hv, errs = ctx.evaluate(cases)
    cov = {"cases": len(cases), "mismatches": len(M), "monitor_rejections": len(V), "codes": {}, "witnesses_replayed_on_implementation": {}}
    if errs:
        rp = check.write_replay(ctx, "V2", "extra phase could not be evaluated", {}, None, {"errors": errs[:10]})
        ctx.violations.append({"kind": "V2", "what": "extra phase evaluation errors: %s" % errs[0][:300], "replay": rp, "found_input": False})
    for i, w in hv[:3]:
        check.report_case_violation(ctx, cases[i], res.get(i), w)
    codes = kinds_batch([(cases[i], res[i]) for i in V]) if V else []
    by_idx = dict(zip(V, codes))
    for wi, (name, want, _) in enumerate(WITNESSES):
        got = by_idx.get(wi, [])
        cov["witnesses_replayed_on_implementation"][name] = {"expected_code": want, "observed_codes": got,
                                                              "model_equals_implementation": wi not in M}
        if got != [want]:
            ctx.notes.append("witness %s: implementation now yields codes %s (expected %d)" % (name, got, want))
    findings = {f.get("tag"): f for f in vlib.load_findings() if f.get("property") == PID and f.get("status") == "known"}
    best = {}
    for i, ks in zip(V, codes):
        for k in ks:
            cov["codes"][str(k)] = cov["codes"].get(str(k), 0) + 1
        tg = tags_of(cases[i], ks)
        if all(t in findings for t in tg):
            for t in tg:
                if t not in best or len(cases[i]["ops"]) < len(best[t]["ops"]):
                    best[t] = cases[i]
        else:
            check.report_case_violation(ctx, cases[i], res.get(i), "monitor ok_C13 rejects the implementation's behaviour (extra phase)")
            break
    for t, c in best.items():
        ctx.known_hits.append((findings[t], c))
    if M:
        i = M[0]
        rp = check.write_replay(ctx, "V2", "model and implementation disagree (extra phase)", cases[i], res.get(i),
                                {"correspondence": "corr:C13/extra#%d" % i, "mismatching_cases": len(M)})
        ctx.violations.append({"kind": "V2", "what": "correspondence corr:C13 broke on %d extra-phase cases" % len(M),
                               "replay": rp, "found_input": False})
    ctx.extra_cov["extra_phase_known_finding_space"] = cov


PARTIAL = ("never-stale, completeness and the subscriber/log relation hold with no hypothesis on the run; at-most-once and "
           "the exactness of the host filter are proved over the cluster LTS wherever entries never move down (C06's "
           "ok_run: one creator per key, no recovery split from its high-water read) and at-most-once is refuted without "
           "(known finding F4-leasepath-observers, a consequence of C06's F4-leasepath). The drop paths (relay buffer 500, "
           "async observer channel 64) are excluded by the keeps-up hypothesis and not modelled.")
READY = True
TECHNIQUE = ("Coq proof (induction over batches; log invariant over the cluster LTS: every forwarded operation is dominated by "
             "the stored entry and positions never repeat) + model/impl correspondence by vm_compute")
DESIGN_REF = "DESIGN.md §8 C13"
LEVEL_TEXT = ("Machine-checked Coq theorems over the C06 node model extended with the persist splitter's output (n_log) and "
              "subscriber views (sub_view): an operation is forwarded only if it superseded the stored digest at its turn "
              "and became the entry (C13_forwarded_only_if_it_won), one that lost to a stored entry is never forwarded and "
              "a redelivered batch forwards nothing (C13_never_stale, C13_redelivery_forwards_nothing); every step of every "
              "kind except the recovery apply appends to the log every entry it changed, and a subscriber's view grows by "
              "exactly the new requests minus the host-led ones if filtered (C13_complete, "
              "C13_subscriber_gets_the_new_requests); over the cluster LTS (any number of nodes, all step kinds, unbounded "
              "runs with one creator per key) no (key, version, leaseholder) is ever forwarded or handed twice "
              "(C13_at_most_once_partial) and the IgnoreHostLeaseholder filter hides exactly the requests whose operations "
              "are led by the host (C13_host_filter_exact). The model is tied to /repo on every run: real kv.DB nodes with "
              "subscribers registered through DB.OnChange / NewObservable(IgnoreHostLeaseholder).OnChange before, during "
              "and after traffic, scripted delivery, every subscriber's callbacks collected after every step and compared "
              "batch by batch with the model inside Coq; a decidable monitor states the four clauses on the "
              "implementation's callbacks and observed engines only.")
LEVEL_NOTE = ("Trusted: Coq kernel/vm_compute; hand-written model (tied by correspondence); the kvdrv driver (marker barriers "
              "through splitter, relay and async observer — no sleeps, no model-predicted waits) + hook; generator. All "
              "theorems closed under the global context. Partial: see `partial`. One known finding (a (key, version, "
              "leaseholder) handed twice after the lease path moved an entry down) is replayed on the real nodes in every "
              "run; its scripts may only produce that code. Not modelled: relay/observer overflow (drop), subscribing "
              "while a step is in progress, multi-operation DB transactions, observer panics/retries.")
