"""C12 — membership gossip only moves views forward and converges."""
import itertools
import json
from vlib import cN, clist, cpair, coq_print

PID = "C12"
MODULE, PKG, BIN = "aspen", "./verifh/c12", "c12"
COQ_IMPORTS = "From Synnax Require Import Common.Base Aspen.Membership Monitors.Mon_C12."
CASE_TYPE = "case_t"
COUNTS = {"quick": 600, "thorough": 20000}
SHARD = 250
RULE = ("random clusters of 2-4 stores whose views are drawn from one coherent per-member timeline "
        "(host knows its own latest record; others know older or no record; zero heartbeats frequent); "
        "scripts of 3-16 ops over exchange/tick/set_state/restart, 35% ending in an exchange-only suffix that covers "
        "every pair. Non-trivial = script with >=2 exchanges between nodes holding different views, at least one "
        "record transferred in each direction overall, and a tick/restart/state change; distinct by hash. 4% of the cases "
        "are lifecycle scripts: cluster.Open of a bootstrap node over a memkv store, restarted after clean closes and "
        "after crashes (storage image taken while the previous run is alive).")
TRUSTED = ["hook aspen/internal/cluster/gossip/export_verif.go (VerifTick = incrementHostHeartbeat)",
           "store.Store + gossip.Gossip + freighter mock unary network run for real; set_state/restart ops are "
           "performed by the harness the way cluster.Open does (Heartbeat.Restart + SetNode)"]
ASSUMES = ["heartbeat version/generation stay below 2^32 (Go uint32 wrap-around not modelled)",
           "coherence: one (member, heartbeat) identifies one record — only the host edits its own record"]
PARTIAL = None


def gen_case(rng):
    n = rng.choice([2, 3, 3, 4, 4])
    keys = sorted(rng.sample([1, 2, 3, 4, 5, 9], n))
    timeline = {}
    for k in keys:
        vs = []
        g, v = 0, 0
        if rng.random() < 0.5:
            vs.append((0, 0, rng.randrange(0, 3)))
        for _ in range(rng.randrange(0, 4)):
            if rng.random() < 0.25:
                g, v = g + 1, 0
            else:
                v += rng.randrange(1, 3)
            vs.append((g, v, rng.randrange(0, 4)))
        if not vs:
            vs.append((0, 0, 0))
        timeline[k] = vs
    nodes = []
    for k in keys:
        view = []
        for m in keys:
            if m == k:
                g, v, s = timeline[m][-1]
                view.append({"K": m, "Gen": g, "Ver": v, "State": s, "Addr": m})
            elif rng.random() < 0.45:
                g, v, s = rng.choice(timeline[m])
                view.append({"K": m, "Gen": g, "Ver": v, "State": s, "Addr": m})
        nodes.append({"key": k, "view": view})
    ops = []
    for _ in range(rng.randrange(2, 12)):
        x = rng.random()
        i = rng.choice(keys)
        if x < 0.12 and len(keys) >= 3:
            # an exchange i -> j during which other exchanges / ticks complete (GossipOnceWith holds no lock across
            # its round trip): the inner operations run after j computed its ack and before i processes it
            j = rng.choice([k for k in keys if k != i])
            inner = []
            for _ in range(rng.randrange(1, 4)):
                k = rng.choice([q for q in keys if q != i])        # i itself is blocked in its round trip
                if rng.random() < 0.25:
                    inner.append([k, k])                              # tick of k
                else:
                    l = rng.choice([q for q in keys if q != k and (q != j or rng.random() < 0.3)] or [i])
                    if l != k:
                        inner.append([k, l])
            ops.append({"op": "exchange_n", "i": i, "j": j, "inner": inner})
        elif x < 0.6:
            j = rng.choice([k for k in keys if k != i])
            ops.append({"op": "exchange", "i": i, "j": j})
        elif x < 0.75:
            ops.append({"op": "tick", "i": i})
        elif x < 0.88:
            ops.append({"op": "set_state", "i": i, "s": rng.randrange(0, 4)})
        else:
            ops.append({"op": "restart", "i": i})
    if rng.random() < 0.35:
        pairs = [(a, b) if rng.random() < 0.5 else (b, a) for a, b in itertools.combinations(keys, 2)]
        pairs += [rng.choice(pairs) for _ in range(rng.randrange(0, 3))]
        rng.shuffle(pairs)
        ops += [{"op": "exchange", "i": a, "j": b} for a, b in pairs]
    return {"nodes": nodes, "ops": ops}


def gen_lifecycle(rng):
    """cluster.Open over persisted storage: clean restarts and crashes (restart from a storage image taken while the
    previous run was alive); the k-th start must come up at a strictly newer generation"""
    return {"kind": "lifecycle", "nodes": [],
            "ops": [{"op": rng.choice(["restart", "crash", "crash"]), "i": 1} for _ in range(rng.randrange(1, 7))]}


def gen_cases(rng, tier, n):
    nl = max(4, n // 25)
    return [gen_case(rng) for _ in range(n - nl)] + [gen_lifecycle(rng) for _ in range(nl)]


def c_view(recs):
    return clist([cpair(cN(r[0]), cpair(cN(r[1]), cN(r[2]), cN(r[3]), cN(r[4]))) for r in recs])


def c_cluster(dump):
    return clist([cpair(cN(d["node"]), c_view(d["view"])) for d in dump])


def c_op(o):
    if o["op"] == "exchange":
        return "Exchange %s %s" % (cN(o["i"]), cN(o["j"]))
    if o["op"] == "exchange_n":
        return "ExchangeN %s %s %s" % (cN(o["i"]), cN(o["j"]), clist([cpair(cN(k), cN(l)) for k, l in o.get("inner", [])]))
    if o["op"] == "tick":
        return "Tick %s" % cN(o["i"])
    if o["op"] == "set_state":
        return "SetState %s %s" % (cN(o["i"]), cN(o["s"]))
    return "Restart %s" % cN(o["i"])     # "restart" and (lifecycle) "crash": both are a start of a new run


def init_dump(case):
    return [{"node": n["key"], "view": sorted([[r["K"], r["Gen"], r["Ver"], r["State"], r["Addr"]] for r in n["view"]])}
            for n in sorted(case["nodes"], key=lambda x: x["key"])]


def harness_violation(case, r):
    if r.get("panic"):
        return "panic: " + r["panic"]
    if any(r.get("errs") or []):
        return "gossip exchange returned an error: %s" % [e for e in r["errs"] if e][:1]
    return None


def to_coq(case, r):
    steps = [cpair(c_op(o), c_cluster(d)) for o, d in zip(case["ops"], r["outs"])]
    init = r["init"] if case.get("kind") == "lifecycle" else init_dump(case)
    return "(%s, %s, %s)" % (c_cluster(init), clist(steps), clist([c_cluster(m) for m in (r.get("mids") or [])]))


def nontrivial(case, r):
    if case.get("kind") == "lifecycle":
        return any(o["op"] == "crash" for o in case["ops"]) and len(case["ops"]) >= 2
    ex = [o for o in case["ops"] if o["op"] == "exchange"]
    other = [o for o in case["ops"] if o["op"] != "exchange"]
    if len(ex) < 2 or not other:
        return False
    prev = init_dump(case)
    changed = 0
    for o, d in zip(case["ops"], r["outs"]):
        if o["op"] == "exchange" and d != prev:
            changed += 1
        prev = d
    return changed >= 2


def histogram(case, r):
    if case.get("kind") == "lifecycle":
        return ["lifecycle"] + ["lifecycle_op=" + o["op"] for o in case["ops"]]
    ks = ["nodes=%d" % len(case["nodes"])]
    for o in case["ops"]:
        ks.append("op=" + o["op"])
    if any(rec["Gen"] == 0 and rec["Ver"] == 0 for n in case["nodes"] for rec in n["view"]):
        ks.append("has_zero_heartbeat")
    return ks


def neighbours(case, rng):
    out = []
    if case.get("kind") == "lifecycle":
        return [gen_lifecycle(rng) for _ in range(10)]
    keys = [n["key"] for n in case["nodes"]]
    for i in range(len(case["ops"])):
        c = json.loads(json.dumps(case))
        del c["ops"][i]
        out.append(c)
    for a, b in itertools.permutations(keys, 2):
        c = json.loads(json.dumps(case))
        c["ops"].append({"op": "exchange", "i": a, "j": b})
        out.append(c)
    return out


def tags(case, r):
    return set()


def model_dump(case, r):
    t = to_coq(case, r)
    return coq_print(PID, COQ_IMPORTS, "Eval vm_compute in model_dump (%s)." % t)[-6000:]

SRC_SPECS = ["version"]     # translator/specs/version.json -> Generated/Src_Version.v (regenerated on every run)
READY = True
TECHNIQUE = "Coq proof (induction over op lists, order-theoretic join argument) + model/impl correspondence by vm_compute"
DESIGN_REF = "DESIGN.md §8 C12"
LEVEL_TEXT = ("Machine-checked Coq theorems over an executable Gallina copy of sync/ack/ack2/Merge/heartbeat order: "
              "no operation sequence regresses any record (C12_never_regresses), one exchange leaves both sides at the "
              "join (C12_exchange_join), any exchange list covering every pair makes all views identical and complete "
              "(C12_converge, unbounded nodes/members/length), restart supersedes. The model is tied to /repo on every "
              "run by driving the real gossip.Gossip/store.Store through the mock network on generated scripts and "
              "comparing every node's full view after every op inside Coq; a decidable monitor states the property on "
              "the implementation's observations and yields the replay.")
LEVEL_NOTE = ("Trusted: Coq kernel/vm_compute; hand-written model (tied by correspondence, not translation); harness + "
              "hook VerifTick; generator. Assumes heartbeats < 2^32 and coherence (only a host edits its own record). "
              "Theorems are closed under the global context (no axioms). F7 (zero-heartbeat record never transferred) "
              "was found by this check and repaired by a fix: commit; C12_strict_ack_refuted keeps the witness.")
