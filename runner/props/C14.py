"""C14 — freighter streams deliver in order, once, with a definite end, on all transports."""
import json
import os
import re
from vlib import cN, clist, cpair, cbool, coq_print

PID = "C14"
MODULE, PKG, BIN = "freighter/go", "./verifh/c14", "c14"
COQ_IMPORTS = "From Synnax Require Import Common.Base Freighter.Stream Monitors.Mon_C14."
CASE_TYPE = "case_t"
COUNTS = {"quick": 9000, "thorough": 60000}
SHARD = 150
PROCS = 6
HARNESS_TIMEOUT = 600
READY = True

TRANSPORTS = ["mock", "ws", "wsm", "grpc", "grpci"]
T_ID = {t: i for i, t in enumerate(TRANSPORTS)}

# script error kinds — keep in step with hooks/freighter/go/verifh/c14/main.go
K_NIL, K_EOF, K_CLOSED, K_NOTFOUND, K_UNIQUE, K_INVALID, K_QUERY, K_UNAUTH, K_CONTROL, K_VALID, K_REQUIRED, \
    K_INVTYPE, K_CONV, K_PATH, K_PLAINX, K_PLAINSTD, K_CANCELED, K_DEADLINE = range(18)
KINDS = list(range(18))
N_MSG = 6
SIZES = [0, 1, 3, 17, 65536, 1 << 20]


# --------------------------------------------------------------------------- script simulation
def simulate(ops):
    """Contract-level simulation of the start-order script. Returns (ok, info): ok iff every op
    completes (no receive waits for an item the peer never produces)."""
    n = len(ops)
    qc = [i for i, o in enumerate(ops) if o["s"] == "c"]
    qh = [i for i, o in enumerate(ops) if o["s"] == "h"]
    issued = -1          # ops[0..issued] have been issued
    done = [False] * n
    req, res = [], []    # in-flight items ("m" | "end")
    ret = False
    closed = False
    cterm = False
    hterm = False
    pc = ph = 0
    early = 0

    def enabled(i):
        o = ops[i]
        if o["a"] != "recv":
            return True
        if o["s"] == "c":
            return cterm or bool(res)
        return hterm or bool(req)

    def execute(i):
        nonlocal ret, closed, cterm, hterm
        o = ops[i]
        if o["s"] == "c":
            if o["a"] == "send":
                if not closed and not cterm:
                    req.append("m")          # may also fail after ret: then nobody needs it
            elif o["a"] == "close":
                if not closed:
                    closed = True
                    req.append("end")
            else:
                if not cterm:
                    if res.pop(0) == "end":
                        cterm = True
        else:
            if o["a"] == "send":
                res.append("m")
            elif o["a"] == "ret":
                ret = True
                res.append("end")
            else:
                if not hterm:
                    if req.pop(0) == "end":
                        hterm = True
        done[i] = True

    def pump():
        nonlocal pc, ph
        prog = True
        while prog:
            prog = False
            if pc < len(qc) and qc[pc] <= issued and enabled(qc[pc]):
                execute(qc[pc]); pc += 1; prog = True
            if ph < len(qh) and qh[ph] <= issued and enabled(qh[ph]):
                execute(qh[ph]); ph += 1; prog = True

    for i, o in enumerate(ops):
        issued = i
        if o["s"] == "x":       # harness-level op (poison): no effect on either side's script
            done[i] = True
            continue
        pump()
        if not done[i]:
            if not o.get("nw"):
                return False, {"stuck": i, "why": "wait"}
            early += 1
    pump()
    if not all(done):
        return False, {"stuck": done.index(False), "why": "dead"}
    return True, {"early": early}


def fixup(case):
    """Repair a (generated / shrunk / mutated) case so that it is executable: exactly one handler `ret`, after
    every other handler op; a receive whose item is produced later becomes no-wait; a receive whose item is
    never produced is dropped."""
    ops = [dict(o) for o in case["ops"]]
    seen = False
    out = []
    for o in ops:
        if o["s"] == "h":
            if seen:
                continue
            if o["a"] == "ret":
                seen = True
        out.append(o)
    ops = out
    if not seen:
        ops.append({"s": "h", "a": "ret", "e": 0, "m": 0})
    for _ in range(2 * len(ops) + 2):
        ok, info = simulate(ops)
        if ok:
            break
        i = info["stuck"]
        if info["why"] == "wait":
            ops[i]["nw"] = True
        else:
            del ops[i]
    c = dict(case)
    c["ops"] = ops
    if "buf" in c:
        # small mock request buffer: keep it only while no client Send can block on it (list order is the start
        # order and every Send here waits), and make the CloseSend that meets a full channel no-wait
        buf, inflight, closed, ok = c["buf"], 0, False, True
        for o in ops:
            if o["s"] == "c" and o["a"] == "send" and not closed:
                if o.get("nw") or inflight >= buf:
                    ok = False
                    break
                inflight += 1
            elif o["s"] == "c" and o["a"] == "close" and not closed:
                closed = True
                if inflight >= buf:
                    o["nw"] = True
                    o["d"] = max(o.get("d", 0), 10)
                inflight += 1
            elif o["s"] == "h" and o["a"] == "recv" and inflight > 0:
                inflight -= 1
            elif o["s"] == "h" and o["a"] == "ret" and not closed:
                ok = False      # sends racing the return may block on a small buffer
                break
        if not ok:
            del c["buf"]
    if "rbuf" in c:
        # small mock response buffer: keep it only while no handler Send can block on it
        rbuf, inflight, ok = c["rbuf"], 0, True
        for o in ops:
            if o["s"] == "h" and o["a"] == "send":
                if o.get("nw") or inflight >= rbuf:
                    ok = False
                    break
                inflight += 1
            elif o["s"] == "c" and o["a"] == "recv":
                if o.get("nw"):
                    ok = False
                    break
                if inflight > 0:
                    inflight -= 1
        if not ok:
            del c["rbuf"]
    return c


# --------------------------------------------------------------------------- generator
def gen_script(rng, tier):
    style = rng.choices(["echo", "burst", "mixed", "closefirst", "early_ret", "misuse", "free", "big", "fullbuf", "fullres"],
                        [18, 12, 25, 10, 12, 12, 8, 3, 2.5, 2.5])[0]
    ops = []
    pid = [0, 0]

    def pay(side, big=False):
        pid[side] += 1
        if big:
            z = rng.choice([65536, 1 << 20])
        else:
            z = rng.choices(SIZES[:4], [3, 3, 3, 1])[0]
        # shape variant of the map / omit-when-empty fields: consecutive messages mostly differ in key sets and
        # in which fields the wire form omits
        v = rng.choices([0, 1, 2, 3, 4], [3, 3, 2, 2, 2])[0]
        return {"p": pid[side] if rng.random() < 0.93 else max(1, pid[side] - 1), "z": z, "v": v}

    def csend(**kw):
        ops.append(dict({"s": "c", "a": "send"}, **pay(0, kw.pop("big", False)), **kw))

    def hsend(**kw):
        ops.append(dict({"s": "h", "a": "send"}, **pay(1, kw.pop("big", False)), **kw))

    def crecv(**kw):
        ops.append(dict({"s": "c", "a": "recv"}, **kw))

    def hrecv(**kw):
        ops.append(dict({"s": "h", "a": "recv"}, **kw))

    def cclose(**kw):
        ops.append(dict({"s": "c", "a": "close"}, **kw))

    def ret(**kw):
        if rng.random() < 0.3:
            e = 0
        else:
            e = rng.choice(KINDS)
        m = rng.choice([0, 0, 1, 1, 2, 3, 4, 5])
        o = {"s": "h", "a": "ret", "e": e, "m": m}
        if e == K_PATH:
            o["in"] = rng.choice([K_VALID, K_REQUIRED, K_NOTFOUND, K_PLAINX, K_UNAUTH])
        o.update(kw)
        ops.append(o)

    n = rng.choice([0, 1, 2, 3, 4, 6, 9]) if tier == "quick" else rng.choice([0, 1, 2, 3, 5, 8, 13, 30])
    if style == "echo":
        for _ in range(n):
            csend(); hrecv(); hsend(); crecv()
        if rng.random() < 0.6:
            cclose(); hrecv()
        ret()
        for _ in range(rng.randrange(0, 4)):
            crecv()
    elif style == "burst":
        for _ in range(n):
            csend()
        for _ in range(rng.randrange(0, n + 1)):
            hrecv()
        for _ in range(rng.choice([0, 1, 3, 7])):
            hsend()
        if rng.random() < 0.5:
            cclose()
            if rng.random() < 0.5:
                for _ in range(n + 2):
                    hrecv()
        ret()
        for _ in range(rng.choice([0, 1, 4, 9])):
            crecv()
    elif style == "closefirst":
        for _ in range(n):
            csend()
        cclose()
        for _ in range(n + rng.randrange(0, 3)):
            hrecv()
        for _ in range(rng.randrange(0, 4)):
            hsend()
        for _ in range(rng.randrange(0, 3)):
            crecv()
        if rng.random() < 0.4:
            csend()
        ret()
        for _ in range(rng.randrange(1, 6)):
            crecv()
        if rng.random() < 0.5:
            csend()
    elif style == "early_ret":
        for _ in range(rng.randrange(0, 4)):
            hsend()
        nwret = rng.random() < 0.5
        for _ in range(rng.randrange(0, 3)):
            csend(nw=nwret)
        ret(nw=nwret, d=rng.choice([0, 0, 5, 20]))
        for _ in range(rng.randrange(0, 4)):
            csend(nw=rng.random() < 0.5)
        if rng.random() < 0.4:
            cclose()
        for _ in range(rng.randrange(0, 7)):
            crecv()
        for _ in range(rng.randrange(0, 3)):
            csend()
        if rng.random() < 0.3:
            cclose()
            csend()
    elif style == "misuse":
        for _ in range(n):
            x = rng.random()
            if x < 0.3:
                csend()
            elif x < 0.45:
                cclose()
            elif x < 0.6:
                hsend()
            elif x < 0.8:
                hrecv()
            else:
                crecv()
        ret()
        for _ in range(rng.randrange(0, 6)):
            x = rng.random()
            if x < 0.4:
                crecv()
            elif x < 0.7:
                csend()
            else:
                cclose()
    elif style == "free":
        # both sides run at full speed: everything no-wait
        k = rng.randrange(1, 8)
        seq_c = []
        seq_h = []
        for _ in range(k):
            seq_c.append("send")
        if rng.random() < 0.6:
            seq_c.append("close")
        for _ in range(rng.randrange(0, k + 2)):
            seq_h.append("recv" if rng.random() < 0.5 else "send")
        seq_h.append("ret")
        for _ in range(rng.randrange(0, k + 3)):
            seq_c.append("recv")
        i = j = 0
        while i < len(seq_c) or j < len(seq_h):
            if j >= len(seq_h) or (i < len(seq_c) and rng.random() < 0.5):
                a = seq_c[i]; i += 1
                {"send": csend, "close": cclose, "recv": crecv}[a](nw=True)
            else:
                a = seq_h[j]; j += 1
                {"send": hsend, "recv": hrecv, "ret": ret}[a](nw=True)
    elif style == "fullbuf":
        # mock only: the request channel has a small capacity; the client fills it exactly while the handler is
        # gated, then closes its sending side (CloseSend may block on the full channel, so it is no-wait and the
        # handler is released afterwards); the handler must then see every request followed by end-of-stream.
        buf = rng.choice([0, 1, 2, 2, 10])
        if buf > 0:
            for _ in range(rng.choice([0, 0, 1, 3])):
                csend(); hrecv()
                if rng.random() < 0.5:
                    hsend(); crecv()
        for _ in range(buf):
            csend()
        cclose(nw=True, d=rng.choice([10, 20, 30]))
        for _ in range(buf + 1):
            hrecv()
        if rng.random() < 0.5:
            hrecv()
        for _ in range(rng.randrange(0, 3)):
            hsend()
        ret()
        for _ in range(rng.randrange(1, 5)):
            crecv()
        if rng.random() < 0.4:
            csend()
        for o in ops:
            o.setdefault("d", 0)
        return {"ops": ops, "style": style, "buf": buf}
    elif style == "fullres":
        # mock only: the response channel has a small capacity; the client closes its sending side first, the
        # handler fills the response channel exactly and returns while the client has not received anything
        # (late client); only then the client drains: it must get every response, then the terminal result, twice.
        rbuf = rng.choice([0, 1, 2, 2, 3, 10])
        if rbuf > 0:
            for _ in range(rng.choice([0, 0, 1, 2])):
                csend(); hrecv(); hsend(); crecv()
        if rng.random() < 0.3:
            csend(); hrecv()
        cclose()
        if rng.random() < 0.6:
            hrecv()
        for _ in range(rbuf):
            hsend()
        ret(d=rng.choice([10, 20, 30]))
        for _ in range(rbuf + rng.randrange(1, 4)):
            crecv()
        if rng.random() < 0.3:
            csend()
        return {"ops": ops, "style": style, "rbuf": rbuf}
    elif style == "big":
        for _ in range(rng.randrange(1, 3)):
            csend(big=True); hrecv(); hsend(big=True); crecv()
        cclose(); hrecv(); ret(); crecv(); crecv()
    else:  # mixed
        sent_c = sent_h = 0
        got_c = got_h = 0
        closed = False
        for _ in range(n * 2 + 1):
            x = rng.random()
            if x < 0.3:
                csend(nw=rng.random() < 0.15); sent_c += 0 if closed else 1
            elif x < 0.55:
                hsend(nw=rng.random() < 0.15); sent_h += 1
            elif x < 0.72:
                if got_h < sent_c + (1 if closed else 0) or rng.random() < 0.1:
                    hrecv(); got_h += 1
            elif x < 0.9:
                if got_c < sent_h or rng.random() < 0.1:
                    crecv(); got_c += 1
            elif x < 0.96:
                cclose(); closed = True
        ret(d=rng.choice([0, 0, 0, 10]))
        for _ in range(rng.randrange(0, sent_h - got_c + 3 if sent_h - got_c + 3 > 0 else 1)):
            crecv()
        if rng.random() < 0.3:
            csend()
    # now and then, somewhere in the script, other streams of the same process try to send payloads the codec
    # rejects half-way (websocket transports; a no-op elsewhere): every later valid message must still arrive intact
    if rng.random() < 0.15:
        for _ in range(rng.choice([1, 1, 2])):
            ops.insert(rng.randrange(0, len(ops) + 1), {"s": "x", "a": "poison"})
    # random extra delays / no-wait flags
    for o in ops:
        if rng.random() < 0.04:
            o["d"] = rng.choice([1, 5, 20])
    return {"ops": ops, "style": style}


def gen_cases(rng, tier, n):
    out = []
    weights = [30, 22, 8, 22, 18]
    while len(out) < n:
        sc = fixup(gen_script(rng, tier))
        ok, _ = simulate(sc["ops"])
        if not ok:
            continue
        # the same script on several transports (always mock + one or two others)
        ts = ["mock"] + rng.sample(TRANSPORTS[1:], rng.choice([1, 2, 2, 4]))
        if "buf" in sc or "rbuf" in sc:
            ts = ["mock"]
        for t in ts:
            c = json.loads(json.dumps(sc))
            c["t"] = t
            out.append(c)
    return out[:n]


# --------------------------------------------------------------------------- Coq terms
def _chunks(text, table):
    out = []
    for piece in text.split("---"):
        if piece not in table:
            table[piece] = len(table) + 1
        out.append(cN(table[piece]))
    return clist(out)


def _pay(p, z, v=0, bad=False):
    return cN(((int(p) * 8 + int(v)) << 21) + int(z) + ((1 << 60) if bad else 0))


def _rsl(ob, table):
    k = ob["k"]
    if k == "ok":
        return "ROk"
    if k == "blocked":
        # a Receive that did not return before the watchdog: no result the model allows (ROk is never a legal
        # result of Receive), rejected by accepts and by ok_C14's definite-end clauses
        return "ROk"
    if k == "val":
        return "(RVal %s)" % _pay(ob.get("p", 0), ob.get("z", 0), ob.get("v", 0), ob.get("bad", False))
    return "(RErr %s %s %s)" % (cN(ob.get("cls", 0)), cN(ob.get("in", 0)), _chunks(ob.get("msg", ""), table))


def _ret_err(o, r, table):
    e = o.get("e", 0)
    if e == K_NIL:
        return "None"
    path = e == K_PATH
    kind = e
    if path:
        kind = o.get("in", 0)
        if kind in (K_PATH, K_NIL):
            kind = K_VALID
    return "(Some (Err %s %s %s))" % (cN(kind), cbool(path), _chunks(r.get("hmsg", ""), table))


def split_sides(case):
    cops = [o for o in case["ops"] if o["s"] == "c"]
    hops = [o for o in case["ops"] if o["s"] == "h"]
    return cops, hops


def harness_violation(case, r):
    if r.get("panic"):
        return "panic: " + r["panic"][:600]
    if r.get("open"):
        return "stream could not be opened: " + r["open"][:300]
    if r.get("poison"):
        return "a deliberately unencodable payload was not refused cleanly: " + "; ".join(r["poison"])[:300]
    cops, hops = split_sides(case)
    if r.get("hang"):
        if _blocked_receive(case, r):
            return None     # a Receive that never returned is an observation: the model / monitor judge it
        return "a call did not return within the watchdog (no definite end): client got %d results, handler %d" % (
            len(r.get("c", [])), len(r.get("h", [])))
    if len(r.get("c", [])) != len(cops) or len(r.get("h", [])) + 1 != len(hops):
        return "harness recorded %d/%d client and %d/%d handler results" % (
            len(r.get("c", [])), len(cops), len(r.get("h", [])), len(hops) - 1)
    return None


def _blocked_receive(case, r):
    """the watchdog fired while a side was inside Receive (and no side was stuck in another call)"""
    cops, hops = split_sides(case)
    hops = [o for o in hops if o["a"] != "ret"]
    found = False
    for ops_, obs_ in ((cops, r.get("c", [])), (hops, r.get("h", []))):
        if obs_ and obs_[-1]["k"] == "blocked":
            if len(obs_) > len(ops_) or ops_[len(obs_) - 1]["a"] != "recv":
                return False
            found = True
    return found


SKIPPED = []   # cases whose client saw a raw transport error (socket torn down after a stall)


def _transport_error(case, r):
    """A client Send / CloseSend on a network transport returned an error that is neither EOF nor StreamClosed:
    the documented 'transport failed' clause (e.g. the websocket server's 500 ms close handshake expired while
    this process was stalled). Outside the property's fault-free quantifier."""
    if case["t"] == "mock":
        return False
    cops, _ = split_sides(case)
    return any(o["a"] in ("send", "close") and ob["k"] == "err" and ob.get("cls") not in (K_EOF, K_CLOSED)
               for o, ob in zip(cops, r["c"]))


def to_coq(case, r):
    if _transport_error(case, r):
        SKIPPED.append((case, r))
        return None
    table = {}
    cops, hops = split_sides(case)
    ret = [o for o in hops if o["a"] == "ret"][0]
    rete = _ret_err(ret, r, table)        # interns the handler's message chunks first
    cl = []
    for o, ob in zip(cops, r["c"]):
        if o["a"] == "send":
            cl.append("CSend %s %s" % (_pay(o["p"], o["z"], o.get("v", 0)), _rsl(ob, table)))
        elif o["a"] == "close":
            cl.append("CClose %s" % _rsl(ob, table))
        else:
            cl.append("CRecv %s" % _rsl(ob, table))
    hl = []
    hobs = list(r["h"])
    for o in hops:
        if o["a"] == "ret":
            if r.get("hret", True):
                hl.append("HRet %s" % rete)
            break
        if not hobs:
            break
        ob = hobs.pop(0)
        if o["a"] == "send":
            hl.append("HSend %s %s" % (_pay(o["p"], o["z"], o.get("v", 0)), _rsl(ob, table)))
        else:
            hl.append("HRecv %s" % _rsl(ob, table))
    return cpair(cN(T_ID[case["t"]]), clist(cl), clist(hl))


# --------------------------------------------------------------------------- coverage
def nontrivial(case, r):
    cops, hops = split_sides(case)
    vals = sum(1 for ob in r["c"] + r["h"] if ob["k"] == "val")
    cerrs = [ob for o, ob in zip(cops, r["c"]) if o["a"] == "recv" and ob["k"] == "err"]
    if vals < 1 or not cerrs:
        return False
    idx_ret = next(i for i, o in enumerate(case["ops"]) if o["a"] == "ret")
    after = [o for o in case["ops"][idx_ret + 1:] if o["s"] == "c"]
    racing = any(o["a"] == "send" for o in after) or any(
        o["s"] == "c" and o["a"] == "send" and o.get("nw") for o in case["ops"][:idx_ret])
    heof = any(o["a"] == "recv" and ob["k"] == "err" for o, ob in zip(hops, r["h"]))
    return racing or heof or len(cerrs) >= 2


def histogram(case, r):
    ks = ["t=" + case["t"], "style=" + case.get("style", "?")]
    if "buf" in case:
        ks.append("mock_request_buffer=%d" % case["buf"])
    if "rbuf" in case:
        ks.append("mock_response_buffer=%d" % case["rbuf"])
    cops, hops = split_sides(case)
    ret = [o for o in hops if o["a"] == "ret"][0]
    ks.append("ret_kind=%d" % ret.get("e", 0))
    if ret.get("e", 0):
        ks.append("ret_msg_variant=%d" % ret.get("m", 0))
    n = len(case["ops"])
    ks.append("ops=%s" % ("0-4" if n < 5 else "5-12" if n < 13 else "13-30" if n < 31 else "31+"))
    for o in case["ops"]:
        if o["a"] == "poison":
            ks.append("poison_op")
        if o["a"] == "send":
            ks.append("size=%d" % o.get("z", 0))
            ks.append("shape=%d" % o.get("v", 0))
        if o.get("nw"):
            ks.append("nowait_op")
    seen_ret = False
    ci = 0
    for o in case["ops"]:
        if o["a"] == "ret":
            seen_ret = True
        if o["s"] == "c":
            if ci < len(r.get("c", [])):
                ob = r["c"][ci]
                if o["a"] == "send" and seen_ret:
                    ks.append("send_after_ret=" + ("ok" if ob["k"] == "ok" else "cls%d" % ob.get("cls", 0)))
                if o["a"] == "send" and not seen_ret and ob["k"] != "ok":
                    ks.append("send_before_ret_failed=cls%d" % ob.get("cls", 0))
                if o["a"] == "recv" and ob["k"] == "err":
                    ks.append("client_terminal=cls%d" % ob.get("cls", 0))
            ci += 1
    for o, ob in zip(hops, r.get("h", [])):
        if o["a"] == "recv" and ob["k"] == "err":
            ks.append("handler_eof")
    return ks


def tags(case, r):
    return set()


def extra(ctx):
    """Raw transport errors are tolerated only as rare accidents of scheduling, never as a pattern."""
    import check
    n = len(SKIPPED)
    ctx.extra_cov["skipped_transport_error_cases"] = n
    if n > 5:
        case, r = SKIPPED[0]
        check.report_case_violation(ctx, case, r, "client Send/CloseSend returned a raw transport error on %d cases "
                                    "of a fault-free run" % n)


def neighbours(case, rng):
    out = []
    ops = case["ops"]
    for i in range(len(ops)):
        c = json.loads(json.dumps(case))
        del c["ops"][i]
        out.append(fixup(c))
        c = json.loads(json.dumps(case))
        c["ops"][i]["nw"] = not c["ops"][i].get("nw", False)
        out.append(fixup(c))
    for t in TRANSPORTS:
        if t != case["t"]:
            c = json.loads(json.dumps(case))
            c["t"] = t
            out.append(c)
    for k in KINDS:
        for m in (0, 2):
            c = json.loads(json.dumps(case))
            for o in c["ops"]:
                if o["a"] == "ret":
                    o["e"], o["m"] = k, m
                    if k == K_PATH:
                        o["in"] = K_REQUIRED
            out.append(c)
    for extra in ({"s": "c", "a": "recv"}, {"s": "c", "a": "send", "p": 77, "z": 1}, {"s": "c", "a": "close"}):
        c = json.loads(json.dumps(case))
        c["ops"] += [dict(extra), {"s": "c", "a": "recv"}, {"s": "c", "a": "recv"}]
        out.append(fixup(c))
    return [c for c in out if simulate(c["ops"])[0]]


def model_dump(case, r):
    if harness_violation(case, r):
        return "no model run: " + harness_violation(case, r)[:200]
    t = to_coq(case, r)
    return coq_print(PID, COQ_IMPORTS, "Eval vm_compute in model_dump (%s)." % t)[-4000:]


RULE = ("scripts of client Send/CloseSend/Receive and handler Receive/Send/return(err) in 8 styles (echo, burst, mixed, "
        "close-first, early return with racing sends, API misuse after close/terminal, free-running, 64 KiB/1 MiB payloads, "
        "mock request buffer filled exactly before CloseSend, mock response buffer filled exactly before the handler "
        "returns to a late client after CloseSend; a Receive that never returns is fed to the monitor as an illegal result; in 15% of scripts other streams of the "
        "process first try to send payloads the codec rejects half-way); payloads carry a map, an omit-when-empty text and slice in 5 "
        "shapes (received payloads are compared in full at receipt and again after the stream), "
        "each run on the mock transport and on 1-4 of websocket/json, websocket/msgpack, grpc, grpc(Internal); handler "
        "results over nil + 17 error kinds x 6 message variants (incl. the wire separator). Non-trivial = at least one "
        "message delivered, the client observed the terminal result, and a client Send raced/followed the handler's "
        "return, or the handler saw end-of-stream after CloseSend, or the terminal result was read at least twice; "
        "distinct by hash of (transport, script).")
TRUSTED = ["harness hooks/freighter/go/verifh/c14 (coordinator, per-side recording, error classification by stdlib "
           "errors.Is against the provider sentinels)",
           "cockroachdb/errors codec behaviour on the internal (mock, grpc Internal=true) path is tabulated "
           "(roach_cls), not modelled"]
ASSUMES = ["no transport failure, no context cancellation, no use of the ServerStream after the handler returned",
           "mock channel buffers (512) exceed the number of in-flight messages: Send never blocks",
           "payload types of different providers do not shadow one another (checked on the generated table)"]
PARTIAL = ("timing: only the interleavings the Go scheduler produced under the scripted start orders / no-wait flags / "
           "delays are sampled against the real transports; the LTS theorems cover every interleaving of the model. "
           "Real timeouts, TCP/WebSocket/HTTP2 failures are out of scope.")
TECHNIQUE = ("Coq proof (LTS with two FIFO channels, invariants over every trace, diamond/commutation argument for the "
             "checker) + trace inclusion of the real transports' per-side observations in the model by vm_compute")
DESIGN_REF = "DESIGN.md §8 C14"
LEVEL_TEXT = ("Machine-checked Coq theorems over an executable LTS copy of the freighter stream contract (stream.go) with the "
              "mock transport's channels, close signals and cached errors (mock/stream.go) and of the error registry "
              "(x/go/errors/encode.go + the freighter/query/control/validate providers, tables regenerated from the Go sources "
              "on every run): for every trace of any length and every interleaving, on every transport and both profiles, "
              "sent = received ++ in-flight in both directions (C14_order_once); once the client has the terminal result the "
              "handler has returned, every earlier response was received and the result is EOF for nil or matches the "
              "handler's error, and it repeats (C14_terminal_result, C14_terminal_sticky, C14_error_matches_on_every_transport, "
              "C14_registry_roundtrip); handler end-of-stream only after CloseSend and after every request, and Receive "
              "commutes with CloseSend (C14_closesend_eof, C14_closesend_keeps_receive); the mock, websocket and gRPC client "
              "profiles refine the documented contract. The model is tied to /repo on every run by trace inclusion: the real mock, websocket (json, msgpack) "
              "and gRPC (external, internal) transports are driven through generated client/handler scripts and their per-side "
              "observations must be accepted by the checker `accepts`, which is proved to accept exactly the projections of "
              "LTS traces (C14_accepts_sound / C14_accepts_complete) and to imply the decidable monitor ok_C14 that is also "
              "applied directly to the implementation's observations.")
LEVEL_NOTE = ("partial: timing — only schedules the Go scheduler produced under scripted start orders, no-wait flags and delays are "
              "sampled against the real transports; real timeouts / TCP / WebSocket / HTTP2 failures, context cancellation, "
              "bounded mock buffers and use of a ServerStream after its handler returned are outside the model. Trusted: Coq "
              "kernel/vm_compute; hand-written model tied by correspondence; regex translator for the provider tables (fails "
              "closed); harness classification of errors by stdlib errors.Is; the cockroachdb codec on internal transports is "
              "tabulated, not modelled. mock, websocket and gRPC are each checked against their own exact profile of Send/CloseSend results; all three are proved to refine the documented contract. "
              "All theorems closed under the global context. Found and fixed by this check: F16 (Payload.Unmarshal split at "
              "every '---': registered errors lost their type over gRPC), F17 (websocket client panicked on a second Receive "
              "after the terminal result).")


# --------------------------------------------------------------------------- constants from the Go sources
_SENT = {"EOF": K_EOF, "ErrStreamClosed": K_CLOSED, "ErrNotFound": K_NOTFOUND, "ErrUniqueViolation": K_UNIQUE,
         "ErrInvalidParameters": K_INVALID, "ErrQuery": K_QUERY, "ErrUnauthorized": K_UNAUTH, "ErrControl": K_CONTROL,
         "ErrValidation": K_VALID, "ErrRequired": K_REQUIRED, "ErrInvalidType": K_INVTYPE, "ErrConversion": K_CONV}
_PROVIDERS = [("freighter/go/errors.go", "encodeErr", "decodeErr"), ("x/go/query/errors.go", "encode", "decode"),
              ("x/go/control/authority.go", "encode", "decode"), ("x/go/validate/errors.go", "encode", "decode")]


def _strip_comments(src):
    src = re.sub(r"/\*.*?\*/", "", src, flags=re.S)
    return re.sub(r"//[^\n]*", "", src)


def _func_body(src, name):
    m = re.search(r"\nfunc %s\(" % re.escape(name), src)
    if not m:
        raise ValueError("func %s not found" % name)
    i = src.index("{", src.index(")", m.end()))
    # the body starts at the first '{' after the result list: scan to the '{' that opens the body
    j = src.index("\n", m.end())
    i = src.rindex("{", m.end(), j + 1)
    depth, k = 0, i
    while True:
        if src[k] == "{":
            depth += 1
        elif src[k] == "}":
            depth -= 1
            if depth == 0:
                return src[i + 1:k]
        k += 1


def _consts(src):
    env = {}
    items = []
    for blk in re.findall(r"\bconst\s*\((.*?)\n\)", src, flags=re.S):
        for line in blk.splitlines():
            m = re.match(r"\s*(\w+)(?:\s+[\w.]+)?\s*=\s*(.+?)\s*$", line)
            if m:
                items.append((m.group(1), m.group(2)))
    for m in re.finditer(r"^const\s+(\w+)(?:\s+[\w.]+)?\s*=\s*(.+?)\s*$", src, flags=re.M):
        items.append((m.group(1), m.group(2)))
    for _ in range(len(items) + 1):
        for name, expr in items:
            if name in env:
                continue
            parts = [p.strip() for p in expr.split("+")]
            val = ""
            ok = True
            for p in parts:
                if re.fullmatch(r'"[^"\\]*"', p):
                    val += p[1:-1]
                elif p in env:
                    val += env[p]
                else:
                    ok = False
                    break
            if ok:
                env[name] = val
    return env


def _ty(expr, env):
    expr = expr.strip()
    if re.fullmatch(r'"[^"\\]*"', expr):
        return expr[1:-1]
    if expr in env:
        return env[expr]
    raise ValueError("cannot evaluate payload type %r" % expr)


def _result_kind(expr):
    expr = expr.strip()
    if re.fullmatch(r"errors\.New\(\w+\.Data\)", expr):
        return 0
    m = re.fullmatch(r"errors\.Wrapf?\((\w+),\s*\w+\.Data\)", expr)
    name = m.group(1) if m else expr
    if name not in _SENT:
        raise ValueError("unknown decode result %r" % expr)
    return _SENT[name]


def _parse_provider(repo, rel, encname, decname):
    src = _strip_comments(open(os.path.join(repo, rel)).read())
    env = _consts(src)
    parents = []
    for m in re.finditer(r"\b(\w+)\s*=\s*errors\.Wrapf?\(\s*(\w+)\s*,", src):
        if m.group(1) in _SENT and m.group(2) in _SENT:
            parents.append((_SENT[m.group(1)], _SENT[m.group(2)]))
    enc = _func_body(src, encname)
    rules = []
    path_type = None
    n_ret = len(re.findall(r"\breturn\b[^\n]*(?:\n[^\n]*)*?,\s*true\b", enc))
    pos = 0
    for m in re.finditer(r"errors\.(CheapIs|As)\(err,\s*&?(\w+)\)\s*\{", enc):
        tail = enc[m.end():]
        t = re.search(r"Type:\s*([^,\n]+),", tail)
        if not t:
            raise ValueError("no payload type after %s in %s" % (m.group(0), rel))
        ty = _ty(t.group(1), env)
        if m.group(1) == "As":
            path_type = ty
        else:
            if m.group(2) not in _SENT:
                raise ValueError("unknown sentinel %s in %s" % (m.group(2), rel))
            rules.append((_SENT[m.group(2)], ty))
    if len(rules) + (1 if path_type else 0) != len(re.findall(r",\s*true\b", enc)):
        raise ValueError("encode of %s has branches the translator does not understand" % rel)
    dec = _func_body(src, decname)
    exact, prefix = [], []
    guard = None
    g = re.search(r"if\s+!strings\.HasPrefix\(\w+\.Type,\s*(\w+)\)\s*\{\s*return nil, false\s*\}", dec)
    if g:
        guard = _ty(g.group(1), env)
    for m in re.finditer(r"case\s+(\w+):\s*return\s+(.+?),\s*true", dec):
        exact.append((_ty(m.group(1), env), _result_kind(m.group(2))))
    for m in re.finditer(r"if\s+\w+\.Type\s*==\s*(\w+)\s*\{(.*?)\n\t\}", dec, flags=re.S):
        body = m.group(2)
        if "PathError{" in body:
            exact.append((_ty(m.group(1), env), K_PATH))
        else:
            r = re.search(r"return\s+(.+?),\s*true", body)
            exact.append((_ty(m.group(1), env), _result_kind(r.group(1))))
    for m in re.finditer(r"if\s+strings\.HasPrefix\(\w+\.Type,\s*(\w+)\)\s*\{\s*return\s+(.+?),\s*true", dec):
        prefix.append((_ty(m.group(1), env), _result_kind(m.group(2))))
    last = re.search(r"\n\treturn\s+(.+?),\s*true\s*$", dec.rstrip())
    if last:
        if guard is None:
            raise ValueError("unguarded catch-all in decode of %s" % rel)
        prefix.append((guard, _result_kind(last.group(1))))
    if guard is not None:
        for ty, _k in exact + prefix:
            if not ty.startswith(guard):
                raise ValueError("decode case %r of %s is outside its guard %r" % (ty, rel, guard))
    n_true = len(re.findall(r",\s*true\b", dec))
    n_path_extra = sum(1 for _t, k in exact if k == K_PATH)  # the path block has two `, true` returns
    if len(exact) + len(prefix) + n_path_extra != n_true:
        raise ValueError("decode of %s has %d accepting returns, translator understood %d" % (
            rel, n_true, len(exact) + len(prefix) + n_path_extra))
    return parents, rules, exact, prefix, path_type


def consts(repo):
    parents, provs, path_type = [], [], None
    for rel, e, d in _PROVIDERS:
        ps, rules, exact, prefix, pt = _parse_provider(repo, rel, e, d)
        parents += ps
        provs.append((rules, exact, prefix))
        path_type = pt or path_type
    if path_type is None:
        raise ValueError("no PathError payload type found")
    um = _func_body(_strip_comments(open(os.path.join(repo, "x/go/errors/encode.go")).read()).replace(
        "func (p *Payload) Unmarshal(", "func Unmarshal("), "Unmarshal")
    if re.search(r'strings\.SplitN\(d,\s*"---",\s*2\)', um) and "len(a) != 2" in um:
        split_all = False
    elif re.search(r'strings\.Split\(d,\s*"---"\)', um) and "len(a) != 2" in um:
        split_all = True
    else:
        raise ValueError("Payload.Unmarshal has a shape the translator does not understand")
    if '"---"' not in open(os.path.join(repo, "x/go/errors/encode.go")).read().split("func (p Payload) Error()")[1].split("\n")[0]:
        raise ValueError("Payload.Error no longer joins with the separator")

    def s(x):
        return '"%s"' % x

    def lst(items):
        return "[" + "; ".join(items) + "]"
    out = ["(* Generated/Consts_C14.v — written by runner/props/C14.py consts() from the Go sources of the",
           "   error providers registered with x/go/errors (freighter/go/errors.go, x/go/query/errors.go,",
           "   x/go/control/authority.go, x/go/validate/errors.go) and x/go/errors/encode.go. Do not edit. *)",
           "From Coq Require Import List NArith String.", "Import ListNotations.",
           "Local Open Scope string_scope.", "Local Open Scope N_scope.", "",
           "(* sentinel kinds: " + " ".join("%d %s" % (v, k) for k, v in sorted(_SENT.items(), key=lambda kv: kv[1])) +
           " 13 validate.PathError 16 context.Canceled 17 context.DeadlineExceeded *)", "",
           "(* X = errors.Wrap(Y, ...) declarations: (X, Y) *)",
           "Definition parents : list (N * N) :=",
           "  " + lst("(%d, %d)" % p for p in sorted(set(parents))) + ".", "",
           "(* one entry per registered provider: encode rules in source order (sentinel tested with CheapIs,",
           "   payload type), decode exact-type cases, decode prefix fall-backs (0 = errors.New(data)) *)",
           "Definition providers : list (list (N * string) * list (string * N) * list (string * N)) :=",
           "  [ " + ";\n    ".join(
               "(%s,\n     %s,\n     %s)" % (lst("(%d, %s)" % (k, s(t)) for k, t in rules),
                                            lst("(%s, %d)" % (s(t), k) for t, k in exact),
                                            lst("(%s, %d)" % (s(t), k) for t, k in prefix))
               for rules, exact, prefix in provs) + " ].", "",
           "Definition path_type : string := %s." % s(path_type), "",
           '(* Payload.Unmarshal: true = strings.Split(d, "---") with len != 2 => unknown;',
           '   false = strings.SplitN(d, "---", 2) *)',
           "Definition unmarshal_split_all : bool := %s." % ("true" if split_all else "false"), ""]
    return "\n".join(out)
