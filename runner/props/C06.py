"""C06 — aspen replicas converge: same operations, any order, same state."""
import json
import re
from vlib import cN, cZ, cnat, clist, cbool, coq_print

PID = "C06"
MODULE, PKG, BIN = "aspen", "./verifh/c06", "c06"
COQ_IMPORTS = "From Synnax Require Import Common.Base Aspen.KV Monitors.Mon_C06."
CASE_TYPE = "case_t"
COUNTS = {"quick": 640, "thorough": 24000}
SHARD = 80
PROCS = 8
HARNESS_TIMEOUT = 900

RULE = ("four script families over 2-3 real kv.DB nodes (kv.Open pipelines, memkv engines, mock networks, gossip timer "
        "off, every message delivered by the script): (A) one coherent operation set (3 keys x leaseholders {4,5,6,7} (nodes outside the driven cluster) x "
        "versions 1-6, sets and deletes, >=40% with equal-version/different-leaseholder pairs) injected into every node "
        "in a different order, batching and duplication; (B) cluster life: writes/deletes through DB.Set/Delete (lease "
        "forwarding, explicit lease options, 15% with two nodes creating the same key), gossip rounds (reply read "
        "before or after ingestion), payload snapshots delivered late/duplicated/never, feedback delivered in any "
        "order or lost, restarts, start-up recovery split into high-water read and apply; (C) B followed by fair "
        "gossip sweeps until quiescence; (D) malformed: versions <= 0, leaseholder 0, incoherent duplicates, unknown "
        "senders/leaseholders/indices. Non-trivial = a key received >=2 competing operations on some node in a "
        "non-sorted order, a duplicate delivery was rejected, and a delete took part; distinct by hash.")
TRUSTED = ["hook aspen/internal/kv/export_verif.go (VerifRunSingleNodeRecovery = runSingleNodeRecovery, VerifReadDigest = "
           "getDigestFromKV, VerifSupersedes, VerifLoadHighWater)",
           "driver aspen/verifh/kvdrv: real kv.Open per node over memkv and freighter mock networks; gossip payloads are "
           "the real operation server's replies; feedback captured by a harness-owned client and delivered through the "
           "real feedback server; quiescence between steps by FIFO marker messages through the real pipeline"]
ASSUMES = ["operations are coherent: one (key, version, leaseholder) names one operation (versions come from the "
           "leaseholder's persisted counter)",
           "a DB.Set/Delete is atomic with respect to gossip ingestion on the same node (the window between lease "
           "allocation and persist is not modelled)",
           "multi-operation transactions through DB.OpenTx are not modelled (multi-operation gossip batches are)"]
PARTIAL = None
READY = False

KEYS = [1, 2, 3]
LHS = [4, 5, 6, 7]   # leaseholders of injected operations: nodes outside the driven cluster


# --------------------------------------------------------------------------- generator
def gen_opset(rng, n_ops=None):
    """a coherent set of operations: (k, ver, lh) unique"""
    n_ops = n_ops or rng.randrange(3, 9)
    seen = {}
    tries = 0
    while len(seen) < n_ops and tries < 100:
        tries += 1
        k = rng.choice(KEYS[:rng.choice([1, 2, 3])])
        ver = rng.randrange(1, 7)
        lh = rng.choice(LHS)
        if rng.random() < 0.45 and seen:
            # equal-version different-leaseholder pair with an existing op
            k0, v0, l0 = rng.choice(list(seen))
            k, ver = k0, v0
            lh = rng.choice([x for x in LHS if x != l0])
        if (k, ver, lh) in seen:
            continue
        d = rng.random() < 0.3
        seen[(k, ver, lh)] = {"k": k, "ver": ver, "lh": lh, "del": d, "v": 0 if d else rng.randrange(1, 90)}
    return list(seen.values())


def batches_of(rng, ops):
    """a random delivery of the op set: permutation, duplication, batching"""
    seq = list(ops)
    rng.shuffle(seq)
    for _ in range(rng.randrange(0, 4)):
        seq.insert(rng.randrange(0, len(seq) + 1), rng.choice(ops))
    out = []
    i = 0
    while i < len(seq):
        n = rng.choice([1, 1, 2, 3, 4])
        out.append(seq[i:i + n])
        i += n
    return out


def gen_A(rng):
    nodes = rng.choice([[1, 2], [1, 2, 3]])
    S = gen_opset(rng)
    per = {n: batches_of(rng, S) for n in nodes}
    ops = []
    while any(per.values()):
        n = rng.choice([x for x in nodes if per[x]])
        b = per[n].pop(0)
        ops.append({"op": "inject", "n": n, "sender": rng.choice(nodes + [9]), "batch": b})
        if rng.random() < 0.15:
            ops.append({"op": "fball"})
    return {"nodes": nodes, "T": rng.choice([1, 1, 2]), "ops": ops, "fam": "A"}


def rand_life_op(rng, nodes, owner, st, dual):
    x = rng.random()
    n = rng.choice(nodes)
    if x < 0.30:
        k = rng.choice(KEYS)
        if k not in owner:
            owner[k] = n
        elif not dual:
            # only the creator touches a key no other node has heard of yet
            if k not in st["known"].get(n, set()):
                n = owner[k]
        st["known"].setdefault(n, set()).add(k)
        if rng.random() < 0.25:
            return {"op": "del", "n": n, "k": k}
        lease = 0
        if rng.random() < 0.12:
            lease = rng.choice(nodes + [5])
        return {"op": "write", "n": n, "k": k, "v": rng.randrange(1, 90), "lease": lease}
    if x < 0.62:
        j = rng.choice([m for m in nodes if m != n])
        # after a round both sides may know every key
        st["known"].setdefault(j, set()).update(st["known"].get(n, set()))
        st["known"].setdefault(n, set()).update(st["known"].get(j, set()))
        return {"op": "round", "i": n, "j": j, "late": rng.random() < 0.4}
    if x < 0.70:
        return {"op": "snap", "n": n}
    if x < 0.78:
        return {"op": "deliver", "m": rng.randrange(0, 4), "n": n}
    if x < 0.87:
        return {"op": "fb", "f": rng.randrange(0, 8)}
    if x < 0.90:
        return {"op": "fball"}
    if x < 0.94:
        return {"op": "restart", "n": n}
    p = rng.choice([m for m in nodes if m != n])
    y = rng.random()
    if y < 0.5:
        return {"op": "recover", "n": n, "p": p}
    if y < 0.8:
        return {"op": "recbegin", "n": n, "p": p}
    return {"op": "recend", "n": n, "p": p}


def sweeps(nodes, T, rng, fair=True):
    ops = []
    pairs = [(a, b) for a in nodes for b in nodes if a != b]
    for r in range(T + 3):
        ps = list(pairs)
        rng.shuffle(ps)
        if not fair:
            ps = [p for p in ps if p[1] != nodes[-1] and p[0] != nodes[-1]] or ps
        for a, b in ps:
            ops.append({"op": "round", "i": a, "j": b, "late": rng.random() < 0.3})
        ops.append({"op": "fball"})
    return ops


def gen_B(rng, quiesce=False):
    nodes = rng.choice([[1, 2], [1, 2, 3], [1, 2, 3]])
    T = rng.choice([1, 1, 2])
    dual = rng.random() < 0.15
    owner, st = {}, {"known": {}}
    ops = []
    for _ in range(rng.randrange(5, 16) if not quiesce else rng.randrange(3, 9)):
        o = rand_life_op(rng, nodes, owner, st, dual)
        if quiesce and o["op"] in ("restart", "recover", "recbegin", "recend") and rng.random() < 0.7:
            continue
        ops.append(o)
    if quiesce:
        for n in nodes:
            for p in nodes:
                if p != n and rng.random() < 0.1:
                    ops.append({"op": "recend", "n": n, "p": p})
        ops += sweeps(nodes, T, rng, fair=rng.random() < 0.8)
    return {"nodes": nodes, "T": T, "ops": ops, "fam": "C" if quiesce else "B"}


def gen_E(rng):
    """a key is overwritten while feedback for its previous version is still on its way"""
    nodes = rng.choice([[1, 2], [1, 2], [1, 2, 3]])
    T = rng.choice([1, 1, 2])
    a = rng.choice(nodes)
    b = rng.choice([m for m in nodes if m != a])
    k = rng.choice(KEYS)
    ops = [{"op": "write", "n": a, "k": k, "v": rng.randrange(1, 90), "lease": 0}]
    if rng.random() < 0.3:
        ops.append({"op": "write", "n": rng.choice(nodes), "k": rng.choice(KEYS), "v": rng.randrange(1, 90), "lease": 0})
    nr = T + 2 + rng.randrange(0, 3)
    for _ in range(nr):
        ops.append({"op": "round", "i": a, "j": b, "late": rng.random() < 0.3})
    # deliver part of the feedback, overwrite, deliver the rest
    idx = list(range(0, 2 * nr + 2))
    rng.shuffle(idx)
    cut = rng.randrange(0, len(idx))
    for f in idx[:cut]:
        ops.append({"op": "fb", "f": f})
    ops.append({"op": rng.choice(["write", "write", "del"]), "n": rng.choice([a, a, b]), "k": k, "v": rng.randrange(1, 90), "lease": 0})
    if rng.random() < 0.5:
        for f in idx[cut:]:
            ops.append({"op": "fb", "f": f})
    else:
        ops.append({"op": "fball"})
    ops += sweeps(nodes, T, rng)
    return {"nodes": nodes, "T": T, "ops": ops, "fam": "E"}


def gen_F(rng):
    """restart + start-up recovery from one or two peers while gossip keeps arriving"""
    nodes = [1, 2, 3] if rng.random() < 0.75 else [1, 2]
    T = rng.choice([1, 2])
    owner, st = {}, {"known": {}}
    ops = []
    for _ in range(rng.randrange(2, 7)):
        o = rand_life_op(rng, nodes, owner, st, False)
        if o["op"] in ("write", "del", "round", "fball"):
            ops.append(o)
    n = rng.choice(nodes)
    peers = [m for m in nodes if m != n]
    rng.shuffle(peers)
    if rng.random() < 0.7:
        ops.append({"op": "restart", "n": n})
    begun = []
    for p in peers[:rng.choice([1, 1, 2])]:
        ops.append({"op": "recbegin", "n": n, "p": p})
        begun.append(p)
    for _ in range(rng.randrange(0, 4)):
        x = rng.random()
        if x < 0.5:
            i = rng.choice(peers)
            ops.append({"op": "round", "i": i, "j": n, "late": rng.random() < 0.3})
        elif x < 0.8:
            ops.append({"op": "write", "n": rng.choice(peers), "k": rng.choice(KEYS), "v": rng.randrange(1, 90), "lease": 0})
        else:
            ops.append(rand_life_op(rng, nodes, owner, st, False))
    rng.shuffle(begun)
    for p in begun:
        ops.append({"op": "recend", "n": n, "p": p})
    if rng.random() < 0.4:
        ops += sweeps(nodes, T, rng)
    return {"nodes": nodes, "T": T, "ops": ops, "fam": "F"}


def gen_G(rng):
    """two nodes create the same key; a third node's stale view forwards a write"""
    nodes = [1, 2, 3]
    T = rng.choice([1, 2])
    k = rng.choice(KEYS)
    a, b, c = rng.sample(nodes, 3)
    ops = []
    for _ in range(rng.randrange(0, 4)):
        ops.append({"op": "write", "n": a, "k": rng.choice([x for x in KEYS if x != k] or KEYS), "v": rng.randrange(1, 90), "lease": 0})
    ops.append({"op": "write", "n": a, "k": k, "v": rng.randrange(1, 90), "lease": 0})
    ops.append({"op": "write", "n": b, "k": k, "v": rng.randrange(1, 90), "lease": 0})
    tail = [{"op": "round", "i": b, "j": c, "late": False}, {"op": "round", "i": a, "j": b, "late": rng.random() < 0.5},
            {"op": rng.choice(["write", "del"]), "n": c, "k": k, "v": rng.randrange(1, 90), "lease": 0}]
    if rng.random() < 0.5:
        rng.shuffle(tail)
    ops += tail
    for _ in range(rng.randrange(0, 4)):
        ops.append(rand_life_op(rng, nodes, {}, {"known": {}}, True))
    if rng.random() < 0.4:
        ops += sweeps(nodes, T, rng)
    return {"nodes": nodes, "T": T, "ops": ops, "fam": "G"}


def gen_D(rng):
    c = gen_B(rng) if rng.random() < 0.5 else gen_A(rng)
    nodes = c["nodes"]
    for _ in range(rng.randrange(1, 4)):
        x = rng.random()
        pos = rng.randrange(0, len(c["ops"]) + 1)
        if x < 0.35:
            b = []
            for _ in range(rng.randrange(1, 4)):
                d = rng.random() < 0.3
                b.append({"k": rng.choice(KEYS), "ver": rng.choice([0, -1, -3, 1, 2, 2 ** 40]),
                          "lh": rng.choice([0, 6, 7, 4095] + ([1, 2] if rng.random() < 0.1 else [])), "del": d, "v": 0 if d else rng.randrange(1, 90)})
            o = {"op": "inject", "n": rng.choice(nodes), "sender": rng.choice(nodes + [0, 9]), "batch": b}
        elif x < 0.55:
            # incoherent duplicates: same (k, ver, lh), different payload, same batch or not
            k, ver, lh = rng.choice(KEYS), rng.randrange(1, 4), rng.choice(LHS)
            b = [{"k": k, "ver": ver, "lh": lh, "del": False, "v": 11}, {"k": k, "ver": ver, "lh": lh, "del": rng.random() < 0.5, "v": 0}]
            if not b[1]["del"]:
                b[1]["v"] = 12
            o = {"op": "inject", "n": rng.choice(nodes), "sender": rng.choice(nodes), "batch": b}
        elif x < 0.7:
            o = {"op": "write", "n": rng.choice(nodes), "k": rng.choice(KEYS), "v": 5, "lease": rng.choice([5, 9, 4095])}
        elif x < 0.8:
            o = {"op": "deliver", "m": rng.choice([7, 50]), "n": rng.choice(nodes)}
        elif x < 0.9:
            o = {"op": "fb", "f": rng.choice([30, 99])}
        else:
            o = {"op": rng.choice(["write", "del", "restart", "snap"]), "n": 8, "k": 1, "v": 1, "lease": 0}
        c["ops"].insert(pos, o)
    c["fam"] = "D"
    return c


def gen_cases(rng, tier, n):
    out = []
    for i in range(n):
        x = rng.random()
        if x < 0.30:
            out.append(gen_A(rng))
        elif x < 0.50:
            out.append(gen_B(rng))
        elif x < 0.62:
            out.append(gen_B(rng, quiesce=True))
        elif x < 0.72:
            out.append(gen_E(rng))
        elif x < 0.82:
            out.append(gen_F(rng))
        elif x < 0.88:
            out.append(gen_G(rng))
        else:
            out.append(gen_D(rng))
    return out


def fixup(case):
    return case


# --------------------------------------------------------------------------- Coq terms
def c_op(it):
    return "(Op %s %s %s %s %s)" % (cN(it["k"]), cZ(it["ver"]), cN(it["lh"]), cbool(it["del"]), cN(0 if it["del"] else it["v"]))


def c_step(o):
    t = o["op"]
    if t == "write":
        return "SWrite %s %s %s %s" % (cN(o["n"]), cN(o["k"]), cN(o["v"]), cN(o.get("lease", 0)))
    if t == "del":
        return "SDel %s %s" % (cN(o["n"]), cN(o["k"]))
    if t == "inject":
        return "SInject %s %s %s" % (cN(o["n"]), cN(o.get("sender", 0)), clist([c_op(i) for i in o["batch"]]))
    if t == "snap":
        return "SSnap %s" % cN(o["n"])
    if t == "deliver":
        return "SDeliver %s %s" % (cnat(o["m"]), cN(o["n"]))
    if t == "round":
        return "SRound %s %s %s" % (cN(o["i"]), cN(o["j"]), cbool(o.get("late", False)))
    if t == "fb":
        return "SFb %s" % cnat(o["f"])
    if t == "fball":
        return "SFbAll"
    if t == "restart":
        return "SRestart %s" % cN(o["n"])
    if t == "recbegin":
        return "SRecBegin %s %s" % (cN(o["n"]), cN(o["p"]))
    if t == "recend":
        return "SRecEnd %s %s" % (cN(o["n"]), cN(o["p"]))
    if t == "recover":
        return "SRecover %s %s" % (cN(o["n"]), cN(o["p"]))
    if t == "sub":
        return "SSub %s %s %s" % (cN(o["n"]), cN(o["s"]), cbool(o.get("filter", False)))
    raise ValueError(t)


def c_obs(d):
    nodes = []
    for n in d["nodes"]:
        eng = clist(["REng %s %s %s %s %s %s %s" % (cN(r[0]), cbool(r[1]), cN(max(r[2], 0)) if r[2] >= 0 else cN(2 ** 62),
                                                  cN(r[3]), cZ(r[4]), cN(r[5]), cbool(r[6])) for r in n["eng"]])
        st = clist(["Op %s %s %s %s %s" % (cN(r[0]), cZ(r[1]), cN(r[2]), cbool(r[3]), cN(r[4]) if r[4] >= 0 else cN(2 ** 62)) for r in n["st"]])
        nodes.append("RNode %s %s %s %s" % (cN(n["n"]), cZ(n["ctr"]), eng, st))
    fbs = []
    for f in d["fbs"]:
        digs = clist(["Op %s %s %s %s 0%%N" % (cN(r[0]), cZ(r[1]), cN(r[2]), cbool(r[3])) for r in f["digs"]])
        fbs.append("RFb %s %s %s %s" % (cN(f["dest"]), cN(f["from"]), cbool(f["done"]), digs))
    return "Obs %s %s %s" % (cN(d["rc"]), clist(nodes), clist(fbs))


def eff_T(case):
    return max(1, int(case.get("T", 1)))


def to_coq(case, r):
    steps = ["(%s, %s)" % (c_step(o), c_obs(d)) for o, d in zip(case["ops"], r["outs"])]
    return "Case %s %s %s" % (clist([cN(n) for n in case["nodes"]]), cN(eff_T(case)), clist(steps))


def harness_violation(case, r):
    if r.get("panic"):
        return "panic: " + r["panic"]
    if r.get("hang"):
        return "hang (pipeline did not quiesce): " + r["hang"]
    if len(r.get("outs", [])) != len(case["ops"]):
        return "harness returned %d dumps for %d ops" % (len(r.get("outs", [])), len(case["ops"]))
    return None


# --------------------------------------------------------------------------- coverage
def nontrivial(case, r):
    outs = r.get("outs") or []
    if not outs:
        return False
    has_del = False
    dup_rejected = False
    competing = False
    prev_fb = 0
    for o, d in zip(case["ops"], outs):
        if len(d["fbs"]) > prev_fb:
            dup_rejected = True
        prev_fb = len(d["fbs"])
        if o["op"] == "del" or (o["op"] == "inject" and any(i["del"] for i in o["batch"])):
            has_del = True
    # competing: some engine row changed digest twice or more over the script
    hist = {}
    for d in outs:
        for n in d["nodes"]:
            for row in n["eng"]:
                key = (n["n"], row[0])
                h = hist.setdefault(key, [])
                cur = (row[4], row[5])
                if not h or h[-1] != cur:
                    h.append(cur)
    competing = any(len(h) >= 2 for h in hist.values())
    return has_del and dup_rejected and competing


def histogram(case, r):
    ks = ["family=" + case.get("fam", "?"), "nodes=%d" % len(case["nodes"]), "T=%d" % eff_T(case)]
    for o in case["ops"]:
        ks.append("op=" + o["op"])
    outs = r.get("outs") or []
    if outs:
        last = outs[-1]
        if all(not n["st"] for n in last["nodes"]):
            ks.append("final_state_quiescent")
        if any(d["rc"] != 0 for d in outs):
            ks.append("op_returned_error")
    return ks


def neighbours(case, rng):
    out = []
    ops = case["ops"]
    for i in range(len(ops)):
        c = json.loads(json.dumps(case))
        del c["ops"][i]
        out.append(c)
    for i in range(len(ops)):
        c = json.loads(json.dumps(case))
        c["ops"].insert(i, json.loads(json.dumps(ops[i])))
        out.append(c)
    nodes = case["nodes"]
    for a in nodes:
        for b in nodes:
            if a != b:
                c = json.loads(json.dumps(case))
                c["ops"] += sweeps(nodes, eff_T(case), rng)
                out.append(c)
                break
        break
    return out[:60]


_TAG_CACHE = {}


def kinds(case, r):
    """violation codes of the Coq monitor on this case (see Mon_C06.violation_kinds)"""
    key = json.dumps([case.get("nodes"), case.get("T"), case.get("ops"), r.get("outs")], sort_keys=True)
    if key in _TAG_CACHE:
        return _TAG_CACHE[key]
    out = coq_print(PID, COQ_IMPORTS, "Definition K := Eval vm_compute in violation_kinds (%s).\nPrint K." % to_coq(case, r))
    m = re.search(r"K\s*=\s*\[(.*?)\]", out.replace("\n", " "))
    ks = []
    if m and m.group(1).strip():
        ks = [int(x.replace("%N", "").strip()) for x in m.group(1).split(";")]
    _TAG_CACHE[key] = ks
    return ks


def tags(case, r):
    if not r or harness_violation(case, r):
        return set()
    return {"C06:%d" % k for k in kinds(case, r)}


def model_dump(case, r):
    t = to_coq(case, r)
    return coq_print(PID, COQ_IMPORTS, "Eval vm_compute in model_dump (%s)." % t)[-8000:]


TECHNIQUE = "Coq proof (LWW join: permutation/duplication/batching independence by induction; LTS invariant) + model/impl correspondence by vm_compute"
DESIGN_REF = "DESIGN.md §8 C06"
LEVEL_TEXT = "(under construction)"
LEVEL_NOTE = "(under construction)"
