"""C06 — aspen replicas converge: same operations, any order, same state."""
import json
import random
import re
from vlib import cN, cZ, cnat, clist, cbool, coq_print
import vlib

PID = "C06"
MODULE, PKG, BIN = "aspen", "./verifh/c06", "c06"
COQ_IMPORTS = "From Synnax Require Import Common.Base Aspen.KV Monitors.Mon_C06."
CASE_TYPE = "case_t"
COUNTS = {"quick": 480, "thorough": 12000}
EXTRA_COUNTS = {"quick": 200, "thorough": 3000}
SHARD = 60
PROCS = 8
HARNESS_TIMEOUT = 900

RULE = ("scripts over 2-3 real kv.DB nodes (kv.Open pipelines, memkv engines, mock networks, gossip timer off, every "
        "message delivered by the script). Main batch = the space where the full statement is proved: (A) one coherent "
        "operation set (3 keys x foreign leaseholders {4..7} x versions 1-6, sets and deletes, >=40% equal-version/"
        "different-leaseholder pairs) injected into every node in a different order, batching and duplication; (B) "
        "cluster life with one creator per key: DB.Set/Delete on the creator, DB.Set with a lease option from other "
        "nodes (forwarding), gossip rounds (reply read before or after ingestion), payload snapshots delivered late/"
        "duplicated/never, feedback in any order or lost, back-to-back recovery; (C) B + fair gossip sweeps to "
        "quiescence; (E) a key overwritten while feedback for its previous version is in flight, then sweeps; (D) "
        "malformed: versions <= 0, leaseholder 0/4095, incoherent duplicates, unknown senders/leaseholders/indices. 25% of "
        "the scripts add storage faults: the node's engine (wrapped) refuses to commit the next ingress transaction that "
        "wrote something, or the Set of one key's value / digest inside it, usually followed by the same delivery again; "
        "30% of the one-creator scripts contain a DB.Set/Delete during which the leaseholder cannot flush its version "
        "counter (not acknowledged; that node's kv layer is then reopened and the key written again). "
        "Extra phase = the space of the known findings, each family with the only codes it may produce: two creators "
        "of one key (G, Bd, D2), recovery split from its high-water read / two peers / restarts (F, R), unfair sweeps "
        "on 3 nodes (U). Non-trivial = some key changed its digest at least twice on one node, a redelivery was "
        "rejected (feedback produced) and a delete took part; distinct by hash.")
TRUSTED = ["hook aspen/internal/kv/export_verif.go (VerifRunSingleNodeRecovery = runSingleNodeRecovery, VerifReadDigest = "
           "getDigestFromKV, VerifSupersedes, VerifLoadHighWater)",
           "driver aspen/verifh/kvdrv: real kv.Open per node over memkv and freighter mock networks; gossip payloads are "
           "the real operation server's replies; feedback captured by a harness-owned client and delivered through the "
           "real feedback server; quiescence between steps by FIFO marker messages through the real pipeline (no sleeps)"]
ASSUMES = ["operations are coherent: one (key, version, leaseholder) names one operation (versions come from the "
           "leaseholder's persisted counter); injected operations never name a cluster node with a version it has not "
           "assigned",
           "a DB.Set/Delete is atomic with respect to gossip ingestion on the same node (the window between lease "
           "allocation and persist is not modelled)",
           "multi-operation transactions through DB.OpenTx are not modelled (multi-operation gossip batches are)"]

KEYS = [1, 2, 3]
XKEYS = [4, 5]            # keys only injected operations use inside cluster-life scripts
LHS = [4, 5, 6, 7]        # leaseholders of injected operations: nodes outside the driven cluster

# violation codes (Mon_C06.violation_kinds) -> known-finding tag
CODE_TAG = {11: "C06:leasepath_overwrites_other_leader", 21: "C06:leasepath_overwrites_other_leader",
            12: "C06:recovery_overwrites_newer", 22: "C06:recovery_overwrites_newer",
            31: "C06:restart_drops_infected", 33: "C06:sir_stops_before_all_peers"}
# the only codes a family of the extra phase may produce
ALLOWED = {"G": {11, 21}, "Bd": {11, 21, 12, 22, 33}, "D2": {11, 21, 12, 22, 33}, "F": {12, 22, 31, 33}, "R": {31}, "U": {33}, "Q3": {33}}


# --------------------------------------------------------------------------- generator
def gen_opset(rng, n_ops=None, keys=KEYS):
    """a coherent set of operations: (k, ver, lh) unique"""
    n_ops = n_ops or rng.randrange(3, 9)
    seen = {}
    tries = 0
    while len(seen) < n_ops and tries < 100:
        tries += 1
        k = rng.choice(keys[:rng.choice([1, 2, 3])])
        ver = rng.randrange(1, 7)
        lh = rng.choice(LHS)
        if rng.random() < 0.45 and seen:
            k0, v0, l0 = rng.choice(list(seen))
            k, ver = k0, v0
            lh = rng.choice([x for x in LHS if x != l0])
        if (k, ver, lh) in seen:
            continue
        d = rng.random() < 0.3
        seen[(k, ver, lh)] = {"k": k, "ver": ver, "lh": lh, "del": d, "v": 0 if d else rng.randrange(1, 90)}
    return list(seen.values())


def batches_of(rng, ops):
    """a random delivery of the op set: permutation, duplication, batching"""
    seq = list(ops)
    rng.shuffle(seq)
    for _ in range(rng.randrange(0, 4)):
        seq.insert(rng.randrange(0, len(seq) + 1), rng.choice(ops))
    out = []
    i = 0
    while i < len(seq):
        n = rng.choice([1, 1, 2, 3, 4])
        out.append(seq[i:i + n])
        i += n
    return out


def gen_A(rng):
    nodes = rng.choice([[1, 2], [1, 2, 3]])
    S = gen_opset(rng)
    per = {n: batches_of(rng, S) for n in nodes}
    ops = []
    while any(per.values()):
        n = rng.choice([x for x in nodes if per[x]])
        b = per[n].pop(0)
        ops.append({"op": "inject", "n": n, "sender": rng.choice(nodes + [9]), "batch": b})
        if rng.random() < 0.15:
            ops.append({"op": "fball"})
    return {"nodes": nodes, "T": rng.choice([1, 1, 2]), "ops": ops, "fam": "A"}


def life_op(rng, nodes, owner, mode):
    """mode: 'one' = one creator per key (guarded space), 'dual' = any node may create any key"""
    x = rng.random()
    n = rng.choice(nodes)
    if x < 0.32:
        k = rng.choice(KEYS)
        if mode == "one":
            own = owner.setdefault(k, n)
            if rng.random() < 0.25:
                return {"op": "del", "n": own, "k": k, "own": True}
            if n != own and rng.random() < 0.35:
                # the creator writes, gossips to n, then n writes without a lease option: n holds the
                # digest for sure, so the write must be forwarded to the creator
                return [{"op": "write", "n": own, "k": k, "v": rng.randrange(1, 90), "lease": 0},
                        {"op": "round", "i": own, "j": n, "late": rng.random() < 0.3},
                        {"op": rng.choice(["write", "write", "del"]), "n": n, "k": k, "v": rng.randrange(1, 90), "lease": 0}]
            if n != own and rng.random() < 0.8:
                # another node writes through the creator: explicit lease option
                return {"op": "write", "n": n, "k": k, "v": rng.randrange(1, 90), "lease": own}
            return {"op": "write", "n": own, "k": k, "v": rng.randrange(1, 90), "lease": rng.choice([0, 0, own]), "own": True}
        if rng.random() < 0.25:
            return {"op": "del", "n": n, "k": k}
        return {"op": "write", "n": n, "k": k, "v": rng.randrange(1, 90),
                "lease": rng.choice(nodes + [5]) if rng.random() < 0.12 else 0}
    if x < 0.64:
        j = rng.choice([m for m in nodes if m != n])
        return {"op": "round", "i": n, "j": j, "late": rng.random() < 0.4}
    if x < 0.72:
        return {"op": "snap", "n": n}
    if x < 0.80:
        return {"op": "deliver", "m": rng.randrange(0, 4), "n": n}
    if x < 0.90:
        return {"op": "fb", "f": rng.randrange(0, 8)}
    if x < 0.94:
        return {"op": "fball"}
    p = rng.choice([m for m in nodes if m != n])
    return {"op": "recover", "n": n, "p": p}


def life_ops(rng, nodes, owner, mode, n):
    out = []
    for _ in range(n):
        o = life_op(rng, nodes, owner, mode)
        out += o if isinstance(o, list) else [o]
    return out


def sweeps(nodes, T, rng, skip=None):
    ops = []
    pairs = [(a, b) for a in nodes for b in nodes if a != b]
    for r in range(T + 3):
        ps = list(pairs)
        rng.shuffle(ps)
        if skip is not None:
            ps = [p for p in ps if skip not in p]
        for a, b in ps:
            ops.append({"op": "round", "i": a, "j": b, "late": rng.random() < 0.3})
        ops.append({"op": "fball"})
    return ops


def gen_B(rng, quiesce=False, mode="one", nodes=None):
    """quiescing scripts of the main batch use two nodes (on three, SIR may stop early: family Q3);
    three-node scripts without sweeps end with a write, so their final state is never quiescent"""
    if nodes is None:
        nodes = [1, 2] if quiesce else rng.choice([[1, 2], [1, 2, 3], [1, 2, 3]])
    T = rng.choice([1, 1, 2])
    owner = {}
    ops = life_ops(rng, nodes, owner, mode, rng.randrange(5, 16) if not quiesce else rng.randrange(3, 10))
    if quiesce:
        ops += sweeps(nodes, T, rng)
    elif len(nodes) > 2:
        k = rng.choice(KEYS)
        own = owner.setdefault(k, rng.choice(nodes))
        ops.append({"op": "write", "n": own, "k": k, "v": rng.randrange(1, 90), "lease": 0})
    fam = ("C" if quiesce else "B") if mode == "one" else "Bd"
    return {"nodes": nodes, "T": T, "ops": ops, "fam": fam}


def gen_E(rng, nodes=None):
    """a key is overwritten while feedback for its previous version is still on its way"""
    nodes = nodes or [1, 2]
    T = rng.choice([1, 1, 2])
    a = rng.choice(nodes)
    b = rng.choice([m for m in nodes if m != a])
    k = rng.choice(KEYS)
    ops = [{"op": "write", "n": a, "k": k, "v": rng.randrange(1, 90), "lease": 0}]
    if rng.random() < 0.3:
        k2 = rng.choice([x for x in KEYS if x != k])
        ops.append({"op": "write", "n": a, "k": k2, "v": rng.randrange(1, 90), "lease": 0})
    nr = T + 2 + rng.randrange(0, 3)
    for _ in range(nr):
        ops.append({"op": "round", "i": a, "j": b, "late": rng.random() < 0.3})
    idx = list(range(0, 2 * nr + 2))
    rng.shuffle(idx)
    cut = rng.randrange(0, len(idx))
    for f in idx[:cut]:
        ops.append({"op": "fb", "f": f})
    w = rng.choice([a, a, b])
    if rng.random() < 0.3:
        ops.append({"op": "del", "n": a, "k": k})
    else:
        ops.append({"op": "write", "n": w, "k": k, "v": rng.randrange(1, 90), "lease": a})
    if rng.random() < 0.5:
        for f in idx[cut:]:
            ops.append({"op": "fb", "f": f})
    else:
        ops.append({"op": "fball"})
    ops += sweeps(nodes, T, rng)
    return {"nodes": nodes, "T": T, "ops": ops, "fam": "E"}


def malform(rng, c, shared_keys):
    nodes = c["nodes"]
    keys = KEYS if shared_keys else XKEYS
    for _ in range(rng.randrange(1, 4)):
        x = rng.random()
        pos = rng.randrange(0, len(c["ops"]) + 1)
        if x < 0.35:
            b = []
            for _ in range(rng.randrange(1, 4)):
                d = rng.random() < 0.3
                b.append({"k": rng.choice(keys), "ver": rng.choice([0, -1, -3, 1, 2, 2 ** 40]),
                          "lh": rng.choice([0, 6, 7, 4095]), "del": d, "v": 0 if d else rng.randrange(1, 90)})
            o = {"op": "inject", "n": rng.choice(nodes), "sender": rng.choice(nodes + [0, 9]), "batch": b}
        elif x < 0.55:
            k, ver, lh = rng.choice(keys), rng.randrange(1, 4), rng.choice(LHS)
            b = [{"k": k, "ver": ver, "lh": lh, "del": False, "v": 11}, {"k": k, "ver": ver, "lh": lh, "del": rng.random() < 0.5, "v": 0}]
            if not b[1]["del"]:
                b[1]["v"] = 12
            o = {"op": "inject", "n": rng.choice(nodes), "sender": rng.choice(nodes), "batch": b}
        elif x < 0.7:
            o = {"op": "write", "n": rng.choice(nodes), "k": rng.choice(XKEYS), "v": 5, "lease": rng.choice([5, 9, 4095])}
        elif x < 0.8:
            o = {"op": "deliver", "m": rng.choice([7, 50]), "n": rng.choice(nodes)}
        elif x < 0.9:
            o = {"op": "fb", "f": rng.choice([30, 99])}
        else:
            o = {"op": rng.choice(["write", "del", "restart", "snap"]), "n": 8, "k": 1, "v": 1, "lease": 0}
        c["ops"].insert(pos, o)
    return c


def gen_D(rng):
    base = gen_B(rng) if rng.random() < 0.5 else gen_A(rng)
    shared = base["fam"] == "A"
    c = malform(rng, base, shared_keys=shared)
    if len(c["nodes"]) > 2 and not shared:
        c["ops"].append({"op": "write", "n": 1, "k": 6, "v": 1, "lease": 0})
    c["fam"] = "D"
    return c


def gen_cases(rng, tier, n):
    out = []
    for i in range(n):
        x = rng.random()
        if x < 0.34:
            out.append(gen_A(rng))
        elif x < 0.56:
            out.append(gen_B(rng))
        elif x < 0.70:
            out.append(gen_B(rng, quiesce=True))
        elif x < 0.86:
            out.append(gen_E(rng))
        else:
            out.append(gen_D(rng))
    return [add_cancels(rng, add_faults(rng, add_ctrfaults(rng, c))) for c in out]


# ---- families of the extra phase (known-finding space)
def gen_F(rng):
    """restart + start-up recovery from one or two peers while gossip keeps arriving"""
    nodes = [1, 2, 3] if rng.random() < 0.75 else [1, 2]
    T = rng.choice([1, 2])
    owner = {}
    ops = []
    for o in life_ops(rng, nodes, owner, "one", rng.randrange(2, 7)):
        if o["op"] in ("write", "del", "round", "fball"):
            ops.append(o)
    n = rng.choice(nodes)
    peers = [m for m in nodes if m != n]
    rng.shuffle(peers)
    if rng.random() < 0.7:
        ops.append({"op": "restart", "n": n})
    begun = []
    for p in peers[:rng.choice([1, 1, 2])]:
        ops.append({"op": "recbegin", "n": n, "p": p})
        begun.append(p)
    for _ in range(rng.randrange(1, 5)):
        x = rng.random()
        if x < 0.45:
            ops.append({"op": "round", "i": rng.choice(peers), "j": n, "late": rng.random() < 0.3})
        elif x < 0.85:
            k = rng.choice(list(owner) or KEYS)
            own = owner.setdefault(k, rng.choice(peers))
            ops.append({"op": "write", "n": own, "k": k, "v": rng.randrange(1, 90), "lease": 0})
        else:
            ops += life_ops(rng, nodes, owner, "one", 1)
    rng.shuffle(begun)
    for p in begun:
        ops.append({"op": "recend", "n": n, "p": p})
    if rng.random() < 0.4:
        ops += sweeps(nodes, T, rng)
    return {"nodes": nodes, "T": T, "ops": ops, "fam": "F"}


def gen_G(rng):
    """two nodes create the same key; a third node's stale view forwards a write"""
    nodes = [1, 2, 3]
    T = rng.choice([1, 2])
    k = rng.choice(KEYS)
    a, b, c = rng.sample(nodes, 3)
    ops = []
    for _ in range(rng.randrange(0, 4)):
        ops.append({"op": "write", "n": a, "k": rng.choice([x for x in KEYS if x != k]), "v": rng.randrange(1, 90), "lease": 0})
    ops.append({"op": "write", "n": a, "k": k, "v": rng.randrange(1, 90), "lease": 0})
    ops.append({"op": "write", "n": b, "k": k, "v": rng.randrange(1, 90), "lease": 0})
    tail = [{"op": "round", "i": b, "j": c, "late": False}, {"op": "round", "i": a, "j": b, "late": rng.random() < 0.5},
            {"op": rng.choice(["write", "del"]), "n": c, "k": k, "v": rng.randrange(1, 90), "lease": 0}]
    if rng.random() < 0.5:
        rng.shuffle(tail)
    ops += tail
    return {"nodes": nodes, "T": T, "ops": ops, "fam": "G"}


def gen_R(rng):
    """cluster life with restarts, then fair sweeps"""
    c = gen_B(rng, quiesce=False)
    nodes = c["nodes"]
    for _ in range(rng.randrange(1, 3)):
        c["ops"].insert(rng.randrange(0, len(c["ops"]) + 1), {"op": "restart", "n": rng.choice(nodes)})
    if rng.random() < 0.7:
        c["ops"] += sweeps(nodes, c["T"], rng)
    c["fam"] = "R"
    return c


def gen_U(rng):
    """three nodes, sweeps that leave one node out"""
    c = gen_B(rng, quiesce=False)
    c["nodes"] = [1, 2, 3]
    c["ops"] += sweeps(c["nodes"], c["T"], rng, skip=rng.choice(c["nodes"]))
    c["fam"] = "U"
    return c


def gen_extra(rng, n):
    out = []
    for i in range(n):
        x = rng.random()
        if x < 0.2:
            out.append(gen_G(rng))
        elif x < 0.35:
            out.append(gen_B(rng, quiesce=rng.random() < 0.4, mode="dual"))
        elif x < 0.45:
            c = malform(rng, gen_B(rng), shared_keys=True)
            c["fam"] = "D2"
            out.append(c)
        elif x < 0.75:
            out.append(gen_F(rng))
        elif x < 0.87:
            out.append(gen_R(rng))
        elif x < 0.94:
            out.append(gen_U(rng))
        else:
            c = gen_E(rng, nodes=[1, 2, 3]) if rng.random() < 0.5 else gen_B(rng, quiesce=True, nodes=[1, 2, 3])
            c["fam"] = "Q3"
            out.append(c)
    return out


def _w(n, k, v, lease=0):
    return {"op": "write", "n": n, "k": k, "v": v, "lease": lease}


def _r(i, j, late=False):
    return {"op": "round", "i": i, "j": j, "late": late}


# The refutation witnesses of Aspen/KVWitness.v, replayed on the real nodes in every run
# (name, expected monitor code, case).
WITNESSES = [
    ("leaseholder_path_two_creators", 11, {"nodes": [1, 2, 3], "T": 2, "fam": "G", "ops": [
        _w(2, 2, 55), _w(2, 2, 85), _w(2, 1, 23), _w(3, 1, 44), _r(3, 1), _r(2, 3), _w(1, 1, 69)]}),
    ("recovery_split_from_high_water_read", 12, {"nodes": [1, 2, 3], "T": 1, "fam": "F", "ops": [
        _w(1, 1, 10), _r(1, 2), _w(1, 1, 11), {"op": "recbegin", "n": 3, "p": 2}, _r(1, 3), {"op": "recend", "n": 3, "p": 2}]}),
    ("recovery_two_peers", 12, {"nodes": [1, 2, 3], "T": 1, "fam": "F", "ops": [
        _w(1, 1, 10), _r(1, 2), _w(1, 1, 11), {"op": "recbegin", "n": 3, "p": 1}, {"op": "recbegin", "n": 3, "p": 2},
        {"op": "recend", "n": 3, "p": 1}, {"op": "recend", "n": 3, "p": 2}]}),
    ("restart_drops_gossip_store", 31, {"nodes": [1, 2], "T": 1, "fam": "R", "ops": [
        _w(1, 1, 10), {"op": "restart", "n": 1}, _r(1, 2), _r(2, 1)]}),
    ("sir_three_nodes", 33, {"nodes": [1, 2, 3], "T": 1, "fam": "U", "ops": [
        _w(1, 1, 10), _r(1, 2), _r(1, 2), _r(1, 2), _r(1, 2), {"op": "fball"}, _r(2, 1), _r(2, 1), _r(2, 1), {"op": "fball"},
        _r(1, 3), _r(2, 3), _r(3, 1), _r(3, 2)]}),
]


def fixup(case):
    """a `fail` op only means something right before an ingesting op"""
    ops = case["ops"]
    keep = [o for i, o in enumerate(ops)
            if o["op"] != "fail" or (i + 1 < len(ops) and ops[i + 1]["op"] in INGEST)]
    if len(keep) != len(ops):
        case = dict(case)
        case["ops"] = keep
    return case


def add_cancels(rng, c, p=0.3):
    """a share of the DB.Set/Delete calls run under a per-call context that the caller cancels right
    after the call returned; the model ignores it: it must have no effect"""
    if rng.random() > p:
        return c
    for o in c["ops"]:
        if o["op"] in ("write", "del") and rng.random() < 0.4:
            o["cancel"] = True
    return c


def add_ctrfaults(rng, c, p=0.3):
    """the leaseholder cannot flush its version counter during a write it issues on its own key: the
    write is not acknowledged; the step reopens that node's kv layer; the same key is written again"""
    if c.get("fam") != "B" or rng.random() > p:
        return c
    ops = []
    hit = False
    for o in c["ops"]:
        if o.get("own") and o["op"] in ("write", "del") and rng.random() < 0.3:
            f = json.loads(json.dumps(o))
            f["ctrfail"] = True
            ops.append(f)
            hit = True
            if rng.random() < 0.7:
                ops.append({"op": "write", "n": o["n"], "k": o["k"], "v": rng.randrange(1, 90), "lease": 0, "own": True})
            continue
        ops.append(o)
    if hit:
        # the step restarts a node: keep the final state non-quiescent (see gen_B)
        last = [o for o in ops if o.get("own") and o["op"] == "write"]
        if last:
            ops.append({"op": "write", "n": last[-1]["n"], "k": last[-1]["k"], "v": rng.randrange(1, 90), "lease": 0})
    c["ops"] = ops
    return c


def add_faults(rng, c, p=0.25):
    """storage faults: the engine refuses to commit the next ingress transaction of a node"""
    if rng.random() > p:
        return c
    ops = []
    for o in c["ops"]:
        if o["op"] in INGEST and rng.random() < 0.25:
            tgt = o["n"] if o["op"] != "round" else rng.choice([o["i"], o["j"]])
            if rng.random() < 0.08:
                tgt = rng.choice(c["nodes"] + [8])
            f = {"op": "fail", "n": tgt}
            if rng.random() < 0.5:
                # the Set of one key's value or digest fails instead of the commit
                ks = [it["k"] for it in o["batch"]] if o["op"] == "inject" else KEYS
                f["k"] = rng.choice(ks + [rng.choice(KEYS + XKEYS)])
                f["what"] = rng.choice(["val", "dig"])
            ops.append(f)
            ops.append(o)
            if rng.random() < 0.6:
                ops.append(json.loads(json.dumps(o)))      # at-least-once: the same delivery again
        else:
            ops.append(o)
    c["ops"] = ops
    return c


# --------------------------------------------------------------------------- Coq terms
def c_op(it):
    return "(Op %s %s %s %s %s)" % (cN(it["k"]), cZ(it["ver"]), cN(it["lh"]), cbool(it["del"]), cN(0 if it["del"] else it["v"]))


def c_step(o):
    t = o["op"]
    if t in ("write", "del") and o.get("ctrfail"):
        return "SWriteCF %s %s %s %s" % (cN(o["n"]), cN(o["k"]), cN(o.get("lease", 0) if t == "write" else 0), cbool(t == "del"))
    if t == "write":
        return "SWrite %s %s %s %s" % (cN(o["n"]), cN(o["k"]), cN(o["v"]), cN(o.get("lease", 0)))
    if t == "del":
        return "SDel %s %s" % (cN(o["n"]), cN(o["k"]))
    if t == "inject":
        return "SInject %s %s %s" % (cN(o["n"]), cN(o.get("sender", 0)), clist([c_op(i) for i in o["batch"]]))
    if t == "snap":
        return "SSnap %s" % cN(o["n"])
    if t == "deliver":
        return "SDeliver %s %s" % (cnat(o["m"]), cN(o["n"]))
    if t == "round":
        return "SRound %s %s %s" % (cN(o["i"]), cN(o["j"]), cbool(o.get("late", False)))
    if t == "fb":
        return "SFb %s" % cnat(o["f"])
    if t == "fball":
        return "SFbAll"
    if t == "restart":
        return "SRestart %s" % cN(o["n"])
    if t == "recbegin":
        return "SRecBegin %s %s" % (cN(o["n"]), cN(o["p"]))
    if t == "recend":
        return "SRecEnd %s %s" % (cN(o["n"]), cN(o["p"]))
    if t == "recover":
        return "SRecover %s %s" % (cN(o["n"]), cN(o["p"]))
    if t == "sub":
        return "SSub %s %s %s" % (cN(o["n"]), cN(o["s"]), cbool(o.get("filter", False)))
    if t in ("unsub_begin", "unsub_end"):
        # the model: the subscriber is gone from the first of the two on; nobody else is affected
        return "SStall %s %s" % (cN(o["n"]), cN(o["s"]))
    if t == "stall":
        return "SStall %s %s" % (cN(o["n"]), cN(o["s"]))
    raise ValueError(t)


BIG = 2 ** 62


def c_obs(d):
    nodes = []
    for n in d["nodes"]:
        eng = clist(["REng %s %s %s %s %s %s %s" % (cN(r[0]), cbool(r[1]), cN(r[2] if r[2] >= 0 else BIG),
                                                  cN(r[3]), cZ(r[4]), cN(r[5]), cbool(r[6])) for r in n["eng"]])
        st = clist(["Op %s %s %s %s %s" % (cN(r[0]), cZ(r[1]), cN(r[2]), cbool(r[3]), cN(r[4] if r[4] >= 0 else BIG)) for r in n["st"]])
        nodes.append("RNode %s %s %s %s" % (cN(n["n"]), cZ(n["ctr"]), eng, st))
    fbs = []
    for f in d["fbs"]:
        digs = clist(["Op %s %s %s %s 0%%N" % (cN(r[0]), cZ(r[1]), cN(r[2]), cbool(r[3])) for r in f["digs"]])
        fbs.append("RFb %s %s %s %s" % (cN(f["dest"]), cN(f["from"]), cbool(f["done"]), digs))
    return "Obs %s %s %s" % (cN(d["rc"]), clist(nodes), clist(fbs))


def eff_T(case):
    return max(1, int(case.get("T", 1)))


INGEST = ("inject", "deliver", "round")


def c_gstep(o):
    t = o["op"]
    if t == "inject":
        return "GInject %s %s %s" % (cN(o["n"]), cN(o.get("sender", 0)), clist([c_op(i) for i in o["batch"]]))
    if t == "deliver":
        return "GDeliver %s %s" % (cnat(o["m"]), cN(o["n"]))
    return "GRound %s %s %s" % (cN(o["i"]), cN(o["j"]), cbool(o.get("late", False)))


def paired_steps(case, r):
    """(Coq step, dump) per executed step: a `fail` op arms node n for the ingesting op that follows
    it and becomes one SFaulty step with it; a `fail` followed by anything else does nothing"""
    out = []
    pending = None
    ops = case["ops"]
    for i, (o, d) in enumerate(zip(ops, r["outs"])):
        if o["op"] == "fail":
            pending = None
            if i + 1 < len(ops) and ops[i + 1]["op"] in INGEST:
                pending = ("(FSet %s %s)" % (cN(o["n"]), cN(o.get("k", 0)))) if o.get("what") in ("val", "dig") \
                    else "(FCommit %s)" % cN(o["n"])
            continue
        if pending is not None and o["op"] in INGEST:
            out.append(("SFaulty %s (%s)" % (pending, c_gstep(o)), d))
        else:
            out.append((c_step(o), d))
        pending = None
    return out


def to_coq(case, r):
    steps = ["(%s, %s)" % (st, c_obs(d)) for st, d in paired_steps(case, r)]
    return "Case %s %s %s" % (clist([cN(n) for n in case["nodes"]]), cN(eff_T(case)), clist(steps))


def harness_violation(case, r):
    if r.get("panic"):
        return "panic: " + r["panic"]
    if r.get("hang"):
        return "hang (pipeline did not quiesce): " + r["hang"]
    if len(r.get("outs", [])) != len(case["ops"]):
        return "harness returned %d dumps for %d ops" % (len(r.get("outs", [])), len(case["ops"]))
    return None


# --------------------------------------------------------------------------- coverage
def nontrivial(case, r):
    outs = r.get("outs") or []
    if not outs:
        return False
    has_del = any(o["op"] == "del" or (o["op"] == "inject" and any(i["del"] for i in o["batch"])) for o in case["ops"])
    rejected = any(d["fbs"] for d in outs)
    hist = {}
    for d in outs:
        for n in d["nodes"]:
            for row in n["eng"]:
                h = hist.setdefault((n["n"], row[0]), [])
                cur = (row[4], row[5])
                if not h or h[-1] != cur:
                    h.append(cur)
    competing = any(len(h) >= 2 for h in hist.values())
    return has_del and rejected and competing


def histogram(case, r):
    ks = ["family=" + case.get("fam", "?"), "nodes=%d" % len(case["nodes"]), "T=%d" % eff_T(case)]
    for o in case["ops"]:
        ks.append("op=" + o["op"])
        if o.get("cancel"):
            ks.append("write_under_cancelled_per_call_context")
        if o.get("ctrfail"):
            ks.append("write_under_counter_flush_fault")
        if o.get("what"):
            ks.append("fail_set_of_" + o["what"])
    if r.get("fired"):
        ks.append("ingress_commit_failures_hit=%d" % min(r["fired"], 5))
    outs = r.get("outs") or []
    if outs:
        last = outs[-1]
        if all(not n["st"] for n in last["nodes"]) and any(n["eng"] for n in last["nodes"]):
            ks.append("final_state_quiescent")
        if any(d["rc"] != 0 for d in outs):
            ks.append("op_returned_error")
        if any(f["done"] for f in last["fbs"]):
            ks.append("feedback_delivered")
    return ks


def neighbours(case, rng):
    out = []
    ops = case["ops"]
    for i in range(len(ops)):
        c = json.loads(json.dumps(case))
        del c["ops"][i]
        out.append(c)
    for i in range(len(ops)):
        c = json.loads(json.dumps(case))
        c["ops"].insert(i, json.loads(json.dumps(ops[i])))
        out.append(c)
    c = json.loads(json.dumps(case))
    c["ops"] += sweeps(case["nodes"], eff_T(case), rng)
    out.append(c)
    return [fixup(x) for x in out[:60]]


def kinds_batch(pairs):
    """violation codes of the Coq monitor (Mon_C06.violation_kinds) for a list of (case, result)"""
    if not pairs:
        return []
    body = "Definition cs : list case_t := [ %s ].\nDefinition K := Eval vm_compute in map violation_kinds cs.\nPrint K." % \
        "\n ; ".join(to_coq(c, r) for c, r in pairs)
    out = coq_print(PID, COQ_IMPORTS, body, timeout=600).replace("\n", " ")
    m = re.search(r"K\s*=\s*\[(.*)\]\s*:\s*list", out)
    if not m:
        raise RuntimeError("cannot evaluate violation_kinds: " + out[-500:])
    inner = m.group(1)
    res = []
    for grp in re.findall(r"\[([^\[\]]*)\]", inner):
        grp = grp.strip()
        res.append([int(x.replace("%N", "").strip()) for x in grp.split(";")] if grp else [])
    if len(res) != len(pairs):
        raise RuntimeError("violation_kinds: %d results for %d cases" % (len(res), len(pairs)))
    return res


_K = {}


def kinds(case, r):
    key = vlib.chash([case.get("nodes"), case.get("T"), case.get("ops"), r.get("outs")])
    if key not in _K:
        _K[key] = kinds_batch([(case, r)])[0]
    return _K[key]


def tags_of(case, codes):
    fam = case.get("fam", "?")
    out = set()
    for k in codes:
        if k in ALLOWED.get(fam, ()) and k in CODE_TAG:
            out.add(CODE_TAG[k])
        else:
            out.add("C06:unexpected:%d:family_%s" % (k, fam))
    return out


def tags(case, r):
    if not r or harness_violation(case, r):
        return set()
    return tags_of(case, kinds(case, r))


def model_dump(case, r):
    t = to_coq(case, r)
    return coq_print(PID, COQ_IMPORTS, "Eval vm_compute in model_dump (%s)." % t)[-8000:]


# --------------------------------------------------------------------------- extra phase
def extra(ctx):
    """Scripts of the known-finding space. Every violation must carry one of the codes its family
    allows (then it is counted against the matching known finding); anything else, and every
    model/implementation mismatch, is reported."""
    import check
    rng = random.Random(ctx.seed * 7907 + 11)
    cases = [json.loads(json.dumps(w[2])) for w in WITNESSES] + gen_extra(rng, EXTRA_COUNTS.get(ctx.tier, 200))
    res, M, V, hv, errs = ctx.evaluate(cases)
    cov = {"cases": len(cases), "mismatches": len(M), "monitor_rejections": len(V), "codes": {}, "families": {},
           "witnesses_replayed_on_implementation": {}}
    for c in cases:
        cov["families"][c["fam"]] = cov["families"].get(c["fam"], 0) + 1
    if errs:
        rp = check.write_replay(ctx, "V2", "extra phase could not be evaluated", {}, None, {"errors": errs[:10]})
        ctx.violations.append({"kind": "V2", "what": "extra phase evaluation errors: %s" % errs[0][:300], "replay": rp, "found_input": False})
    for i, w in hv[:3]:
        check.report_case_violation(ctx, cases[i], res.get(i), w)
    codes = kinds_batch([(cases[i], res[i]) for i in V]) if V else []
    findings = {f.get("tag"): f for f in vlib.load_findings() if f.get("property") == PID and f.get("status") == "known"}
    best = {}
    unexpected = []
    by_idx = dict(zip(V, codes))
    for wi, (name, want, _) in enumerate(WITNESSES):
        got = by_idx.get(wi, [])
        cov["witnesses_replayed_on_implementation"][name] = {"expected_code": want, "observed_codes": got,
                                                              "model_equals_implementation": wi not in M}
        if got != [want]:
            ctx.notes.append("witness %s: implementation now yields codes %s (expected %d)" % (name, got, want))
    for i, ks in zip(V, codes):
        for k in ks:
            cov["codes"][str(k)] = cov["codes"].get(str(k), 0) + 1
        tg = tags_of(cases[i], ks)
        if all(t in findings for t in tg):
            for t in tg:
                if t not in best or len(cases[i]["ops"]) < len(best[t]["ops"]):
                    best[t] = cases[i]
        else:
            unexpected.append(i)
    for t, c in best.items():
        ctx.known_hits.append((findings[t], c))
    for i in unexpected[:2]:
        cur = cases[i]
        for _ in range(8):                     # shrink, keeping the case unexpected
            ops = cur["ops"]
            cands = []
            for j in range(len(ops)):
                c2 = json.loads(json.dumps(cur))
                del c2["ops"][j]
                cands.append(fixup(c2))
            if not cands:
                break
            r2, _, V2, hv2, _ = ctx.evaluate(cands)
            ks2 = kinds_batch([(cands[j], r2[j]) for j in V2]) if V2 else []
            bad = [j for j, ks in zip(V2, ks2) if not all(t in findings for t in tags_of(cands[j], ks))]
            if not bad:
                break
            cur = cands[bad[0]]
        r3, _, _, _, _ = ctx.evaluate([cur])
        check.report_case_violation(ctx, cur, r3.get(0), "monitor ok_C06 rejects the implementation's behaviour (extra phase)")
    if M:
        i = M[0]
        rp = check.write_replay(ctx, "V2", "model and implementation disagree (extra phase)", cases[i], res.get(i),
                                {"correspondence": "corr:C06/extra#%d" % i, "mismatching_cases": len(M),
                                 "model": model_dump(cases[i], res.get(i))})
        ctx.violations.append({"kind": "V2", "what": "correspondence corr:C06 broke on %d extra-phase cases" % len(M),
                               "replay": rp, "found_input": False})
    ctx.extra_cov["extra_phase_known_finding_space"] = cov


PARTIAL = ("never-older and same-set-same-state hold in full for gossip ingestion; for the leaseholder path and recovery they "
           "are proved under one creator per key and back-to-back recovery and refuted without (known findings "
           "F4-leasepath, F4-recovery); the quiescence clause is refuted as stated (three nodes: C06-sir; restart: "
           "C06-restart; pinned upstream store on two nodes: F5, fixed) and proved for two nodes without restart "
           "(C06_quiescent_two_nodes_partial)")
SRC_SPECS = ["version"]     # translator/specs/version.json -> Generated/Src_Version.v (regenerated on every run)
READY = True
TECHNIQUE = ("Coq proof (LWW join: order/duplication/batching independence by induction over operation lists; LTS invariant "
             "over all step kinds; two-node quiescence invariant) + model/impl correspondence by vm_compute")
DESIGN_REF = "DESIGN.md §8 C06"
LEVEL_TEXT = ("Machine-checked Coq theorems over an executable Gallina copy of supersedes / filterPersist / versionAssigner+"
              "persist / leaseAllocator / kvStore / operationClient+Server / feedback + gossipRecoveryTransform / "
              "loadHighWater+recoverPeer+runSingleNodeRecovery: supersedes is the strict lexicographic (version, "
              "leaseholder) order; ingestion yields the LWW maximum per key, so the same operation set in any order, "
              "duplication and batching gives the identical engine (unbounded, C06_same_set_same_state), never replaces "
              "an entry by an older one; over the cluster LTS (any number of nodes, all step kinds) no run with one "
              "creator per key and back-to-back recovery ever moves any entry down (C06_never_older_partial) and the "
              "unconditional applies are joins there; on two nodes every quiescent reachable state has identical engines "
              "holding each leaseholder's latest write (C06_quiescent_two_nodes_partial). Unguarded statements are "
              "refuted by concrete model runs that the harness replays on the real nodes in every run. The model is tied "
              "to /repo on every run by driving real kv.Open pipelines step by step (deterministic delivery, marker "
              "barriers, no sleeps) and comparing every node's engine (value+digest), version counter, gossip payload and "
              "all feedback messages after every step inside Coq; a decidable monitor states the three clauses on the "
              "implementation's observations only.")
LEVEL_NOTE = ("Trusted: Coq kernel/vm_compute; hand-written model (tied by correspondence, not translation); harness driver + "
              "hook (thin wrappers); generator. All theorems closed under the global context. Partial: see `partial`. F5 "
              "(late feedback for an old version removed the new write from gossip) was found by this check and repaired "
              "by a fix: commit. Four known findings stay listed (leaseholder path / recovery apply without consulting the "
              "digest; restart drops the gossip store + single high-water mark; SIR stops before all peers on >=3 nodes); "
              "their scripts run in a separate phase where each family may only produce its own codes, so any other "
              "violation or any model/implementation mismatch is still reported. Not modelled: the window between lease "
              "allocation and persist inside one DB.Set; multi-operation DB transactions; real timers / random peer choice "
              "(the script chooses); relay-buffer drops.")
