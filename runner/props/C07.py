"""C07 — a cluster is one data space: write via any node, read via any node."""
import itertools
import json

from vlib import cN, clist, cpair, cbool, cnat, coq_print

PID = "C07"
MODULE, PKG, BIN = "core", "./verifh/c07", "c07"
COQ_IMPORTS = "From Synnax Require Import Common.Base Generated.Consts_C15 Core.Channel Core.Dist Monitors.Mon_C07."
CASE_TYPE = "case_t"
COUNTS = {"quick": 360, "thorough": 8000}
SHARD = 40
PROCS = 8
HARNESS_TIMEOUT = 900
RULE = ("cluster cases: 1-3 node in-memory clusters, 2-3 index groups (index + 1-2 data channels) with every placement "
        "group->node enumerated round-robin over the batch, optional leased-virtual and free-virtual channels in the "
        "writers; scripts of 1-3 writers opened through enumerated gateways (gateway different from every leaseholder "
        "included), explicit-commit and auto-commit, 1-4 frames of unequal length per group (so channels on different "
        "nodes end at different times), frames that skip a leaseholder, frames carrying a key mask (KeepKeys / ExcludeKeys over whole index groups and "
        "virtual channels, incl. nothing and everything), a share of malformed requests (unknown key at "
        "open, key outside the writer in a frame); scripted transport faults on 2-3 node clusters (before 30% of the "
        "writers: 1-3 opens on the same channels through a node whose writer transport client cannot reach one of the "
        "leaseholders at that moment — expected: error, nothing left behind — then the healthy writer through any node; "
        "the reference store never sees the failed opens); afterwards, on EVERY node: SeekFirst+Next(span)*, SeekLast+Prev(span)*, "
        "SeekGE/SeekLE+steps, SetBounds after open followed by a new seek and steps, Next/Prev(AutoSpan) with a chunk "
        "size, Valid — traversals (also with narrowed bounds) through the cluster iterator, each node's own storage "
        "iterator on its own channels, a full read of every channel from every node's engine, and the same writes and "
        "traversals on ONE stand-alone cesium store; iterator opens on free / unknown keys. Component cases: random "
        "response sequences (1-3 leaseholders, in-order cycles plus zero / foreign sequence numbers) through the two "
        "real synchronizers. Non-trivial = cluster case with >= 2 leaseholders holding data of different length, a "
        "gateway that is not a leaseholder of every written channel, and a traversal of >= 3 answered steps; distinct "
        "by hash.")
TRUSTED = ["hooks core/pkg/distribution/framer/{writer,iterator}/export_verif.go (VerifNewSynchronizer = the package's "
           "synchronizer.sync as a function)",
           "mock cluster of core/pkg/distribution/mock (real framer services, mock transports, cesium on memory FS; the framer "
           "transports are the stock in-memory networks assembled by the harness with one middleware on each node's "
           "writer client that refuses streams to the currently blocked address); the "
           "reference single store is a real stand-alone cesium DB given the same channel definitions, writes and "
           "iterator commands",
           "what each channel's storage iterator answers is an input of the model (observed on the nodes' engines)"]
ASSUMES = ["channel metadata has reached every node before the script starts (the harness waits for it)",
           "after a REJECTED frame the harness waits until the failed writer's leaseholders have released their storage "
           "writers before going on (without the wait: known finding F90)",
           "writers are used one request at a time; the only transport fault is an unreachable leaseholder while a writer is "
           "opened (after a failed open the harness waits until the peers already dialed released their storage writers); "
           "transport failures and node death during a write are outside the property",
           "Sync=false writers (per-write acknowledgements are not requested)"]
PARTIAL = None
FREE = 4095

DRES = {"": "DOk", "missing": "DMissing", "invalid_key": "DInvalidKey", "empty_keys": "DEmptyKeys",
        "no_writer": "DNoWriter", "unreachable": "DUnreachable"}
IRES = {"": "IOk", "free_key": "IFreeKey", "not_found": "INotFound", "empty_keys": "IEmptyKeys"}


# --------------------------------------------------------------------------- generator
def gen_sync(rng):
    n = rng.choice([1, 2, 2, 3, 3])
    kind = rng.choice(["sync_w", "sync_i"])
    resps = []
    seq = 1 if kind == "sync_w" else 0
    for _ in range(rng.randrange(2, 7)):
        for j in range(n):
            if kind == "sync_w":
                resps.append([seq, rng.choice([0, 1, 1]), rng.randrange(0, 40), rng.choice([0, 1, 1, 1])])
            else:
                if rng.random() < 0.3:
                    resps.append([1, seq, 1])
                resps.append([0, seq, rng.choice([0, 1, 1])])
            x = rng.random()
            if x < 0.04:
                resps.append([0, 1, 5, 1] if kind == "sync_w" else [0, seq + 7, 1])
            elif x < 0.08:
                resps.append([seq + 3, 1, 9, 1] if kind == "sync_w" else [0, seq + 1, 0])
        seq += 1
    return {"kind": kind, "nodes": n, "resps": resps}


def gen_cluster(rng, idx):
    n = rng.choice([1, 2, 2, 3, 3, 3])
    ng = rng.choice([2, 2, 3])
    # placements enumerated over the batch: the idx-th assignment of groups to nodes
    places = list(itertools.product(range(1, n + 1), repeat=ng))
    place = places[idx % len(places)]
    groups = []
    for gi in range(ng):
        groups.append({"node": place[gi], "idx": "t%d" % gi,
                       "data": ["d%d_%d" % (gi, j) for j in range(rng.choice([1, 1, 2]))]})
    virt = []
    if rng.random() < 0.5:
        virt.append({"name": "v0", "node": rng.randrange(1, n + 1)})
    if rng.random() < 0.5:
        virt.append({"name": "f0", "node": FREE})
    script = []
    now = 10
    gws = list(range(1, n + 1))
    nw = rng.choice([1, 2, 2, 3])
    wid = 0
    for w in range(nw):
        use = [g for g in groups if rng.random() < 0.75] or [rng.choice(groups)]
        chans = []
        for g in use:
            chans += [g["idx"]] + g["data"]
        chans += [v["name"] for v in virt if rng.random() < 0.6]
        gw = gws[(idx // len(places) + w) % n]
        auto = rng.random() < 0.25
        bogus = []
        if rng.random() < 0.06:
            bogus = [rng.choice([(1 << 20) + 900, (2 << 20) + 77, 55])]
        if n >= 2 and not bogus and rng.random() < 0.3:
            # transport fault: a node cannot reach one of the leaseholders while it opens a writer on these
            # channels (1-3 attempts: the order in which the peers are dialed is not fixed). The open must fail
            # and leave nothing behind for the healthy writer that follows, opened through any node.
            peers = sorted({g["node"] for g in use})
            fgw = rng.choice([x for x in gws if len([q for q in peers if q != x]) >= min(2, len(peers))] or gws)
            for _a in range(rng.choice([1, 2, 3])):
                cand = [q for q in peers if q != fgw]
                cut = rng.choice(cand) if cand and rng.random() < 0.9 else rng.choice(gws)
                script.append({"op": "open", "w": wid, "gw": fgw, "cut": cut, "chans": chans, "bogus": [],
                               "start": now, "auto": auto})
                if rng.random() < 0.15:
                    script.append({"op": "commit", "w": wid})
                script.append({"op": "close", "w": wid})
                wid += 1
            if rng.random() < 0.5:
                gw = rng.choice(gws)
        script.append({"op": "open", "w": wid, "gw": gw, "chans": chans, "bogus": bogus, "start": now, "auto": auto})
        if bogus:
            wid += 1
            continue
        for _f in range(rng.randrange(1, 5)):
            cols = []
            span = 0
            for g in use:
                if rng.random() < 0.2:
                    continue     # this frame skips the group (and possibly its leaseholder)
                ln = rng.randrange(1, 6)
                ts = [now + i for i in range(ln)]
                cols.append({"name": g["idx"], "vals": ts})
                for d in g["data"]:
                    cols.append({"name": d, "vals": [rng.randrange(0, 100) for _ in range(ln)]})
                span = max(span, ln)
            for v in virt:
                if v["name"] in chans and rng.random() < 0.5:
                    cols.append({"name": v["name"], "vals": [rng.randrange(0, 9)]})
            fresh = not script or script[-1]["op"] in ("open", "commit")
            if rng.random() < 0.04 and not auto and fresh:
                # a key outside the writer (only when nothing of this writer is in flight uncommitted)
                other = [g for g in groups if g not in use]
                if other:
                    cols.append({"name": other[0]["idx"], "vals": [now]})
            if not cols:
                continue
            if rng.random() < 0.3:
                rng.shuffle(cols)
                # an index column must still come with its data columns of equal length: order is free
            wop = {"op": "write", "w": wid, "cols": cols}
            if rng.random() < 0.3:
                # the frame carries a key mask (KeepKeys / ExcludeKeys, as calculation transforms and relay taps
                # produce): whole index groups and virtual channels are masked in or out, incl. none and all
                in_frame = [g for g in use if any(c["name"] == g["idx"] for c in cols)]
                pick = [g for g in in_frame if rng.random() < 0.5]
                x = rng.random()
                if x < 0.12:
                    pick = []
                elif x < 0.24:
                    pick = list(in_frame)
                names = []
                for g in pick:
                    names += [g["idx"]] + g["data"]
                names += [v["name"] for v in virt if rng.random() < 0.5]
                if rng.random() < 0.15:
                    names.append("nope")
                rng.shuffle(names)
                wop["mask"] = rng.choice(["keep", "exclude"])
                wop["mask_names"] = names
            script.append(wop)
            now += span + rng.choice([0, 0, 1, 3])
            if rng.random() < 0.5:
                script.append({"op": "commit", "w": wid})
        script.append({"op": "commit", "w": wid})
        script.append({"op": "close", "w": wid})
        now += rng.choice([1, 2, 10])
        wid += 1
    allp = []
    for g in groups:
        allp += [g["idx"]] + g["data"]
    iters = []
    span = rng.choice([2, 3, 4, 7])
    steps = rng.randrange(4, 9)
    iters.append({"chans": allp, "cmds": [{"cmd": "seek_first"}] + [{"cmd": "next", "arg": span}] * steps})
    sub = [c for c in allp if rng.random() < 0.6] or allp[:1]
    iters.append({"chans": sub, "cmds": [{"cmd": "seek_last"}] + [{"cmd": "prev", "arg": rng.choice([2, 3, 5])}] * rng.randrange(3, 7)})
    t = rng.randrange(8, max(now, 12))
    k = rng.choice(["seek_ge", "seek_le"])
    step = rng.choice(["next", "prev"])
    it3 = {"chans": allp, "cmds": [{"cmd": k, "arg": t}] + [{"cmd": step, "arg": rng.choice([1, 3, 4])}] * rng.randrange(2, 6) +
           [{"cmd": "valid"}]}
    if rng.random() < 0.4:
        it3["lo"] = rng.randrange(5, 15)
        it3["hi"] = rng.randrange(16, max(now + 5, 20))
    iters.append(it3)
    # SetBounds after open (the new range must reach every involved node), then traverse again
    lo = rng.randrange(8, max(now - 2, 10))
    hi = lo + rng.randrange(2, 12)
    seek = rng.choice([[{"cmd": "seek_first"}, {"cmd": "next", "arg": rng.choice([2, 3, 5])}],
                       [{"cmd": "seek_last"}, {"cmd": "prev", "arg": rng.choice([2, 3, 5])}],
                       [{"cmd": "seek_ge", "arg": lo + 1}, {"cmd": "next", "arg": 4}]])
    it4 = {"chans": allp if rng.random() < 0.7 else sub,
           "cmds": [{"cmd": "seek_first"}, {"cmd": "next", "arg": span},
                    {"cmd": "set_bounds", "arg": lo, "arg2": hi}] + seek +
                   [dict(seek[1])] * rng.randrange(1, 4) + [{"cmd": "valid"}]}
    if rng.random() < 0.3:
        it4["lo"], it4["hi"] = 5, rng.randrange(12, max(now, 14))
    iters.append(it4)
    if rng.random() < 0.5:
        # AutoSpan steps: a fixed number of samples per step and channel
        d = rng.choice(["next_auto", "prev_auto"])
        iters.append({"chans": allp, "chunk": rng.choice([1, 2, 3, 5]),
                      "cmds": [{"cmd": "seek_first" if d == "next_auto" else "seek_last"}] + [{"cmd": d}] * rng.randrange(2, 6)})
    x = rng.random()
    if x < 0.25 and any(v["node"] == FREE for v in virt):
        iters.append({"chans": [allp[0], "f0"], "cmds": [{"cmd": "seek_first"}]})
    elif x < 0.5:
        iters.append({"chans": [allp[0]], "bogus": [rng.choice([77, (1 << 20) + 900, (2 << 20) + 901, (3 << 20) + 902])], "cmds": [{"cmd": "seek_first"}]})
    return {"kind": "cluster", "nodes": n, "groups": groups, "virt": virt, "script": script, "iters": iters}


def gen_cases(rng, tier, n):
    out = []
    for i in range(n):
        if i % 6 == 5:
            out.append(gen_sync(rng))
        else:
            out.append(gen_cluster(rng, i))
    return out


# --------------------------------------------------------------------------- Coq printing
def c_series(v):
    return clist([cN(x) for x in v])


def c_frame_map(m):
    return clist([cpair(cN(int(k)), c_series(v)) for k, v in sorted(m.items(), key=lambda kv: int(kv[0]))])


def c_cmds(cmds):
    return clist([cpair(cbool(c["ack"]), c_frame_map(c["fr"])) for c in (cmds or [])])


def _keys_of(case, r, names):
    return [r["keys"][n] for n in names]


def c_op(case, r, o, out):
    k = o["op"]
    if k == "open" and o.get("cut"):
        return "(OpenCut %s %s %s %s %s)" % (cN(o["w"]), cN(o["gw"]), cN(o["cut"]), clist([cN(x) for x in out["keys"]]),
                                             cbool(o["auto"]))
    if k == "open":
        return "(OpenW %s %s %s %s)" % (cN(o["w"]), cN(o["gw"]), clist([cN(x) for x in out["keys"]]), cbool(o["auto"]))
    if k == "write":
        cols = [cpair(cN(r["keys"].get(c["name"], 0xFFFFF)), c_series(c["vals"])) for c in o["cols"]]
        if o.get("mask"):
            ks = [r["keys"][n] for n in o.get("mask_names", []) if n in r["keys"]]
            return "(WriteMasked %s %s %s %s)" % (cN(o["w"]), clist(cols), cbool(o["mask"] == "keep"),
                                                  clist([cN(x) for x in ks]))
        return "(WriteW %s %s)" % (cN(o["w"]), clist(cols))
    if k == "commit":
        return "(CommitW %s)" % cN(o["w"])
    return "(CloseW %s)" % cN(o["w"])


def to_coq(case, r):
    if case["kind"] in ("sync_w", "sync_i"):
        if case["kind"] == "sync_w":
            rs = clist(["(WResp %s %s %s %s)" % (cN(x[0]), cbool(x[1]), cN(x[2]), cbool(x[3])) for x in case["resps"]])
            outs = clist(["(Some (WResp %s %s %s %s))" % (cN(o[1]), cbool(o[2]), cN(o[3]), cbool(o[4])) if o[0] else "None"
                          for o in r["sync"]])
            return "(CSyncW %s %s %s)" % (cnat(case["nodes"]), rs, outs)
        rs = clist(["(IResp %s %s %s)" % (cbool(x[0]), cN(x[1]), cbool(x[2])) for x in case["resps"]])
        outs = clist(["(Some (IResp %s %s %s))" % (cbool(o[1]), cN(o[2]), cbool(o[3])) if o[0] else "None"
                      for o in r["sync"]])
        return "(CSyncI %s %s %s)" % (cnat(case["nodes"]), rs, outs)
    if r.get("note") == "unsettled":
        return None
    keys = r["keys"]
    chans = clist([cN(k) for k in sorted(keys.values())])
    pers = []
    for g in case["groups"]:
        pers += [keys[g["idx"]]] + [keys[d] for d in g["data"]]
    nodes = list(range(1, case["nodes"] + 1))
    script = []
    for o, out in zip(case["script"], r["ops"]):
        cls = out["err"]
        if o["op"] == "commit" and not cls:
            dres = "DAck"
        else:
            dres = DRES.get(cls, "DNoWriter" if cls == "no_writer" else "DOk" if not cls else "DMissing")
            if cls == "other":
                dres = "DEmptyKeys"
        script.append(cpair(c_op(case, r, o, out), dres, c_frame_map(out.get("after") or {})))
    stores = clist([cpair(cN(int(n)), c_frame_map(m)) for n, m in sorted(r["stores"].items(), key=lambda kv: int(kv[0]))])
    its = []
    for io in r["iters"]:
        cl = clist([cpair(cN(int(g)), cpair(IRES.get(t["err"], "IEmptyKeys"), c_cmds(t["cmds"])))
                    for g, t in sorted(io["cluster"].items(), key=lambda kv: int(kv[0]))])
        di = clist([cpair(cN(int(g)), c_cmds(t["cmds"])) for g, t in sorted(io["direct"].items(), key=lambda kv: int(kv[0]))])
        ref = "None" if io["ref"]["err"] else "(Some %s)" % c_cmds(io["ref"]["cmds"])
        its.append("(IterCase %s %s %s %s)" % (clist([cN(k) for k in io["keys"]]), cl, di, ref))
    return "(CCluster (CCase %s %s %s %s %s %s %s))" % (chans, clist([cN(k) for k in pers]), clist([cN(n) for n in nodes]),
                                                       clist(script), stores, c_frame_map(r["ref"]), clist(its))


def harness_violation(case, r):
    if r.get("panic"):
        return "panic: " + r["panic"]
    if r.get("hang"):
        return "the call did not return within 25 s (writer/iterator hang) at %s" % r["hang"]
    if case["kind"] == "cluster" and r.get("note") != "unsettled":
        for o, out in zip(case["script"], r["ops"] or []):
            if out["err"] == "other" and o["op"] != "noop":
                return "writer %s failed with an unclassified error: %s" % (o["op"], out["text"][:300])
        for io in r["iters"] or []:
            for t in list(io["cluster"].values()) + list(io["direct"].values()) + [io["ref"]]:
                if t["err"] in ("other", "open"):
                    return "iterator open failed with an unclassified error: %s" % t["text"][:300]
    return None


def nontrivial(case, r):
    if case["kind"] != "cluster" or r.get("note") == "unsettled" or not r.get("stores"):
        return False
    lens = {}
    for n, m in r["stores"].items():
        for k, v in m.items():
            if v:
                lens.setdefault(n, set()).add(len(v))
    if len(lens) < 2 or len(set().union(*lens.values())) < 2:
        return False
    leases = set(g["node"] for g in case["groups"])
    remote_gw = any(o["op"] == "open" and any(l != o["gw"] for l in leases) for o in case["script"])
    answered = any(sum(1 for c in (t["cmds"] or []) if c["ack"]) >= 3 for io in r["iters"] for t in io["cluster"].values())
    return remote_gw and answered


def histogram(case, r):
    ks = ["kind=%s" % case["kind"], "nodes=%d" % case["nodes"]]
    if case["kind"] != "cluster":
        return ks
    if r.get("note") == "unsettled":
        return ks + ["unsettled_case(skipped)"]
    ks.append("placement=%s" % "".join(str(g["node"]) for g in case["groups"]))
    for o, out in zip(case["script"], r["ops"] or []):
        ks.append("op=%s/%s" % (o["op"], out["err"] or "ok"))
        if o["op"] == "open":
            ks.append("gateway=%d" % o["gw"])
            if o["auto"]:
                ks.append("auto_commit")
            if o.get("cut"):
                ks.append("transport_fault=%s" % (out["err"] or "not_hit"))
    for v in case["virt"]:
        ks.append("virt=%s" % ("free" if v["node"] == FREE else "leased"))
    for io in r["iters"] or []:
        for t in io["cluster"].values():
            ks.append("iter_open=%s" % (t["err"] or "ok"))
    return ks


def neighbours(case, rng):
    out = []
    if case["kind"] != "cluster":
        for i in range(len(case["resps"])):
            c = json.loads(json.dumps(case))
            del c["resps"][i]
            out.append(c)
        return out
    for i in range(len(case["script"])):
        c = json.loads(json.dumps(case))
        del c["script"][i]
        out.append(c)
    for gw in range(1, case["nodes"] + 1):
        c = json.loads(json.dumps(case))
        for o in c["script"]:
            if o["op"] == "open":
                o["gw"] = gw
        out.append(c)
    return out


OPS_KEY = "script"


def fixup(case):
    """repair a shrunk script: the generator never has two writers open at once (a second writer on
    the same channels would simply be unauthorized, in the cluster and in the reference store alike);
    when the shrinker cut a close, close every open writer before the next open"""
    if case.get("kind") != "cluster":
        return case
    out, opened = [], []
    for o in case["script"]:
        if o["op"] == "open":
            for w in opened:
                out.append({"op": "close", "w": w})
            opened = [o["w"]]
        elif o["op"] == "close" and o["w"] in opened:
            opened.remove(o["w"])
        out.append(o)
    case = dict(case)
    case["script"] = out
    return case


TAG_STALE = "writer_opened_while_failed_writers_peer_storage_writers_still_open"


def tags(case, r):
    """F90: only for histories run WITHOUT the harness' settle wait (or if the wait timed out): a frame was
    rejected on a writer with a peer leaseholder L, a later writer was opened on channels of L, every engine holds
    exactly the reference samples, and the only difference is the traversal of L's own engine (its domains start
    at the failed writer's start)."""
    if case.get("kind") != "cluster" or not r or r.get("hang") or r.get("panic") or not r.get("ops"):
        return set()
    keys = r["keys"]
    failed_peers = set()
    later = False
    for o, out in zip(case["script"], r["ops"]):
        if o["op"] == "write" and out["err"] == "invalid_key":
            gw = next((x["gw"] for x in case["script"] if x["op"] == "open" and x["w"] == o["w"]), None)
            chans = next((x["chans"] for x in case["script"] if x["op"] == "open" and x["w"] == o["w"]), [])
            failed_peers |= {keys[n] >> 20 for n in chans if n in keys and (keys[n] >> 20) not in (gw, FREE)}
        elif o["op"] == "open" and failed_peers and not out["err"]:
            if any((keys[n] >> 20) in failed_peers for n in o["chans"] if n in keys):
                later = True
    if not (failed_peers and later):
        return set()
    for k, v in r["ref"].items():
        if r["stores"].get(str(int(k) >> 20), {}).get(k, []) != v:
            return set()
    for io in r["iters"]:
        if io["ref"]["err"]:
            continue
        own = {}
        for n, t in io["direct"].items():
            own[n] = t["cmds"]
        for g, t in io["cluster"].items():
            if t["err"]:
                return set()
        # the deviation must already be visible on an affected leaseholder's own engine
        if any(t["cmds"] != io["ref"]["cmds"] for t in io["cluster"].values()):
            if not any(str(n) in own for n in failed_peers):
                return set()
    return {TAG_STALE}


def model_dump(case, r):
    t = to_coq(case, r)
    if t is None:
        return "unsettled"
    return coq_print(PID, COQ_IMPORTS, "Eval vm_compute in model_dump (%s)." % t)[-8000:]


SRC_SPECS = ["chankey"]     # translator/specs/chankey.json -> Generated/Src_ChanKey.v (regenerated on every run)
READY = True
TECHNIQUE = ("Coq proof (refinement of a single store by the routed cluster, induction over scripts; permutation / "
             "disjunction argument for the iterator; cycle lemmas for the synchronizers) + model/impl correspondence + "
             "differential monitor against one stand-alone cesium store")
DESIGN_REF = "DESIGN.md §8 C07, §9 F15"
LEVEL_TEXT = ("Machine-checked Coq theorems over an executable Gallina copy of the framer's routing (SplitByHost, "
              "SplitByLeaseholder, peer/gateway/free switch, validator, both response synchronizers, iterator open "
              "validation and acknowledgement combination): the splitters partition every frame (order kept); for ALL "
              "placements (the leaseholder is part of the key), ALL gateways and ALL scripts each leaseholder ends up "
              "with exactly the samples a single store holds for its channels, no other node holds any, and every "
              "request gets the single store's result (C07_location_transparent, by a refinement relation inductive "
              "over opens/writes/commits/closes incl. auto-commit and rejected frames); a writer open that fails because a "
              "leaseholder is unreachable changes nothing and any script runs as the script without such opens "
              "(C07_unreachable_open_no_effect); unknown or free keys do not "
              "open; the commit acknowledgement is forwarded exactly once and only after all |leaseholders| responses "
              "(C07_commit_ack_after_all); for every answer the channels' storage iterators may give, the cluster "
              "iterator returns the same entries (permutation) and the same acknowledgement as one storage iterator "
              "over all channels (C07_iterator_location_transparent). Tied to /repo by driving the real writer/iterator "
              "services of every node of a 1-3 node in-memory cluster with enumerated placements and gateways; the "
              "monitor compares every node's engine and every gateway's traversal, command by command, with ONE real "
              "stand-alone cesium store given the same writes (differential), and each acknowledged commit with what "
              "the leaseholders' engines hold at that moment.")
LEVEL_NOTE = ("Trusted: Coq kernel/vm_compute; hand-written model tied by correspondence; harness, two tiny add-only hook "
              "files, generator; the reference store is the real cesium, so 'what a single-node store would return' is "
              "not modelled but executed. What a channel's storage iterator answers is a parameter of the iterator "
              "theorem (nothing depends on a cesium read model). Not modelled: transport failures other than an unreachable leaseholder at writer open / peer death, control "
              "authority conflicts between concurrent writers, Sync=true per-write acknowledgements, relay streaming of "
              "free/virtual channels, the End value cesium reports. Observation outside the statement, left unchanged: "
              "the WRITER synchronizer forwards the last response instead of the accumulated one, so Commit() returns "
              "the End/Authorized of whichever leaseholder answered last (C07_commit_ack_end_refuted; reproduced on the "
              "implementation by the component cases). Opening a cluster iterator on an existing VIRTUAL channel hangs "
              "instead of failing (seen once, generator now avoids it; outside the statement). All theorems closed under "
              "the global context.")
