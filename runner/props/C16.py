"""C16 — the ontology graph stays acyclic, exact and free of dangling edges."""
import json
from vlib import clist, cpair, cbytes, coq_print

PID = "C16"
MODULE, PKG, BIN = "core", "./verifh/c16", "c16"
COQ_IMPORTS = "From Synnax Require Import Common.Base Core.Ontology Monitors.Mon_C16."
CASE_TYPE = "case_t"
COUNTS = {"quick": 600, "thorough": 20000}
SHARD = 64
HARNESS_TIMEOUT = 1500
SEP_TAG = "id_contains_relationship_separator"

TYPES = ["a", "ab"]
# keys that are prefixes / suffixes of one another, near-separators, colons
GOOD_KEYS = ["1", "10", "2", "21", "1-", ">1", "1:2", "-", "1>", "10-"]
SEP_KEYS = ["1->a:1", "1->parent->a:2", "->", "1->", "->a:1", "2->ab:1"]
RTYPES = ["parent", "parent", "parent", "parent", "parent", "x", "pa", "parents"]
ROOT = {"t": "builtin", "k": "root"}

RULE = ("histories of 6-24 ops over a universe of 3-7 identifiers drawn from types {a, ab} and keys that are prefixes/"
        "suffixes of one another (1, 10, 21, 1-, >1, 1:2 ...), ~7% with malformed ids (empty key/type), plus a few "
        "small histories (10 in the quick tier, 5% in the thorough tier) using keys that contain the separator '->'; ops = define/delete resource (single and batches mixing missing / existing / repeated ids), define relationship "
        "(single, one-to-many), delete relationship, begin/commit/abort; shapes = random, chains with a closing edge, "
        "diamonds, one-transaction churn (define / delete / re-define of the same relationship, then deletion of an endpoint, "
        "then commit), chain + ancestor-side define + extension + back edge without deletions in between; one Writer "
        "value serves all operations outside / inside a transaction; a quarter of the histories run on an ontology "
        "whose relationship indexes failed to populate at open (injected iterator fault: parents traversal on the raw "
        "scan fallback); after every op the raw tables (transaction view and committed view) and parents / children / "
        "parents-then-children / descendants of every identifier are compared. Non-trivial = at least 2 accepted "
        "relationships and (a refusal as cyclic or a resource deletion that removed an edge); distinct by hash.")
TRUSTED = ["hook core/pkg/distribution/ontology/export_verif.go (VerifDescendants = dagWriter.retrieveDescendants, "
           "VerifScan = raw table scans through a transaction)",
           "ontology.Open over gorp.Wrap(memkv.New()) run for real; traversals use ExcludeFieldData(true) so that no "
           "service needs to be registered for the synthetic resource types"]
ASSUMES = ["one transaction open at a time, no direct writes while it is open (gorp transactions give no isolation "
           "between interleaved writers; interleavings are outside the model)",
           "resource types contain no ':' and identifiers / relationship types contain no '->' (theorem guard good_id; "
           "the '->' case is the known finding %s)" % SEP_TAG]
PARTIAL = ("identifiers whose string contains the relationship-key separator '->' are excluded from the theorems "
           "(C16_sep_*_refuted show what fails there)")


def mkid(t, k):
    return {"t": t, "k": k}


def ids_str(i):
    return i["t"] + ":" + i["k"]


def has_sep(i):
    return "->" in ids_str(i)


def gen_universe(rng):
    n = rng.choice([3, 4, 4, 5, 5, 6, 7])
    x = rng.random()
    pool = [mkid(t, k) for t in TYPES for k in GOOD_KEYS]
    # make the colliding neighbours likely
    core = [mkid("a", "1"), mkid("a", "10"), mkid("ab", "1"), mkid("a", "2"), mkid("a", "21"), mkid("ab", "10")]
    u = []
    while len(u) < n:
        c = rng.choice(core) if rng.random() < 0.6 else rng.choice(pool)
        if c not in u:
            u.append(c)
    if x < 0.07:
        u[rng.randrange(len(u))] = rng.choice([mkid("a", ""), mkid("", "1"), mkid("", "")])
    if rng.random() < 0.15:
        u.append(dict(ROOT))
    return u


def rel_op(rng, u, f=None, t=None):
    f = f or rng.choice(u)
    t = t or rng.choice(u)
    return {"op": "defrel", "a": f, "b": t, "ty": rng.choice(RTYPES)}


def tx_churn(rng, u, in_tx):
    """one transaction that defines, deletes and re-defines the SAME relationship (1-3 rounds, sometimes starting
    from a committed relationship), then deletes an endpoint (single or batch) in the same transaction and
    commits (rarely aborts); the committed view is then compared: no dangling edge, traversals"""
    ops = []
    if in_tx:
        ops.append({"op": rng.choice(["commit", "commit", "abort"])})
    f, t = rng.sample([i for i in u if i != ROOT] or u, 2) if len([i for i in u if i != ROOT]) >= 2 else (u[0], u[-1])
    ty = rng.choice(["parent", "parent", "parent", "x"])
    ops += [{"op": "defres", "a": f}, {"op": "defres", "a": t}]
    if rng.random() < 0.3:
        ops.append({"op": "defrel", "a": f, "b": t, "ty": ty})       # already committed
    ops.append({"op": "begin"})
    seq = rng.choice([["defrel", "delrel", "defrel"], ["defrel", "delrel", "defrel"], ["delrel", "defrel"],
                      ["defrel", "delrel", "defrel", "delrel", "defrel"], ["defrel", "delrel"]])
    for k in seq:
        ops.append({"op": k, "a": f, "b": t, "ty": ty})
    x = rng.random()
    victim = t if rng.random() < 0.65 else f
    if x < 0.55:
        ops.append({"op": "delres", "a": victim})
    elif x < 0.8:
        ops.append({"op": "delmany", "bs": [victim] + ([rng.choice(u)] if rng.random() < 0.4 else [])})
    ops.append({"op": "commit" if rng.random() < 0.9 else "abort"})
    if rng.random() < 0.5:
        ops.append({"op": "defres", "a": victim})                   # a stale edge would reappear here
    return ops


def gen_case(rng):
    u = gen_universe(rng)
    ops = []
    defined = [i for i in u if rng.random() < 0.85 and i != ROOT]
    rng.shuffle(defined)
    shape = rng.random()
    in_tx = False
    if rng.random() < 0.2:
        ops.append({"op": "begin"})
        in_tx = True
    ops += [{"op": "defres", "a": i} for i in defined]
    if shape < 0.2 and len(u) >= 3:
        # chain with closing edges
        ch = list(u)
        rng.shuffle(ch)
        for a, b in zip(ch, ch[1:]):
            ops.append({"op": "defrel", "a": a, "b": b, "ty": "parent"})
        ops.append({"op": "defrel", "a": ch[-1], "b": ch[rng.randrange(len(ch) - 1)], "ty": rng.choice(RTYPES)})
    elif shape < 0.3 and len(u) >= 4:
        a, b, c, d = rng.sample(u, 4)
        for f, t in ((a, b), (a, c), (b, d), (c, d), (d, a)):
            ops.append({"op": "defrel", "a": f, "b": t, "ty": "parent"})
    elif shape < 0.5 and len(u) >= 4:
        # through ONE writer and without deletions in between: a chain c0->..->cj, a define whose cycle
        # check walks that chain from an ancestor (probe -> c0, or a one-to-many), an extension below
        # the chain's end (cj -> e), then an edge from the new descendant back to an ancestor
        ch = [i for i in u if i != ROOT]
        rng.shuffle(ch)
        if len(ch) >= 4:
            ops += [{"op": "defres", "a": i} for i in ch if i not in defined]
            j = rng.randrange(1, len(ch) - 2)
            chain, e, probe = ch[:j + 1], ch[j + 1], ch[-1]
            for a, b in zip(chain, chain[1:]):
                ops.append({"op": "defrel", "a": a, "b": b, "ty": rng.choice(["parent", "parent", "x"])})
            start = rng.choice(chain[:-1])
            if rng.random() < 0.7:
                ops.append({"op": "defrel", "a": probe, "b": start, "ty": "parent"})
            else:
                ops.append({"op": "defmany", "a": probe, "ty": "parent", "bs": [start] + ([e] if rng.random() < 0.3 else [])})
            ops.append({"op": "defrel", "a": chain[-1], "b": e, "ty": "parent"})
            ops.append({"op": "defrel", "a": e, "b": rng.choice(chain[:-1]), "ty": rng.choice(["parent", "x"])})
    if rng.random() < 0.3 and len(u) >= 2:
        ops += tx_churn(rng, u, in_tx)
        in_tx = False
    for _ in range(rng.randrange(3, 14)):
        x = rng.random()
        if x < 0.50:
            ops.append(rel_op(rng, u))
        elif x < 0.58:
            ops.append({"op": "defmany", "a": rng.choice(u), "ty": rng.choice(RTYPES),
                        "bs": [rng.choice(u) for _ in range(rng.choice([0, 1, 2, 2, 3]))]})
        elif x < 0.68:
            ops.append({"op": "delrel", "a": rng.choice(u), "b": rng.choice(u), "ty": rng.choice(RTYPES)})
        elif x < 0.74:
            ops.append({"op": "delres", "a": rng.choice(u)})
        elif x < 0.80:
            # batches mixing missing, existing and repeated ids; often an overlapping retry of the previous batch
            bs = [rng.choice(u) for _ in range(rng.choice([0, 1, 2, 2, 3]))]
            ops.append({"op": "delmany", "bs": bs})
            if rng.random() < 0.4:
                ops.append({"op": "delmany", "bs": bs + [rng.choice(u)]})
        elif x < 0.83:
            ops.append({"op": "defmanyres", "bs": [rng.choice(u) for _ in range(rng.choice([0, 1, 2, 3]))]})
        elif x < 0.88:
            ops.append({"op": "defres", "a": rng.choice(u)})
        elif in_tx:
            ops.append({"op": rng.choice(["commit", "commit", "abort"])})
            in_tx = False
        else:
            ops.append({"op": "begin"})
            in_tx = True
    if in_tx and rng.random() < 0.7:
        ops.append({"op": rng.choice(["commit", "abort"])})
    # flavour: the relationship indexes failed to populate at open, ParentsTraverser runs on its raw scan
    return {"ids": u, "ops": ops, "scan": rng.random() < 0.25}


def gen_sep_case(rng):
    """small history over 2-3 identifiers, one of which contains the separator (known finding F20)"""
    base = rng.choice(TYPES), rng.choice(["1", "2", "10"])
    sk = rng.choice(SEP_KEYS + [base[1] + "->x", base[1] + "->" + base[0] + ":" + base[1]])
    u = [mkid(*base), mkid(rng.choice(TYPES), sk)]
    if rng.random() < 0.6:
        u.append(mkid(rng.choice(TYPES), rng.choice(["2", "21", "10"])))
        if u[2] in u[:2]:
            u.pop()
    ops = [{"op": "defres", "a": i} for i in u]
    for _ in range(rng.randrange(1, 4)):
        x = rng.random()
        if x < 0.7:
            ops.append({"op": "defrel", "a": rng.choice(u), "b": rng.choice(u), "ty": "parent"})
        elif x < 0.85:
            ops.append({"op": "delres", "a": rng.choice(u)})
        else:
            ops.append({"op": "delrel", "a": rng.choice(u), "b": rng.choice(u), "ty": "parent"})
    return {"ids": u, "ops": ops}


def gen_cases(rng, tier, n):
    # cases that use a separator-containing identifier (known finding F20) are few, small and go last, so
    # that the first violations the runner minimises are the ones that carry no known-finding tag
    n_sep = 10 if tier == "quick" else max(10, n // 20)
    return [gen_case(rng) for _ in range(max(n - n_sep, 1))] + [gen_sep_case(rng) for _ in range(n_sep)]


ERR = {"ok": "EOk", "notfound": "ENotFound", "cyclic": "ECyclic", "validation": "EValidation"}


def c_str(s):
    return cbytes(s.encode("utf-8")) if s else "[]"


# the identifier / relationship-type alphabet is predefined once per case file (COQ_EXTRA): case terms
# then name identifiers (k7) instead of spelling byte lists, which keeps coqc's parsing time low
ALPHA = [(t, k) for t in TYPES + [""] for k in GOOD_KEYS + SEP_KEYS + [""]] + [("builtin", "root")]
ALPHA_IX = {tk: n for n, tk in enumerate(ALPHA)}
RT_IX = {t: n for n, t in enumerate(sorted(set(RTYPES)))}
COQ_EXTRA = "\n".join(
    ["Definition k%d : raw_id := (%s, %s)." % (n, c_str(t), c_str(k)) for (t, k), n in ALPHA_IX.items()] +
    ["Definition t%d : str := %s." % (n, c_str(t)) for t, n in RT_IX.items()] +
    ["Definition rr (a : raw_id) (t : str) (b : raw_id) : raw_rel := (a, t, b).",
     "Definition qq (e : err) (l : list raw_id) : raw_q := (e, l)."])


def c_raw_id(p):
    n = ALPHA_IX.get((p[0], p[1]))
    return "k%d" % n if n is not None else cpair(c_str(p[0]), c_str(p[1]))


def c_ty(t):
    n = RT_IX.get(t)
    return "t%d" % n if n is not None else c_str(t)


def c_id(i):
    return "(mk_id %s)" % c_raw_id((i["t"], i["k"]))


def c_op(o):
    k = o["op"]
    if k == "defres":
        return "DefRes %s" % c_id(o["a"])
    if k == "delres":
        return "DelRes %s" % c_id(o["a"])
    if k == "defrel":
        return "DefRel %s %s %s" % (c_id(o["a"]), c_ty(o["ty"]), c_id(o["b"]))
    if k == "defmany":
        return "DefMany %s %s %s" % (c_id(o["a"]), c_ty(o["ty"]), clist([c_id(b) for b in o.get("bs") or []]))
    if k == "delmany":
        return "DelMany %s" % clist([c_id(b) for b in o.get("bs") or []])
    if k == "defmanyres":
        return "DefManyRes %s" % clist([c_id(b) for b in o.get("bs") or []])
    if k == "delrel":
        return "DelRel %s %s %s" % (c_id(o["a"]), c_ty(o["ty"]), c_id(o["b"]))
    return {"begin": "Begin", "commit": "Commit", "abort": "Abort"}[k]


def c_view(res, rels):
    return cpair(clist([c_raw_id(r) for r in res or []]),
                 clist(["rr %s %s %s" % (c_raw_id(r[0:2]), c_ty(r[2]), c_raw_id(r[3:5])) for r in rels or []]))


def c_q(q):
    return "qq %s %s" % (ERR[q["e"]], clist([c_raw_id(r) for r in q["r"] or []]))


def harness_violation(case, r):
    if r.get("panic"):
        return "panic: " + r["panic"]
    if r.get("hang") or r.get("crash"):
        k = r.get("at", -1)
        o = case["ops"][k]["op"] if 0 <= k < len(case["ops"]) else "?"
        where = ("the traversals after op #%d (%s, returned %s)" % (k, o, r.get("at_err"))) if r.get("at_err") \
            else ("op #%d (%s)" % (k, o))
        return ("%s: %s did not return (unbounded recursion of retrieveDescendants on a cyclic graph)"
                % ("hang" if r.get("hang") else "crash: " + r["crash"], where))
    for s in r.get("steps") or []:
        if s["err"] not in ERR:
            return "unexpected error from a writer call: " + s["err"][:200]
        for qs in s.get("q") or []:
            for q in qs:
                if q["e"] not in ERR:
                    return "unexpected error from a traversal: " + q["e"][:200]
    if len(r.get("steps") or []) != len(case["ops"]):
        return "harness returned %d steps for %d ops" % (len(r.get("steps") or []), len(case["ops"]))
    return None


def to_coq(case, r):
    steps = []
    for o, s in zip(case["ops"], r["steps"]):
        ob = cpair(ERR[s["err"]], c_view(s["res"], s["rels"]), c_view(s["cres"], s["crels"]),
                   clist([clist([c_q(q) for q in qs]) for qs in s["q"] or []]))
        steps.append(cpair(c_op(o), ob))
    return cpair(clist([c_raw_id([i["t"], i["k"]]) for i in case["ids"]]), clist(steps))


def nontrivial(case, r):
    oks = cyc = dele = 0
    prev = 0
    for o, s in zip(case["ops"], r["steps"]):
        n = len(s["rels"] or [])
        if o["op"] in ("defrel", "defmany"):
            if s["err"] == "ok" and n > prev:
                oks += 1
            if s["err"] == "cyclic":
                cyc += 1
        if o["op"] in ("delres", "delmany") and n < prev:
            dele += 1
        prev = n
    return oks >= 2 and (cyc >= 1 or dele >= 1)


def histogram(case, r):
    ks = ["universe=%d" % len(case["ids"]), "ops=%d" % (len(case["ops"]) // 5 * 5),
          "flavour=%s" % ("scan-fallback" if case.get("scan") else "indexed")]
    if any(has_sep(i) for i in case["ids"]):
        ks.append("has_sep_id")
    if any(not i["t"] or not i["k"] for i in case["ids"]):
        ks.append("has_malformed_id")
    for o, s in zip(case["ops"], r.get("steps") or []):
        ks.append("op=%s/%s" % (o["op"], s["err"] if s["err"] in ERR else "other"))
    mx = max([len(s["rels"] or []) for s in r.get("steps") or []] + [0])
    ks.append("max_edges=%d" % mx)
    return ks


def op_ids(o):
    out = []
    for k in ("a", "b"):
        if k in o and o["op"] not in ("begin", "commit", "abort"):
            if o["op"] in ("delmany", "defmanyres") or (k == "b" and o["op"] in ("defres", "delres", "defmany")):
                continue
            out.append(o[k])
    if o["op"] in ("defmany", "delmany", "defmanyres"):
        out += o.get("bs") or []
    return out


def fixup(case):
    """after shrinking: keep only the universe ids that the remaining ops mention"""
    used = []
    for o in case["ops"]:
        for i in op_ids(o):
            if i not in used:
                used.append(i)
    case["ids"] = [i for i in case["ids"] if i in used] or case["ids"][:1]
    return case


def tags(case, r):
    # the known finding: some operation of the minimised history names an identifier whose
    # string form contains the relationship key separator
    for o in case["ops"]:
        if any(has_sep(i) for i in op_ids(o)):
            return {SEP_TAG}
    return set()


def neighbours(case, rng):
    out = []
    for i in range(len(case["ops"])):
        c = json.loads(json.dumps(case))
        del c["ops"][i]
        out.append(c)
    u = case["ids"]
    for a in u:
        for b in u:
            c = json.loads(json.dumps(case))
            c["ops"].append({"op": "defrel", "a": a, "b": b, "ty": "parent"})
            out.append(c)
    for a in u:
        c = json.loads(json.dumps(case))
        c["ops"].append({"op": "delres", "a": a})
        out.append(c)
    return out


def model_dump(case, r):
    t = to_coq(case, r)
    return coq_print(PID, COQ_IMPORTS, COQ_EXTRA + "\nEval vm_compute in model_dump (%s)." % t)[-8000:]


READY = True
TECHNIQUE = ("Coq proof (invariant over operation lists, transitive-closure argument for edge insertion, fuel "
             "sufficiency of the descendants recursion by a pigeonhole on walks, byte-string separator lemmas for the "
             "prefix/suffix key scans) + model/impl correspondence by vm_compute")
DESIGN_REF = "DESIGN.md §8 C16"
LEVEL_TEXT = ("Machine-checked Coq theorems over an executable Gallina copy of the ontology store at the byte-string "
              "level (GorpKey layout, prefix scan of retrieveOutgoingRelationships / ChildrenTraverser, suffix scan of "
              "deleteIncomingRelationships, ParseRelationship behind the by-To index, Retrieve.Exec clause loop, "
              "copy-on-write transactions): for every history over identifiers without the key separator the graph "
              "is acyclic with no dangling edge (C16_invariant_partial); DefineRelationship / one-to-many succeed "
              "iff both ends exist and no target reaches the source, add exactly the edge, are no-ops when present "
              "(C16_define_iff_partial, C16_define_many_iff_partial); DeleteResource removes exactly the touching "
              "edges (C16_delete_cleans_partial); parents/children clause traversals and descendants equal graph "
              "search over surviving resources and the recursion needs at most |rels|+1 levels "
              "(C16_traversals_partial, C16_descendants_partial). The model is tied to /repo on every run by driving "
              "the real ontology over memkv through generated histories and comparing both table views and four "
              "traversals of every identifier after every op inside Coq; a decidable digraph monitor states the "
              "property on the implementation's observations and yields the replay.")
LEVEL_NOTE = ("Trusted: Coq kernel/vm_compute; hand-written model (tied by correspondence, not translation); harness + "
              "hook (VerifDescendants, VerifScan); generator. Theorems closed under the global context. F10 (prefix "
              "without separator) and F11 (self edge accepted, then unbounded recursion) were reproduced by this check "
              "and repaired by fix: commits (C16_f10_prefix_refuted / C16_f11_self_edge_refuted keep the witnesses). "
              "Partial: identifiers containing '->' (reachable through free-form device keys) break every clause "
              "(C16_sep_*_refuted) — known finding F20, not a small fix. Not modelled: interleaved transactions, "
              "Delete*RelationshipsOfType / WhereTypes, resource payloads.")
