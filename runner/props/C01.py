"""C01 — cesium reads return exactly the committed samples, in time order."""
import json
import os
import re
from vlib import coq_print
from props import cesgen
from props.cesgen import z, c_tr, MAXTS

PID = "C01"
MODULE, PKG, BIN = "cesium", "./verifh/c01", "c01"
COQ_IMPORTS = ("From Synnax Require Import Common.Base Cesium.Store Cesium.IndexSearch Cesium.Distance Cesium.Stamp "
               "Cesium.UnaryIter Cesium.UnaryWrite Cesium.Read Monitors.Mon_C01.")
COQ_EXTRA = "Local Open Scope Z_scope."
CASE_TYPE = "case_t"
COUNTS = {"quick": 2000, "thorough": 20000}
SHARD = 60
OPS_KEY = "ops"
RULE = ("histories through the public cesium API: 1-3 index channels x 0-3 data channels (int64/uint8/float32/string/json), "
        "1-4 writer sessions at disjoint times (35% out of time order incl. before existing data, contiguous writers, "
        "writer start 0/1/5 ns before the first sample), frames of 1-8 samples, spacing {1,2,7,1000} ns, explicit commits at "
        "random points or auto-commit, uncommitted tails, file-size caps {default,40,64,100,200,1000} B forcing rollover, "
        "groups that do not write their index, zero-length samples on string/json channels (preferably last in a frame/domain), "
        "Reopen; 10% with one illegal step; 15% with one scripted short write (a data-file Write stores a prefix and fails) "
        "followed by the remaining sessions on the same files; DB.Read of 1-3 channels interleaved with "
        "the history (also while a writer holds uncommitted data) and 4-10 final reads repeated after Close+Open; one final read per "
        "case is repeated through an iterator opened on a narrow range elsewhere and re-targeted with SetBounds (must equal DB.Read); range ends "
        "from sample stamps, +-1, writer starts, 0, MAX. Non-trivial = >=2 committed sessions or a rollover-size cap, and a "
        "read whose range end lies strictly between two returned/stored samples or that returns >=2 series; distinct by hash.")
TRUSTED = ["harness package verifh/cesh: sample value <-> bytes bijection per data type (garbled bytes are reported as a value no "
           "stored sample has); public API only (cesium.Open with in-memory FS, CreateChannel, OpenWriter/Write/Commit/Close, Read)"]
ASSUMES = ["time stamps within [0, 2^63-1]", "one writer session open at a time (file acquisition is then deterministic)",
           "explicit index frames only (no AutoIndex / wall clock); persist interval irrelevant (no crash)",
           "variable-length offset cache is transparent"]
PARTIAL = ("C01_read_exact_partial is proved for every stored layout satisfying layout_ok (decidable check layout_okb proved sound: "
           "data domains within contiguous runs of index domains, index rollover inside a data domain included; satisfied by every "
           "generated history — see layout_guard_sample); that every legal history produces such a layout whose content equals "
           "`committed h` (write->layout refinement: insert/update of the domain index, rollover, groups not writing their index) "
           "is proved end to end only for ONE writer session on a fresh database with an index and one data channel of any type, any "
           "frames/commit points, no rollover (C01_single_session_committed_partial: every step succeeds and every read equals "
           "filter-by-range of committed h); for several sessions (incl. out of time order), rollover and groups not writing their "
           "index it is observed on every run (model layout vs implementation reads, implementation reads vs committed h). Also "
           "proved on the write side: uncommitted writes, Close and Reopen change no read (C01_uncommitted_invisible).")


def c_hop(o):
    if o["op"] == "gc":
        return "HGC"
    if o["op"] == "read":
        return "HRead %s %s" % (cesgen.zl(o["keys"]), c_tr(o["tr"][0], o["tr"][1]))
    return "HW (%s)" % cesgen.c_wop(o)


def c_hobs(o, r):
    if o["op"] == "read":
        return "ORead %d [%s]" % (r["err"], ";".join(
            "(%d,[%s])" % (cr["k"], ";".join(cesgen.c_series(s) for s in cr["ser"])) for cr in (r.get("read") or [])))
    return "OW %d %s" % (r["err"], z(r.get("end", 0)))


def gen_read(rng, setup, pos, edges=None):
    keys = [c["key"] for c in setup["channels"]]
    ks = rng.sample(keys, min(len(keys), rng.choice([1, 1, 2, 3])))
    x = rng.random()
    if x < 0.15:
        tr = [0, MAXTS]
    else:
        a, b = rng.choice(pos), rng.choice(pos)
        if edges and rng.random() < 0.4:
            b = rng.choice(edges)          # range end on a commit end / possible rollover boundary
        if rng.random() < 0.92 and a > b:
            a, b = b, a
        tr = [a, b]
    return {"op": "read", "keys": ks, "tr": tr}


GC_FLAVOUR = 0.08     # histories built so that the collector has to move domains
GC_TAIL = 0.2         # other histories that end with Close+Open and a collector pass


def gen_case(rng, tier):
    malformed = rng.random() < 0.1
    gc = False
    if not malformed and rng.random() < GC_FLAVOUR:
        setup = cesgen.gen_gc_setup(rng)
        gc = True
    else:
        setup = cesgen.gen_setup(rng, malformed=malformed)
        if not malformed and rng.random() < 0.15:
            cesgen.add_short_write(rng, setup)
        elif not malformed and rng.random() < GC_TAIL:
            setup["script"].append({"op": "reopen"})
            gc = True
    pos, st = cesgen.positions(setup)
    edges = cesgen.commit_edges(setup)
    script = setup["script"]
    setup = {"cap": setup["cap"], "channels": setup["channels"], "script": []}
    ops = []
    for o in script:
        ops.append(o)
        if rng.random() < 0.18:
            ops.append(gen_read(rng, {"channels": setup["channels"]}, pos, edges))
    if gc:
        # one pass of the garbage collector after the last writer (and a reopen), then reads
        ops.append({"op": "gc"})
        for _ in range(rng.randrange(1, 4)):
            ops.append(gen_read(rng, {"channels": setup["channels"]}, pos, edges))
    final = [gen_read(rng, {"channels": setup["channels"]}, pos, edges) for _ in range(rng.randrange(4, 11))]
    case = {"setup": setup, "ops": ops, "final": final}
    # iterator reuse: one final read is repeated through an iterator opened on a narrow range
    # elsewhere and re-targeted with SetBounds; it must return what DB.Read returns
    cand = [i for i, o in enumerate(final) if o["tr"][0] <= o["tr"][1]]
    if cand:
        a = rng.choice(pos)
        case["rebound"] = {"i": rng.choice(cand), "open": [a, min(MAXTS, a + rng.choice([0, 1, 2, 10, 1000]))]}
    return case


def gen_cases(rng, tier, n):
    return [gen_case(rng, tier) for _ in range(n)]


def harness_violation(case, r):
    if r.get("panic"):
        return "panic in the real reader/writer: " + r["panic"][:300]
    if r.get("fatal"):
        return "harness could not run the case: " + r["fatal"][:300]
    for sect in ("outs", "final_a", "final_b"):
        for n, o in enumerate(r.get(sect) or []):
            if o.get("late") is not None:
                return ("the frame returned by DB.Read #%d (%s) no longer carries what it carried when it was returned: "
                        "then %s, at the end of the case %s" % (n, sect, json.dumps(o.get("read"))[:200], json.dumps(o["late"])[:200]))
    return rebound_violation(case, r)


def rebound_violation(case, r):
    rb = case.get("rebound")
    if not rb:
        return None
    for sect, key in (("final_a", "reb_a"), ("final_b", "reb_b")):
        x = r.get(key)
        fin = r.get(sect) or []
        if x is None or rb["i"] >= len(fin):
            continue
        ref = fin[rb["i"]]
        if ref["err"] != 0:
            continue
        if x["err"] != 0 or x.get("read") != ref.get("read"):
            return ("two read paths disagree (%s): an iterator opened on %s and re-targeted with SetBounds(%s) returns %s "
                    "(err %d), DB.Read of the same range and channels returns %s" % (
                        sect, rb["open"], case["final"][rb["i"]]["tr"], json.dumps(x.get("read"))[:300], x["err"],
                        json.dumps(ref.get("read"))[:300]))
    return None


def to_coq(case, r):
    s = case["setup"]
    if len(r["outs"]) != len(case["ops"]) or len(r["final_a"]) != len(case["final"]) or len(r["final_b"]) != len(case["final"]):
        raise ValueError("result length mismatch")
    return "Case %s %s [%s] [%s] [%s] [%s] [%s]" % (
        z(s["cap"]), cesgen.c_chans(s["channels"]),
        ";".join(c_hop(o) for o in case["ops"]),
        ";".join(c_hobs(o, x) for o, x in zip(case["ops"], r["outs"])),
        ";".join(c_hop(o) for o in case["final"]),
        ";".join(c_hobs(o, x) for o, x in zip(case["final"], r["final_a"])),
        ";".join(c_hobs(o, x) for o, x in zip(case["final"], r["final_b"])))


def _reads(case, r):
    for o, x in zip(case["ops"], r.get("outs", [])):
        if o["op"] == "read":
            yield o, x
    for o, x in zip(case["final"], r.get("final_a", [])):
        yield o, x


def nontrivial(case, r):
    s = case["setup"]
    sessions = sum(1 for o, x in zip(case["ops"], r["outs"]) if o["op"] == "open" and x["err"] == 0)
    multi = sessions >= 2 or s["cap"] in (40, 64, 100)
    stamps = sorted({v for o in case["ops"] if o["op"] == "write" for kv in o["frame"]
                     for c in s["channels"] if c["key"] == kv["k"] and c["index"] == 0 for v in kv["v"]})
    sset = set(stamps)
    between = False
    multi_series = False
    for o, x in _reads(case, r):
        for cr in x.get("read") or []:
            if len(cr["ser"]) >= 2:
                multi_series = True
        e = o["tr"][1]
        if stamps and stamps[0] < e < stamps[-1] and e not in sset:
            between = True
    return multi and (between or multi_series)


def histogram(case, r):
    ks = ["cap=%d" % case["setup"]["cap"], "channels=%d" % len(case["setup"]["channels"])]
    for o, x in zip(case["ops"], r.get("outs", [])):
        ks.append("op=" + o["op"])
        if x["err"]:
            ks.append("%s_err=%d" % (o["op"], x["err"]))
        if o.get("fault"):
            ks.append("short_write_scripted")
        if o["op"] == "gc" and (x.get("msg") or "").startswith("reclaimed="):
            ks.append("gc_pass_reclaimed_bytes" if int(x["msg"][10:]) > 0 else "gc_pass_nothing_to_do")
    for o, x in _reads(case, r):
        n = sum(len(cr["ser"]) for cr in x.get("read") or [])
        ks.append("read_series=%d" % min(n, 4))
        ks.append("read_keys=%d" % len(o["keys"]))
    for c in case["setup"]["channels"]:
        ks.append("dt=" + c["dt"])
    if r.get("reb_a") is not None:
        ks.append("rebound_iterator_read_with_data" if any(cr["ser"] for cr in r["reb_a"].get("read") or [])
                  else "rebound_iterator_read_empty")
    return ks


def neighbours(case, rng):
    out = []
    for i, o in enumerate(case["ops"]):
        c = json.loads(json.dumps(case))
        del c["ops"][i]
        out.append(c)
    for i, o in enumerate(case["final"]):
        for j in (0, 1):
            for d in (-1, 1):
                c = json.loads(json.dumps(case))
                c["final"][i]["tr"][j] = max(0, min(MAXTS, o["tr"][j] + d))
                out.append(c)
    return out


def tags(case, r):
    return set()


def model_dump(case, r):
    t = to_coq(case, r)
    return coq_print(PID, COQ_IMPORTS, COQ_EXTRA + "\nEval vm_compute in model_dump (%s)." % t)[-8000:]


def extra(ctx, n=120):
    """share of generated histories whose final model layout (every channel) lies inside the
    decidable hypothesis (layout_okb) of C01_read_exact_partial"""
    import random
    rng = random.Random(ctx.seed * 15485863 + 5)
    cases = [gen_case(rng, ctx.tier) for _ in range(n)]
    terms = []
    for c in cases:
        s = c["setup"]
        terms.append("Case %s %s [%s] [] [] [] []" % (z(s["cap"]), cesgen.c_chans(s["channels"]),
                     ";".join(c_hop(o) for o in c["ops"] if o["op"] != "read")))
    out = coq_print(PID, COQ_IMPORTS, COQ_EXTRA + "\nEval vm_compute in map in_guard [%s]." % ";\n".join(terms), timeout=600)
    out = re.sub(r"\s+", " ", out)
    m = re.search(r"= (\[[a-z; ]*\]) : list bool", out)
    if m:
        vals = [x.strip() for x in m.group(1)[1:-1].split(";") if x.strip()]
        ctx.extra_cov["layout_guard_sample"] = "%d of %d generated histories end in a layout satisfying layout_okb on every channel" % (vals.count("true"), len(vals))
    else:
        ctx.notes.append("guard coverage could not be evaluated")


def consts(repo):
    """file-size factors of domain.Config.Override / fileController.realFileSizeCap and the default cap"""
    src = open(os.path.join(repo, "cesium/internal/domain/db.go")).read()
    fc = open(os.path.join(repo, "cesium/internal/domain/file_controller.go")).read()
    opt = open(os.path.join(repo, "cesium/options.go")).read()
    m1 = re.search(r"c\.FileSize\s*=\s*telem\.Size\(math\.Round\(([0-9.]+)\s*\*\s*float64\(c\.FileSize\)\)\)", src)
    m2 = re.search(r"math\.Round\(([0-9.]+)\s*\*\s*float64\(fc\.FileSize\)\)", fc)
    m3 = re.search(r"o\.fileSize\s*=\s*override\.Numeric\((\d+)\s*\*\s*telem\.Gigabyte", opt)
    if not (m1 and m2 and m3):
        raise ValueError("file size factors not found")
    from fractions import Fraction
    f1, f2 = Fraction(m1.group(1)), Fraction(m2.group(1))
    return ("(* generated from cesium/internal/domain/{db,file_controller}.go and cesium/options.go by runner/props/C01.py *)\n"
            "From Coq Require Import ZArith.\nLocal Open Scope Z_scope.\n"
            "Definition go_nominal_num : Z := %d.\nDefinition go_nominal_den : Z := %d.\n"
            "Definition go_realcap_num : Z := %d.\nDefinition go_realcap_den : Z := %d.\n"
            "Definition go_default_cap : Z := %d.\n" % (f1.numerator, f1.denominator, f2.numerator, f2.denominator,
                                                       int(m3.group(1)) * 10 ** 9))


SRC_SPECS = ["telem"]     # translator/specs/telem.json -> Generated/Src_Telem.v (regenerated on every run)
READY = True
TECHNIQUE = "Coq proof (refinement of the write/read model to the committed-samples specification) + model/impl correspondence by vm_compute"
DESIGN_REF = "DESIGN.md §8 C01"
LEVEL_TEXT = ("Machine-checked Coq theorems over an executable Gallina model of the cesium write path (newStreamWriter, idxWriter.write/"
              "validateWrite/Commit/resolveCommitEnd, unary.Writer, domain.Writer commit/rollover, domain index insert/update) and read path "
              "(DB.Read = SeekFirst; Next(TimeSpanMax)* over unary iterators, index Distance/search): for every stored layout satisfying the "
              "decidable guard layout_ok and every read range, DB.Read of a channel returns exactly the stored samples whose index stamps lie "
              "in the range, each once, ascending (C01_read_exact_partial, with layer theorems search_spec, distance_count, slice_exact); a "
              "Write without commit, Close and Reopen change no read (C01_uncommitted_invisible); for one writer session (any frames, any "
              "commit points, any data type kind) the history itself is refined: every step succeeds and every read returns exactly "
              "filter-by-range of `committed h` (C01_single_session_committed_partial, by an invariant over the operation list). The abstract specification `committed h` "
              "(samples of successful writes made visible by successful commits) is stated separately from the mechanism. The model is tied "
              "to /repo on every run: generated histories (several writers at disjoint times incl. before existing data, variable-length "
              "types, file-size caps forcing rollover, auto-commit, reopen) are executed on the real cesium.DB through the public API; all "
              "writer outcomes and every series of every read are compared with the model inside Coq, and a decidable monitor compares the "
              "implementation's reads with `committed h` (also after Close+Open).")
LEVEL_NOTE = ("Trusted: Coq kernel/vm_compute; hand-written model (tied by correspondence); harness (public API only) and its sample<->bytes "
              "codec; generator. Theorems closed under the global context. partial: the write->layout refinement (history => layout_ok and "
              "layout_assoc = committed h) is observed, not proved; read exactness carries the hypothesis layout_ok. Finding F25 (index Distance "
              "reported a range ending on an index file-rollover boundary as discontinuous => reads returned nothing) was found by this "
              "check and repaired by fix commit 5e59704 (C01_legacy_distance_refuted keeps the witness). One writer session at a time; "
              "explicit index frames only; no crash/persistence modelling (that is C02).")
