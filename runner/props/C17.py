"""C17 — indexed queries equal full scans; uncommitted writes stay private, aborts vanish."""
import json
from vlib import cN, cZ, clist, cpair, cbool, coq_print

PID = "C17"
MODULE, PKG, BIN = "x/go", "./verifh/c17", "c17"
COQ_IMPORTS = "From Synnax Require Import Common.Base Core.Gorp Monitors.Mon_C17."
CASE_TYPE = "case_t"
COUNTS = {"quick": 700, "thorough": 15000}
SHARD = 90
READY = True

# False while the model copies the pinned upstream Get (a value listed twice returns its bucket twice);
# True once fix F16 is in /repo. consts() re-derives it from the Go source on every run.
DEDUP = False

KEYS = [1, 2, 3, 4, 5, 6, 7, 300, 4000000000]
AV = [0, 1, 2, 3]
BV = [0, 1, 2, 3, 4, 5]
CV = [0, 1, 2]


# ----------------------------------------------------------------------------- generator
class Sim:
    """Tiny reference bookkeeping used only to steer the generator (which keys exist in which
    transaction's view, so that scripts are mostly valid and filters non-constant)."""

    def __init__(self, seed):
        self.rows = {r[0]: list(r) for r in seed}
        self.txs = {}

    def view(self, t):
        v = dict(self.rows)
        if t:
            for k, r in self.txs[t].items():
                if r is None:
                    v.pop(k, None)
                else:
                    v[k] = r
        return v

    def write(self, t, k, r):
        if t:
            self.txs[t][k] = r
        elif r is None:
            self.rows.pop(k, None)
        else:
            self.rows[k] = r

    def commit(self, t):
        for k, r in self.txs.pop(t).items():
            if r is None:
                self.rows.pop(k, None)
            else:
                self.rows[k] = r


def holds(f, r):
    k = f["k"]
    if k == "keys":
        return r[0] in f["ks"]
    if k == "pred":
        x = r[f["col"]]
        return x < f["v"] if f["cmp"] == "lt" else x == f["v"]
    if k == "idx":
        return r[1 if f["i"] == 0 else 2] in f["vs"]
    if k == "and":
        return all(holds(c, r) for c in f["fs"])
    if k == "or":
        return any(holds(c, r) for c in f["fs"])
    return not holds(f["fs"][0], r)


def gen_row(rng, k=None):
    return [k if k is not None else rng.choice(KEYS), rng.choice(AV), rng.choice(BV), rng.choice(CV)]


def gen_leaf_idx(rng, dup_ok):
    i = rng.randrange(2)
    n = rng.choice([0, 1, 1, 1, 2, 2, 3])
    dom = AV if i == 0 else BV
    vs = [rng.choice(dom) for _ in range(n)]
    if not dup_ok:
        vs = list(dict.fromkeys(vs))
    if rng.random() < 0.05:
        vs.append(9)
    return {"k": "idx", "i": i, "vs": vs}


def gen_leaf(rng, view, dup_ok):
    x = rng.random()
    if x < 0.45:
        return gen_leaf_idx(rng, dup_ok)
    if x < 0.7:
        ks = rng.sample(KEYS, rng.choice([0, 1, 2, 3, 4, 5]))
        if rng.random() < 0.1 and ks and dup_ok:
            ks.append(ks[0])
        return {"k": "keys", "ks": ks}
    col = rng.randrange(4)
    if col == 0:
        return {"k": "pred", "col": 0, "cmp": "lt", "v": rng.choice([2, 4, 6, 301])}
    dom = [AV, BV, CV][col - 1]
    return {"k": "pred", "col": col, "cmp": rng.choice(["eq", "lt"]), "v": rng.choice(dom)}


def gen_tree(rng, view, depth, dup_ok):
    if depth == 0 or rng.random() < 0.3:
        return gen_leaf(rng, view, dup_ok)
    x = rng.random()
    if x < 0.4:
        n = rng.choice([0, 1, 2, 2, 2, 3])
        return {"k": "and", "fs": [gen_tree(rng, view, depth - 1, dup_ok) for _ in range(n)]}
    if x < 0.8:
        n = rng.choice([0, 1, 2, 2, 2, 3])
        return {"k": "or", "fs": [gen_tree(rng, view, depth - 1, dup_ok) for _ in range(n)]}
    return {"k": "not", "fs": [gen_tree(rng, view, depth - 1, dup_ok)]}


def has_idx(f):
    return f["k"] == "idx" or any(has_idx(c) for c in f.get("fs", []))


def gen_filter(rng, view, stats, dup_ok, need_idx=False):
    """a tree of depth <= 3 that is not constant on the rows of the view (8 tries); most contain an index leaf"""
    f = None
    for _ in range(8):
        f = gen_tree(rng, view, 3, dup_ok)
        if not has_idx(f) and (need_idx or rng.random() < 0.7):
            f = {"k": rng.choice(["and", "or"]), "fs": [f, gen_leaf_idx(rng, dup_ok)]}
        vals = {holds(f, r) for r in view.values()}
        if len(vals) == 2:
            stats["nonconst"] = stats.get("nonconst", 0) + 1
            return f
    stats["const"] = stats.get("const", 0) + 1
    return f


def gen_case(rng, tier="quick", dup_ok=True, cross_p=0.02):
    mode = rng.randrange(2)
    seed = []
    for k in rng.sample(KEYS, rng.choice([0, 0, 2, 3, 4, 6])):
        seed.append(gen_row(rng, k))
    sim = Sim(seed)
    ops = []
    stats = {}
    n = rng.randrange(6, 24)
    ntx = rng.choice([0, 1, 1, 2, 2, 2, 3, 3])
    begun = 0
    malformed = rng.random() < 0.12
    def faulted_open():
        """OpenTable whose populate scan dies part-way (storage read error), then index-leaf queries"""
        j = rng.randrange(0, len(sim.rows) + 2)
        if sim.rows and rng.random() < 0.7:
            j = rng.randrange(0, len(sim.rows))
        sim.txs.clear()
        ops.append({"op": "reopen_fault", "lim": j})
        for _ in range(rng.choice([1, 2, 2])):
            ops.append({"op": "query", "t": 0, "f": gen_filter(rng, sim.view(0), stats, dup_ok, need_idx=True)})
        if rng.random() < 0.4:
            ops.append({"op": "query", "t": 0, "f": gen_leaf_idx(rng, False)})
    if seed and rng.random() < 0.15:
        faulted_open()          # the "table opened over pre-existing data" phase with a mid-scan fault
    guard = 0
    while len(ops) < n and guard < 400:
        guard += 1
        x = rng.random()
        open_t = sorted(sim.txs)
        t = rng.choice(open_t) if open_t and rng.random() < 0.75 else 0
        if malformed and rng.random() < 0.1:
            t = rng.choice([1, 2, 3, 4])          # possibly not open: the op must be skipped
            if t not in sim.txs:
                ops.append({"op": rng.choice(["commit", "abort", "commit_fail", "query", "create"]), "t": t,
                            "rows": [gen_row(rng)], "f": {"k": "idx", "i": 0, "vs": [1]}})
                continue
        view = sim.view(t)
        if x < 0.14:
            if begun >= ntx + 1 or len(sim.txs) >= 3:
                continue
            nt = rng.choice([i for i in (1, 2, 3) if i not in sim.txs])
            sim.txs[nt] = {}
            begun += 1
            ops.append({"op": "begin", "t": nt})
        elif x < 0.31:
            rows = []
            tomb = [k for k, w in sim.txs.get(t, {}).items() if w is None] if t else []
            for _ in range(rng.choice([1, 1, 2, 3])):
                r = gen_row(rng)
                if tomb and rng.random() < 0.5:
                    r[0] = rng.choice(tomb)        # re-create a key this transaction deleted
                    if rng.random() < 0.5:
                        r[1 + rng.randrange(2)] = 0  # ... with the zero value in an indexed column
                elif view and rng.random() < 0.3:
                    r[0] = rng.choice(list(view))
                rows.append(r)
            for r in rows:
                sim.write(t, r[0], list(r))
            ops.append({"op": "create", "t": t, "rows": rows})
        elif x < 0.44:
            k = rng.choice(list(view) or KEYS) if rng.random() < 0.9 else rng.choice(KEYS)
            a = rng.choice(AV + [-1])
            b = rng.choice(BV + [-1])
            c = rng.choice(CV + [-1, -1])
            if rng.random() < 0.2:
                f = gen_filter(rng, view, stats, dup_ok, need_idx=True)
                tgt = [r for r in view.values() if holds(f, r)]
                o = {"op": "update", "t": t, "f": f, "a": a, "b": b, "c": c}
            else:
                tgt = [view[k]] if k in view else []
                o = {"op": "update", "t": t, "kk": k, "a": a, "b": b, "c": c}
            for r in tgt:
                r2 = [r[0], a if a >= 0 else r[1], b if b >= 0 else r[2], c if c >= 0 else r[3]]
                sim.write(t, r[0], r2)
            ops.append(o)
        elif x < 0.53:
            if rng.random() < 0.25:
                f = gen_filter(rng, view, stats, dup_ok)
                tgt = [r[0] for r in view.values() if holds(f, r)]
                o = {"op": "delete", "t": t, "f": f}
            else:
                tgt = rng.sample(KEYS, rng.choice([1, 1, 2]))
                if view and rng.random() < 0.8:
                    tgt[0] = rng.choice(list(view))
                o = {"op": "delete", "t": t, "ks": tgt}
            for k in tgt:
                if k in view:
                    sim.write(t, k, None)
            ops.append(o)
        elif x < 0.74:
            # queries prefer a transaction that has pending writes
            wt = [u for u in open_t if sim.txs[u]]
            if wt and rng.random() < 0.6:
                t = rng.choice(wt)
                view = sim.view(t)
            ops.append({"op": "query", "t": t, "f": gen_filter(rng, view, stats, dup_ok)})
        elif x < 0.80:
            o = {"op": "oquery", "t": t, "dir": rng.randrange(2),
                 "cur": rng.choice([None, None] + BV + [-1, 6]), "lim": 0, "f": None}
            y = rng.random()
            if y < 0.55:
                o["lim"] = rng.choice([1, 2, 3, 5])
            elif y < 0.8:
                o["f"] = gen_filter(rng, view, stats, dup_ok)
            elif y < 0.9:
                o["f"] = gen_filter(rng, view, stats, dup_ok)
                o["lim"] = rng.choice([1, 2, 3])
            ops.append(o)
        elif x < 0.88:
            if not open_t:
                continue
            t = rng.choice(open_t)
            others = [u for u in open_t if u != t]
            u = rng.choice(others) if others and rng.random() < 0.35 else None
            if u is not None:
                overlap = set(sim.txs[t]) & set(sim.txs[u])
                if overlap and rng.random() >= cross_p:
                    u = None
            if u is None and rng.random() < 0.25:
                # the kv commit fails: nothing of t may reach table or indexes
                sim.txs.pop(t)
                ops.append({"op": "commit_fail", "t": t})
                if rng.random() < 0.5:
                    i = rng.randrange(2)
                    ops.append({"op": "get", "t": 0, "i": i,
                                "vs": list(dict.fromkeys(rng.choice(AV if i == 0 else BV) for _ in range(2)))})
                if rng.random() < 0.5:
                    ops.append({"op": "query", "t": 0, "f": gen_filter(rng, sim.view(0), stats, dup_ok, need_idx=True)})
            elif u is not None:
                # u commits inside t's commit (between t's kv commit and t's index flush)
                sim.commit(t)
                sim.commit(u)
                ops.append({"op": "commit2", "t": t, "u": u})
            else:
                sim.commit(t)
                ops.append({"op": "commit", "t": t})
        elif x < 0.92:
            if not open_t:
                continue
            t = rng.choice(open_t)
            sim.txs.pop(t)
            ops.append({"op": "abort", "t": t})
        elif x < 0.935:
            if rng.random() < 0.3:
                faulted_open()
            else:
                sim.txs.clear()
                ops.append({"op": "reopen"})
        elif x < 0.985:
            chs = []
            for _ in range(rng.choice([1, 1, 2, 3])):
                if rng.random() < 0.7:
                    r = gen_row(rng)
                    if sim.rows and rng.random() < 0.5:
                        r[0] = rng.choice(list(sim.rows))
                    chs.append([1] + r)
                    sim.rows[r[0]] = r
                else:
                    k = rng.choice(list(sim.rows) or KEYS)
                    chs.append([0, k])
                    sim.rows.pop(k, None)
            ops.append({"op": "repl", "chs": chs})
        else:
            i = rng.randrange(2)
            vs = [rng.choice(AV if i == 0 else BV) for _ in range(rng.choice([0, 1, 2, 3]))]
            if not dup_ok:
                vs = list(dict.fromkeys(vs))
            ops.append({"op": "get", "t": t, "i": i, "vs": vs})
    # finish: end every transaction, then probe committed state with queries
    for t in sorted(sim.txs):
        y = rng.random()
        if y < 0.55:
            sim.commit(t)
            ops.append({"op": "commit", "t": t})
        elif y < 0.75:
            sim.txs.pop(t)
            ops.append({"op": "commit_fail", "t": t})
        else:
            sim.txs.pop(t)
            ops.append({"op": "abort", "t": t})
    for _ in range(2):
        ops.append({"op": "query", "t": 0, "f": gen_filter(rng, sim.view(0), stats, dup_ok, need_idx=True)})
    return {"mode": mode, "seed": seed, "ops": ops, "avals": AV, "bvals": BV, "gstats": stats}


def gen_cases(rng, tier, n):
    return [gen_case(rng, tier) for _ in range(n)]


# ----------------------------------------------------------------------------- Coq printing
def cnatl(n):
    return "%d%%nat" % n


def c_row(r):
    return "(Row %s %s %s %s)" % (cN(r[0]), cZ(r[1]), cZ(r[2]), cZ(r[3]))


def c_rows(rs):
    return clist([c_row(r) for r in (rs or [])])


def c_optZ(v):
    return "None" if v is None or v < 0 else "(Some %s)" % cZ(v)


def c_keys(ks):
    return clist([cN(k) for k in (ks or [])])


def c_tree(f):
    k = f["k"]
    if k == "keys":
        return "(FKeys %s)" % c_keys(f["ks"])
    if k == "pred":
        return "(FPred %s %s %s)" % (["CK", "CA", "CB", "CC"][f["col"]], "PLt" if f["cmp"] == "lt" else "PEq", cZ(f["v"]))
    if k == "idx":
        return "(FIdx %s %s)" % ("IA" if f["i"] == 0 else "IB", clist([cZ(v) for v in f["vs"]]))
    if k == "and":
        return "(FAnd %s)" % clist([c_tree(c) for c in f["fs"]])
    if k == "or":
        return "(FOr %s)" % clist([c_tree(c) for c in f["fs"]])
    return "(FNot %s)" % c_tree(f["fs"][0])


def c_op(o):
    k = o["op"]
    t = cnatl(o.get("t", 0))
    if k == "begin":
        return "Begin %s" % t
    if k == "create":
        return "Create %s %s" % (t, c_rows(o["rows"]))
    if k == "update":
        tail = "%s %s %s" % (c_optZ(o["a"]), c_optZ(o["b"]), c_optZ(o["c"]))
        if o.get("f"):
            return "UpdateF %s %s %s" % (t, c_tree(o["f"]), tail)
        return "UpdateK %s %s %s" % (t, cN(o["kk"]), tail)
    if k == "delete":
        if o.get("f"):
            return "DeleteF %s %s" % (t, c_tree(o["f"]))
        return "DeleteK %s %s" % (t, c_keys(o["ks"]))
    if k == "query":
        return "Query %s %s" % (t, c_tree(o["f"]))
    if k == "oquery":
        cur = "None" if o.get("cur") is None else "(Some %s)" % cZ(o["cur"])
        f = "None" if not o.get("f") else "(Some %s)" % c_tree(o["f"])
        return "OQuery %s %s %s %s %s" % (t, cbool(o["dir"] == 1), cur, cnatl(o["lim"]), f)
    if k == "commit":
        return "Commit %s" % t
    if k == "commit2":
        return "Commit2 %s %s" % (t, cnatl(o["u"]))
    if k == "abort":
        return "Abort %s" % t
    if k == "commit_fail":
        return "CommitFail %s" % t
    if k == "reopen":
        return "Reopen"
    if k == "reopen_fault":
        return "ReopenFault %s" % cnatl(o["lim"])
    if k == "repl":
        ws = []
        for ch in o["chs"]:
            if ch[0] == 1:
                ws.append("(%s, Some %s)" % (cN(ch[1]), c_row(ch[1:])))
            else:
                ws.append("(%s, None)" % cN(ch[1]))
        return "Repl %s" % clist(ws)
    if k == "get":
        return "Get %s %s %s" % (t, "IA" if o["i"] == 0 else "IB", clist([cZ(v) for v in o["vs"]]))
    raise ValueError(k)


def c_vk(l):
    """[[v, k1, k2...]] -> list (Z * list N)"""
    return clist(["(%s, %s)" % (cZ(x[0]), c_keys(x[1:])) for x in (l or [])])


def c_txp(x):
    return "(TxP %s %s %s %s)" % (cnatl(x["t"]), c_rows(x["rows"]), c_vk(x["lg"]), c_vk(x["sg"]))


def c_nz(l):
    return clist(["(%s, %s)" % (cN(x[0]), cZ(x[1])) for x in (l or [])])


def c_zn(l):
    return clist(["(%s, %s)" % (cZ(x[0]), cN(x[1])) for x in (l or [])])


def c_probe(p):
    inv = p.get("inv") or [False, False]
    return "(PR %s %s %s %s %s %s %s %s %s %s)" % (
        c_rows(p["rows"]), c_vk(p["lf"]), c_nz(p["lr"]), cnatl(p["ld"]),
        c_zn(p["se"]), c_nz(p["sr"]), cnatl(p["sd"]), clist([c_txp(x) for x in (p.get("txs") or [])]),
        cbool(inv[0]), cbool(inv[1]))


def c_pdelta(prev, p):
    """difference of probe p to the previous probe (None when nothing changed)"""
    if prev == p:
        return "None"

    def opt(key, pr):
        return "None" if (prev[key] or []) == (p[key] or []) else "(Some %s)" % pr(p[key])
    old = {x["t"]: x for x in (prev.get("txs") or [])}
    txs = []
    for x in (p.get("txs") or []):
        if old.get(x["t"]) == x:
            txs.append("(%s, None)" % cnatl(x["t"]))
        else:
            txs.append("(%s, Some %s)" % (cnatl(x["t"]), c_txp(x)))
    inv = p.get("inv") or [False, False]
    return "(Some (PD %s %s %s %s %s %s %s %s %s %s))" % (
        opt("rows", c_rows), opt("lf", c_vk), opt("lr", c_nz), cnatl(p["ld"]),
        opt("se", c_zn), opt("sr", c_nz), cnatl(p["sd"]), clist(txs), cbool(inv[0]), cbool(inv[1]))


def c_rq(q):
    if q is None:
        return "None"
    return "(Some (RQ %s %s %s %s %s %s))" % (cN(q["e"]), c_rows(q["r"]), cnatl(q["c"]), cN(q["ce"]),
                                              cbool(q["x"]), cN(q["xe"]))


def to_coq(case, r):
    steps = []
    prev = r["p0"]
    for o, x in zip(case["ops"], r["outs"]):
        g = "None" if x.get("g") is None else "(Some %s)" % c_keys(x["g"])
        steps.append("(%s, IOutD %s %s %s %s %s)" % (c_op(o), cN(x["e"]), c_rq(x.get("qi")), c_rq(x.get("qs")), g,
                                                     c_pdelta(prev, x["p"])))
        prev = x["p"]
    return "(CaseT %s %s %s %s %s %s %s)" % (
        cbool(case["mode"] == 1), cbool(DEDUP), c_rows(case["seed"]),
        clist([cZ(v) for v in case["avals"]]), clist([cZ(v) for v in case["bvals"]]),
        c_probe(r["p0"]), clist(steps))


def harness_violation(case, r):
    if r.get("panic"):
        return "panic: " + r["panic"]
    return None


# ----------------------------------------------------------------------------- plug-in hooks
def _writes(case):
    """per commit2 op: do the two transactions write a common key? (bookkeeping only)"""
    w = {}
    hits = []
    for o in case["ops"]:
        t = o.get("t", 0)
        k = o["op"]
        if k == "begin":
            w[t] = None if t in w and w[t] is None else set()
            w[t] = set()
        elif k in ("create",) and t in w:
            w[t] |= {r[0] for r in o["rows"]}
        elif k == "update" and t in w:
            w[t] |= {o["kk"]} if not o.get("f") else set(KEYS)
        elif k == "delete" and t in w:
            w[t] |= set(o["ks"]) if not o.get("f") else set(KEYS)
        elif k in ("commit", "abort", "commit_fail"):
            w.pop(t, None)
        elif k in ("reopen", "reopen_fault"):
            w.clear()
        elif k == "commit2":
            a, b = w.pop(t, None), w.pop(o["u"], None)
            if a is not None and b is not None and a & b:
                hits.append(sorted(a & b))
    return hits


def _walk(f):
    yield f
    for c in f.get("fs", []) or []:
        yield from _walk(c)


def _filters(case):
    for o in case["ops"]:
        if o.get("f") and o["op"] in ("query", "oquery", "update", "delete"):
            yield o["f"]


def tags(case, r):
    t = set()
    if _writes(case):
        t.add("crossed_commit_flush")
    return t


def nontrivial(case, r):
    """a transaction that wrote, an index leaf queried inside it while the writes were pending, a
    commit or abort, indexed values that collide and a non-empty answer"""
    ops = case["ops"]
    wrote = set()
    q_in_tx = False
    ends = 0
    for o in ops:
        t = o.get("t", 0)
        if o["op"] in ("create", "update", "delete") and t:
            wrote.add(t)
        if o["op"] == "query" and t in wrote and has_idx(o["f"]):
            q_in_tx = True
        if o["op"] in ("commit", "abort", "commit2", "commit_fail"):
            ends += 1
    if len(wrote) < 1 or ends < 1 or not q_in_tx:
        return False
    collide = any(len(x) > 2 for o in r["outs"] for x in (o["p"].get("lf") or []))
    answered = any((o.get("qi") or {}).get("r") for o in r["outs"])
    return collide and answered


def histogram(case, r):
    ks = ["mode=%d" % case["mode"], "seed_rows=%d" % len(case["seed"])]
    for o in case["ops"]:
        ks.append("op=" + o["op"] + ("_filter" if o["op"] in ("update", "delete") and o.get("f") else ""))
        if o["op"] in ("query", "oquery") and o.get("t"):
            ks.append("query_in_tx")
    for f in _filters(case):
        d = 0

        def depth(x):
            return 1 + max([depth(c) for c in x.get("fs", [])] or [0])
        ks.append("filter_depth=%d" % depth(f))
        for n in _walk(f):
            ks.append("node=" + n["k"])
    g = case.get("gstats") or {}
    ks += ["filter_nonconstant"] * g.get("nonconst", 0) + ["filter_constant"] * g.get("const", 0)
    for o, x in zip(case["ops"], r["outs"]):
        if x.get("e") == 3:
            ks.append("skipped_op")
        if x.get("e") == 1:
            ks.append("notfound")
    if _writes(case):
        ks.append("nested_commit_overlapping_writes")
    wr = {o.get("t") for o in case["ops"] if o["op"] in ("create", "update", "delete") and o.get("t")}
    ks.append("writing_txs=%d" % len(wr))
    return ks


def neighbours(case, rng):
    out = []
    for i in range(len(case["ops"])):
        c = json.loads(json.dumps(case))
        del c["ops"][i]
        out.append(c)
    # append index queries for every single value, committed and inside every transaction
    for i, dom in ((0, AV), (1, BV)):
        c = json.loads(json.dumps(case))
        for v in dom:
            c["ops"].append({"op": "query", "t": 0, "f": {"k": "idx", "i": i, "vs": [v]}})
            c["ops"].append({"op": "query", "t": 0, "f": {"k": "not", "fs": [{"k": "idx", "i": i, "vs": [v]}]}})
        out.append(c)
    c = json.loads(json.dumps(case))
    c["mode"] = 1 - c["mode"]
    out.append(c)
    return out


def fixup(case):
    return case


def model_dump(case, r):
    t = to_coq(case, r)
    return coq_print(PID, COQ_IMPORTS, "Definition c := %s.\nEval vm_compute in where_diff c.\n"
                     "Eval vm_compute in model_dump c." % t)[-8000:]


def consts(repo):
    """Generated/Consts_C17.v: does Get skip a value that is listed twice? (fix F16)"""
    import os
    import re
    src = open(os.path.join(repo, "x/go/gorp/index.go")).read()
    n = len(re.findall(r"slices\.Contains\(values\[:i\], v\)", src))
    global DEDUP
    DEDUP = n >= 2
    return ("(* generated from x/go/gorp/index.go on every run *)\n"
            "Definition get_skips_repeated_values : bool := %s.\n" % cbool(DEDUP))


RULE = ("histories of 6-26 ops over begin/create/update(key|filter)/delete(keys|filter)/query/ordered query/commit/"
        "nested commit/commit with injected kv failure/abort/reopen/reopen with a read error j rows into the populate scan/replicated write/Get on a 4-column entry (key, lookup-indexed a in 0..3, "
        "sorted-indexed b in 0..5, payload c) over 9 keys, up to 3 interleaved transactions plus direct DB use, both "
        "observer wirings; filter trees of depth <= 3 over keys/pred/idx/and/or/not re-drawn until non-constant on "
        "the reader's current view (share reported). Non-trivial = a writing transaction, an index-leaf query "
        "inside it while its writes are pending, a commit or abort, a lookup bucket with >=2 keys and a non-empty "
        "answer; distinct by hash.")
TRUSTED = ["hook x/go/gorp/export_verif.go (VerifDump: read-only copies of forward/reverse/entries and the number of "
           "live per-tx deltas)",
           "harness drives the real gorp.Table/LookupIndex/SortedIndex over memkv (pebble in-memory); nested commit "
           "is produced through the kv store's own synchronous observer (public API)"]
ASSUMES = ["filters have at most 12 children per And/Or (Go's SortFunc is stable only up to 12 elements)",
           "no raw/prefix filters, no offset, no validators; populate failure is modelled and checked (mid-scan read error) but lies outside the theorems' scope (op_ok excludes ReopenFault)",
           "every write of a gorp transaction goes through the table's writers (staging)"]
PARTIAL = ("over schedules the property does not hold when the commits of two transactions are crossed (F22, known "
           "finding: U commits between T's kv commit and T's index flush and both wrote one key); the theorems "
           "quantify over all histories whose commits are not crossed and C17_crossed_commit_refuted keeps the witness")
TECHNIQUE = ("Coq proof (index invariants, binary-search correctness, delta merge spec, structural induction over filter "
             "trees, refinement of the index machinery to a table+write-set specification over all histories) + "
             "model/impl correspondence by vm_compute")
DESIGN_REF = "DESIGN.md §8 C17"
LEVEL_TEXT = ("Machine-checked Coq theorems (16, closed under the global context) over an executable Gallina copy of "
              "LookupIndex/SortedIndex (forward/reverse maps, sort.Search bounds, put/remove), the per-transaction "
              "delta (stage/unstage/merge/resolve/flush), the filter machinery (And/Or/Not, materializeFilters, "
              "intersectKeys/unionKeys, resolveFilter, execKeys/execFilter/execOrdered), writers, tx Commit/Close with "
              "cleanups, bulk populate and the index observer: index invariants inductive over all mutation "
              "sequences; binary search = least index; merge specification; for ANY complete index answers every "
              "filter tree executes to the scan's rows (structural induction); a system invariant over ALL histories "
              "of begin/create/update/delete/query/commit/abort/reopen/replicated write from any pre-existing table; "
              "refinement of the whole machinery to a table + write-set specification, giving index=scan for every "
              "reader, isolation, commit visibility, abort leaves nothing, no residue, populate equivalence, ordered "
              "pagination. The model is tied to /repo on every run: the real gorp.Table + indexes over memkv are driven "
              "through generated histories, every query runs in indexed and full-scan form, and all outputs plus a full "
              "dump of both indexes, the delta counts and every open transaction's view after every operation are "
              "compared with the model inside Coq; a decidable monitor states the property against the specification "
              "on the implementation's observations and yields the replay.")
LEVEL_NOTE = ("Trusted: Coq kernel/vm_compute; hand-written model (tied by correspondence, not translation); harness + "
              "read-only hook VerifDump; generator; Generated/Consts_C17.v (regex over index.go for the F21 fix). "
              "Found by this check: F21 (a value listed twice in idx.Filter/Get answered twice; fixed 98c2e16, "
              "C17_repeated_value_refuted keeps the witness) and F22 (crossed commit/flush of two transactions leaves "
              "the index permanently out of step with the table; known finding, reproduced on every run from "
              "corpus/C17/01_*; C17_crossed_commit_refuted). Not modelled: raw/prefix filters, offset, validators, "
              "lazy membership maps, Go map iteration order (results compared as sorted "
              "multisets; order inside equal sorted-index values adopted from the implementation), real goroutine "
              "concurrency (the crossed commit is produced deterministically through the kv observer).")
