"""C19 — compiled Arc code computes what the language specification says."""
import json
import os
import struct

import vlib
from vlib import cZ, cN, cnat, clist, cpair, coq_print

PID = "C19"
MODULE, PKG, BIN = "arc/go", "./verifh/c19", "c19"
COQ_IMPORTS = ("From Synnax Require Import Common.Base Arc.Syntax Arc.Spec Arc.Wasm Arc.Compile Arc.Guard "
               "Arc.FloatExec Monitors.Mon_C19.")
CASE_TYPE = "case_t"
COUNTS = {"quick": 700, "thorough": 12000}
SHARD = 60
OPS_KEY = "args"
HARNESS_TIMEOUT = 600

INT_T = ["i8", "i16", "i32", "i64", "u8", "u16", "u32", "u64"]
FLT_T = ["f32", "f64"]
BITS = {"i8": 8, "i16": 16, "i32": 32, "i64": 64, "u8": 8, "u16": 16, "u32": 32, "u64": 64, "f32": 32, "f64": 64}
TYPE_W = [("i64", 18), ("i32", 18), ("u32", 12), ("u64", 12), ("i8", 6), ("i16", 6), ("u8", 9), ("u16", 5),
          ("f64", 9), ("f32", 5)]
KNOWN_TAGS = {1: "unary_minus_over_pow", 2: "literal_hint_leak", 3: "float_modulo_not_implemented",
 6: "narrow_int_arith_overflow",
              7: "signed_div_overflow", 8: "same_register_cast", 9: "sign_change_cast_out_of_range",
              10: "float_to_int_out_of_range", 11: "u64_pow_exponent_above_i63"}
STAGES = {"ok": 0, "parse": 1, "analyze": 2, "compile": 3, "validate": 4, "instantiate": 5, "nofunc": 6}
TRAPS = {"div_zero": 1, "int_overflow": 2, "invalid_conversion": 3, "unreachable": 4, "pow_zero_neg": 5,
         "timeout": 6}


def is_int(t):
    return t in INT_T


def signed(t):
    return t[0] == "i"


def regbits(t):
    return 64 if t in ("i64", "u64", "f64") else 32


def imin(t):
    return -(1 << (BITS[t] - 1)) if signed(t) else 0


def imax(t):
    return (1 << (BITS[t] - 1)) - 1 if signed(t) else (1 << BITS[t]) - 1


def canon(t, v):
    """register image of the in-range value v of integer type t"""
    return v % (1 << regbits(t))


def f64bits(x):
    return struct.unpack("<Q", struct.pack("<d", x))[0]


def f32bits(x):
    return struct.unpack("<I", struct.pack("<f", x))[0]


def fbits(t, x):
    return f32bits(x) if t == "f32" else f64bits(x)


NAN = {"f32": 0x7FC00000, "f64": 0x7FF8000000000000}


def canon_nan(t, b):
    if t == "f32" and (b & 0x7F800000) == 0x7F800000 and (b & 0x007FFFFF):
        return NAN[t]
    if t == "f64" and (b & 0x7FF0000000000000) == 0x7FF0000000000000 and (b & 0x000FFFFFFFFFFFFF):
        return NAN[t]
    return b


def wchoice(rng, pairs):
    tot = sum(w for _, w in pairs)
    x = rng.random() * tot
    for v, w in pairs:
        x -= w
        if x < 0:
            return v
    return pairs[-1][0]


# ------------------------------------------------------------------ AST helpers
PREC = {"lit": 0, "litf": 0, "var": 0, "svar": 0, "glob": 0, "call": 0, "paren": 0, "cast": 0, "pow": 1, "neg": 2, "not": 2,
        "cmp": 5, "and": 6, "or": 6}


def prec(e):
    if e["k"] == "arith":
        return 3 if e["op"] in "*/%" else 4
    return PREC[e["k"]]


def paren(e):
    return {"k": "paren", "e": e, "ty": e["ty"]}


def fit(e, maxp, rng=None, also=None):
    """parenthesise e when the spec grammar requires it (or, sometimes, redundantly)"""
    if prec(e) > maxp and not (also and e["k"] == also):
        return paren(e)
    if rng is not None and prec(e) > 0 and rng.random() < 0.08:
        return paren(e)
    return e


FLIT = ["0.0", "1.0", "2.0", "0.5", "2.5", "3.0", "10.0", "100.25", "0.125", "7.0", "1024.0", "255.0",
        "65536.0", "0.75", "1.5", "3", "2", "1", "10"]


def mk_lit(rng, t):
    if is_int(t):
        mx = imax(t)
        v = rng.choice([0, 1, 2, 3, 5, 7, 10, 100, 127, 128, 255, 256, 1000, 32767, 65535, mx, mx - 1, mx // 2 + 1,
                        rng.randrange(0, 50), rng.randrange(0, mx + 1)])
        v = min(v, mx)
        return {"k": "lit", "t": t, "v": v, "ty": t}
    txt = rng.choice(FLIT)
    return {"k": "litf", "t": t, "text": txt, "bits": fbits(t, float(txt)), "ty": t}


def typed_lit(e):
    """T(lit): a literal whose type is fixed by an explicit cast"""
    return {"k": "cast", "t": e["ty"], "e": e, "ty": e["ty"]}


def anchored(e):
    """is the type of e fixed by e itself (a variable, a cast, a boolean operator), so that the
    analyzer cannot default its literals to i64 / f64?"""
    k = e["k"]
    if k in ("var", "svar", "glob", "call", "cast", "cmp", "and", "or", "not"):
        return True
    if k in ("paren", "neg"):
        return anchored(e["e"])
    if k == "arith":
        return anchored(e["a"]) or anchored(e["b"])
    if k == "pow":
        return anchored(e["a"])       # the analyzer does not unify base and exponent
    return False


def lits_of(e, acc):
    k = e["k"]
    if k in ("lit", "litf"):
        acc.append(e)
    elif k in ("paren", "neg"):
        lits_of(e["e"], acc)
    elif k == "arith":
        lits_of(e["a"], acc)
        lits_of(e["b"], acc)
    elif k == "pow":
        lits_of(e["a"], acc)
    return acc


def anchor(e, other=None):
    """for positions where nothing else fixes the type: an unanchored literal-only expression is
    typed i64 (integer literals) / f64 (float literals) by the analyzer; if e is meant to have
    another type, fix it with an explicit cast on its first literal. [other]: an unanchored
    expression unified with e (the other operand of a comparison)."""
    if anchored(e):
        return e
    ls = lits_of(e, [])
    al = ls + (lits_of(other, []) if other is not None else [])
    if e["ty"] == "i64" and all(l["k"] == "lit" for l in al):
        return e
    if e["ty"] == "f64" and all(l["k"] == "litf" and "." in l["text"] for l in al):
        return e
    lit = ls[0]
    inner = dict(lit)
    lit.clear()
    lit.update(typed_lit(inner))
    return e


def first_leaf_hint_positions(e, hint, out):
    """mirror of the compiler's hint threading (Compile.cexpr / Guard.hint_ok): collect
    (literal node, hint) pairs where a hint different from the literal's type arrives"""
    k = e["k"]
    if k in ("lit", "litf"):
        if hint is not None and hint != e["ty"]:
            out.append((e, hint))
    elif k in ("paren", "neg", "not"):
        first_leaf_hint_positions(e["e"], hint, out)
    elif k in ("pow", "arith", "cmp"):
        first_leaf_hint_positions(e["a"], hint, out)
        first_leaf_hint_positions(e["b"], e["a"]["ty"], out)
    elif k in ("and", "or"):
        first_leaf_hint_positions(e["a"], hint, out)
        first_leaf_hint_positions(e["b"], hint, out)
    elif k == "cast":
        first_leaf_hint_positions(e["e"], e["t"], out)
    elif k == "call":
        first_leaf_hint_positions(e["a"], e["ty"], out)
        if e["b"] is not None:
            first_leaf_hint_positions(e["b"], e["ty"], out)


def fix_hints(rng, e, hint, keep_leak):
    """wrap literals that would receive a foreign hint into T(lit) (except, rarely, same-kind
    integer leaks that the model covers: the known finding literal_hint_leak)"""
    for _ in range(8):
        out = []
        first_leaf_hint_positions(e, hint, out)
        todo = []
        for lit, h in out:
            same_kind = lit["k"] == "lit" and is_int(h)
            if same_kind and keep_leak and lit["v"] <= imax(h):
                continue
            todo.append(lit)
        if not todo:
            return e
        for lit in todo:
            inner = dict(lit)
            lit.clear()
            lit.update(typed_lit(inner))
    return e


VBASE = 100000      # placeholder indices of helper parameters while a program is being generated


class TyTable(list):
    """types by local index; indices >= VBASE are the (virtual) parameters of helper functions"""

    def __init__(self, xs):
        list.__init__(self, xs)
        self.virt = {}

    def __getitem__(self, i):
        if isinstance(i, int) and i >= VBASE:
            return self.virt[i]
        return list.__getitem__(self, i)


GLOB_I = [-40, -5, -1, 0, 3, 7, 100, -128, 127, -1000]
GLOB_F = ["-2", "-2.5", "0.0", "1.5", "3", "-0.5", "-7", "2.5", "-1.0", "10"]


class Gen:
    def __init__(self, rng, params, known_rate=1.0):
        self.rng = rng
        self.tys = TyTable(params)    # type of every local index
        self.globals = []             # global constants: {"t", "text", "z", "typed"}
        self.helpers = []             # helper functions: {"t", "dtext", "d", "p", "q", "body"}
        self.known_rate = known_rate
        self.loop_rate = 0.0
        self.lvs = []                 # (index, type) of the enclosing loops' variables / counters
        self.svars = set()            # indices of stateful variables
        self.acc = None               # index of the accumulator of programs with loops

    def vars_of(self, scope, t):
        return [i for i in scope if self.tys[i] == t]

    def leaf(self, t, scope):
        rng = self.rng
        gs = [k for k, g in enumerate(self.globals) if g["t"] == t]
        if gs and rng.random() < 0.25:
            return {"k": "glob", "g": rng.choice(gs), "ty": t}
        vs = self.vars_of(scope, t)
        x = rng.random()
        if vs and x < 0.62:
            i = rng.choice(vs)
            return {"k": "svar" if i in self.svars else "var", "i": i, "ty": t}
        if x < 0.74 and scope:
            # cast of a variable of another type
            i = rng.choice(scope)
            if self.tys[i] != t:
                return {"k": "cast", "t": t,
                        "e": {"k": "svar" if i in self.svars else "var", "i": i, "ty": self.tys[i]}, "ty": t}
        return mk_lit(rng, t)

    def cast_src(self, t):
        """source type of a cast to t: mostly the same signedness / kind (sign-changing and
        float->int casts carry known divergences on out-of-range values)"""
        rng = self.rng
        if rng.random() < 0.35:
            same = [u for u, _ in TYPE_W if u != t and is_int(u) == is_int(t) and (not is_int(t) or signed(u) == signed(t))]
            if same:
                return rng.choice(same)
        return wchoice(rng, TYPE_W)

    def bool_expr(self, depth, scope):
        rng = self.rng
        x = rng.random()
        if depth <= 0 or x < 0.10:
            return self.leaf("u8", scope)
        if x < 0.70:
            t2 = wchoice(rng, TYPE_W)
            a = self.expr(t2, depth - 1, scope)
            b = self.expr(t2, depth - 1, scope)
            if not anchored(b):
                a = anchor(a, b)
            op = rng.choice(["==", "!=", "<", ">", "<=", ">="])
            return {"k": "cmp", "op": op, "a": fit(a, 4, rng), "b": fit(b, 4, rng), "ty": "u8"}
        if x < 0.92:
            k = rng.choice(["and", "or"])
            a = anchor(self.bool_expr(depth - 1, scope))
            b = anchor(self.bool_expr(depth - 1, scope))
            return {"k": k, "a": fit(a, 5, rng, also=k), "b": fit(b, 5, rng), "ty": "u8"}
        a = anchor(self.bool_expr(depth - 1, scope))
        if a["k"] == "pow":
            a = paren(a)
        return {"k": "not", "e": fit(a, 2, rng), "ty": "u8"}

    def expr(self, t, depth, scope):
        rng = self.rng
        if depth <= 0 or rng.random() < 0.18:
            return self.leaf(t, scope)
        opts = [("arith", 46), ("neg", 6), ("cast", 10), ("pow", 4), ("leaf", 10)]
        if t == "u8":
            opts += [("bool", 60)]
        hs = [k for k, h in enumerate(self.helpers) if h["t"] == t and h.get("done")]
        if hs:
            opts += [("call", 30)]
        k = wchoice(rng, opts)
        if k == "leaf":
            return self.leaf(t, scope)
        if k == "bool":
            return self.bool_expr(depth, scope)
        if k == "call":
            h = rng.choice(hs)
            a = fix_hints(rng, self.expr(t, depth - 1, scope), t, False)
            b = fix_hints(rng, self.expr(t, depth - 1, scope), t, False) if rng.random() < 0.5 else None
            return {"k": "call", "h": h, "a": a, "b": b, "ty": t}
        if k == "arith":
            ops = "+-*/%" if is_int(t) else "+-*/"
            if not is_int(t) and rng.random() < 0.02:
                ops = "%"
            op = rng.choice(ops)
            a = self.expr(t, depth - 1, scope)
            b = self.expr(t, depth - 1, scope)
            if op in "*/%":
                return {"k": "arith", "op": op, "a": fit(a, 3, rng), "b": fit(b, 2, rng), "ty": t}
            return {"k": "arith", "op": op, "a": fit(a, 4, rng), "b": fit(b, 3, rng), "ty": t}
        if k == "neg":
            a = self.expr(t, depth - 1, scope)
            # spec: '^' binds tighter than unary minus, so -a^b needs no parentheses
            if a["k"] == "pow" and rng.random() > 0.5 * self.known_rate:
                a = paren(a)
            return {"k": "neg", "e": fit(a, 2, rng), "ty": t}
        if k == "not":
            a = anchor(self.expr("u8", depth - 1, scope))
            if a["k"] == "pow":
                a = paren(a)
            return {"k": "not", "e": fit(a, 2, rng), "ty": "u8"}
        if k == "pow":
            a = self.expr(t, depth - 1, scope)
            if rng.random() < 0.7:
                b = mk_lit(rng, t)
                if is_int(t):
                    b["v"] = min(b["v"], rng.choice([0, 1, 2, 3, 5, 9, 31, 63, 64]))
            else:
                b = self.expr(t, depth - 2, scope)
            return {"k": "pow", "a": fit(a, 0, rng), "b": fit(b, 2, rng), "ty": t}
        if k == "cmp":
            t2 = wchoice(rng, TYPE_W)
            a = self.expr(t2, depth - 1, scope)
            b = self.expr(t2, depth - 1, scope)
            if not anchored(b):
                a = anchor(a, b)
            op = rng.choice(["==", "!=", "<", ">", "<=", ">="])
            return {"k": "cmp", "op": op, "a": fit(a, 4, rng), "b": fit(b, 4, rng), "ty": "u8"}
        if k in ("and", "or"):
            a = anchor(self.expr("u8", depth - 1, scope))
            b = anchor(self.expr("u8", depth - 1, scope))
            return {"k": k, "a": fit(a, 5, rng, also=k), "b": fit(b, 5, rng), "ty": "u8"}
        # cast
        t2 = self.cast_src(t)
        a = self.expr(t2, depth - 1, scope)
        return {"k": "cast", "t": t, "e": a, "ty": t}

    def top_expr(self, t, depth, scope, hint):
        e = self.expr(t, depth, scope)
        keep = self.rng.random() < 0.06 * self.known_rate
        return fix_hints(self.rng, e, hint, keep)

    def cond(self, depth, scope):
        rng = self.rng
        if self.lvs and rng.random() < 0.6:
            # inside a loop: a condition on the loop variable / counter, so that the branches
            # taken differ from one iteration to the next
            i, t = rng.choice(self.lvs)
            v = {"k": "var", "i": i, "ty": t}
            if rng.random() < 0.7:
                k = rng.choice([2, 3, 3, 4])
                a = {"k": "arith", "op": "%", "a": v, "b": self.small(t, k, k), "ty": t}
                return {"k": "cmp", "op": "==", "a": a, "b": self.small(t, 0, k - 1), "ty": "u8"}
            return {"k": "cmp", "op": rng.choice(["<", ">", ">=", "=="]), "a": v, "b": self.small(t, 1, 5), "ty": "u8"}
        x = rng.random()
        if x < 0.85:
            t = "u8"
        elif x < 0.92:
            t = rng.choice(["i64", "u64"])
        else:
            t = rng.choice(["i32", "u32", "i8", "u16"])
        return anchor(self.top_expr(t, depth, scope, None))

    def if_chain(self, ret, depth, scope, nest, loops, prot):
        rng = self.rng
        c = self.cond(depth - 1, scope)
        th, _ = self.block(ret, depth - 1, scope, nest + 1, False, loops, prot)
        k = rng.choice([0, 0, 1, 1, 2, 2, 2, 3]) if loops else rng.choice([0, 0, 0, 0, 1, 1, 2])
        has_else = rng.random() < (0.7 if (k or loops) else 0.5)
        elifs = []
        for _ in range(k):          # in source order: local indices follow the order of appearance
            c2 = self.cond(depth - 1, scope)
            th2, _ = self.block(ret, depth - 1, scope, nest + 1, False, loops, prot)
            elifs.append((c2, th2))
        el = None
        if has_else:
            eb, _ = self.block(ret, depth - 1, scope, nest + 1, False, loops, prot)
            el = {"k": "else", "b": eb}
        for c2, th2 in reversed(elifs):
            el = {"k": "elif", "c": c2, "th": th2, "el": el}
        return {"k": "if", "c": c, "th": th, "el": el}

    def new_local(self, t):
        i = len(self.tys)
        self.tys.append(t)
        return i

    def small(self, t, lo, hi):
        return {"k": "lit", "t": t, "v": self.rng.randrange(lo, hi + 1), "ty": t}

    def loop(self, ret, depth, scope, nest, loops, prot):
        """a bounded loop (spec.md has none; these are the forms the compiler accepts); returns
        the statements to emit (a counter declaration may precede the loop)"""
        rng = self.rng
        kind = wchoice(rng, [("range", 50), ("cond", 30), ("inf", 20)])
        if kind == "range":
            t = wchoice(rng, [("i64", 40), ("i32", 25), ("u32", 15), ("u64", 20)])
            i = self.new_local(t)
            lim = self.new_local(t)
            form = rng.choice([1, 1, 2, 2, 3, 3])
            vs = [v for v in scope if self.tys[v] == t]
            if vs and rng.random() < 0.4:
                vi = rng.choice(vs)
                stop = {"k": "arith", "op": "%", "a": {"k": "svar" if vi in self.svars else "var", "i": vi, "ty": t},
                        "b": self.small(t, 2, 6), "ty": t}
            else:
                stop = self.small(t, 0, 7)
            start = self.small(t, 0, 3) if form >= 2 else None
            step = None
            if form == 3:
                j = self.new_local(t)
                if signed(t) and rng.random() < 0.4:
                    start = self.small(t, 3, 8)
                    stop = self.small(t, 0, 4)
                    se = {"k": "neg", "e": self.small(t, 1, 3), "ty": t}
                else:
                    se = self.small(t, 1, 3)
                step = {"j": j, "e": se}
            # the analyzer types an all-literal range i64: fix another type with a cast
            args = [a for a in (start, stop) if a is not None]
            if t != "i64" and not any(anchored(a) for a in args):
                tgt = args[0]
                inner = dict(tgt)
                tgt.clear()
                tgt.update(typed_lit(inner) if inner["k"] == "lit" else
                           {"k": "cast", "t": t, "e": inner, "ty": t})
            self.lvs.append((i, t))
            body, _ = self.block(ret, depth - 1, scope + [i], nest, False, loops + 1, set(prot) | {i})
            self.lvs.pop()
            return [{"k": "range", "i": i, "lim": lim, "t": t, "start": start, "stop": stop, "step": step,
                     "b": body}]
        # counter-controlled loops: the counter is bumped first, so `continue` cannot starve it
        t = wchoice(rng, TYPE_W[:8])
        c = self.new_local(t)
        decl = {"k": "decl", "i": c, "t": t, "e": self.small(t, 0, 2), "infer": False}
        bump = {"k": "compound", "i": c, "op": "+", "e": self.small(t, 1, 2)}
        cv = {"k": "var", "i": c, "ty": t}
        sc2 = scope + [c]
        pr2 = set(prot) | {c}
        if kind == "cond":
            cond = {"k": "cmp", "op": rng.choice(["<", "<=", "!="]) if False else rng.choice(["<", "<="]),
                    "a": cv, "b": self.small(t, 1, 7), "ty": "u8"}
            if rng.random() < 0.3:
                extra = anchor(self.bool_expr(depth - 1, scope))
                cond = {"k": "and", "a": cond, "b": fit(extra, 5, rng), "ty": "u8"}
            if rng.random() < 0.12:
                t64 = rng.choice(["i64", "u64"])       # a condition held in a 64-bit register
                cond = {"k": "cast", "t": t64, "e": cond, "ty": t64}
            cond = fix_hints(rng, cond, None, False)         # no literal under a foreign hint
            self.lvs.append((c, t))
            body, _ = self.block(ret, depth - 1, sc2, nest, False, loops + 1, pr2)
            self.lvs.pop()
            return [decl, {"k": "for", "c": cond, "b": [bump] + body}]
        guard = {"k": "cmp", "op": rng.choice([">", ">="]), "a": dict(cv), "b": self.small(t, 2, 7), "ty": "u8"}
        if rng.random() < 0.75:
            leave = [{"k": "break"}]
        else:
            leave = [{"k": "return", "e": self.top_expr(ret, depth - 1, sc2, None)}]
        self.lvs.append((c, t))
        body, _ = self.block(ret, depth - 1, sc2, nest, False, loops + 1, pr2)
        self.lvs.pop()
        return [decl, {"k": "loop", "b": [bump, {"k": "if", "c": guard, "th": leave, "el": None}] + body}]

    def block(self, ret, depth, scope, nest, must_return, loops=0, prot=()):
        """returns (stmts, scope_after)"""
        rng = self.rng
        scope = list(scope)
        out = []
        n = rng.choice([0, 0, 1, 1, 2, 3]) if nest > 0 else rng.choice([0, 1, 1, 2, 3, 4])
        if loops:
            n = rng.choice([0, 1, 1, 2]) if nest > 0 else rng.choice([0, 1, 2, 2, 3])
        for _ in range(n):
            x = rng.random()
            assignable = [v for v in scope if v not in prot]
            if x < 0.36:
                t = wchoice(rng, TYPE_W)
                i = self.new_local(t)
                e = self.top_expr(t, depth, scope, t)
                infer = e["k"] in ("var", "cast") and rng.random() < 0.5
                out.append({"k": "decl", "i": i, "t": t, "e": e, "infer": infer})
                scope.append(i)
            elif x < 0.49 and assignable:
                i = rng.choice(assignable)
                out.append({"k": "sassign" if i in self.svars else "assign", "i": i,
                            "e": self.top_expr(self.tys[i], depth, scope, self.tys[i])})
            elif x < 0.62 and assignable:
                i = rng.choice(assignable)
                t = self.tys[i]
                op = rng.choice("+-*/%" if is_int(t) else "+-*/")
                out.append({"k": "scompound" if i in self.svars else "compound", "i": i, "op": op,
                            "e": self.top_expr(t, depth - 1, scope, t)})
            elif x < 0.62 + self.loop_rate and loops < 2 and nest + loops < 3:
                sts = self.loop(ret, depth, scope, nest, loops, prot)
                for st in sts:
                    if st["k"] == "decl":
                        scope.append(st["i"])
                        prot = set(prot)     # the counter stays assignable after its loop
                out += sts
            elif nest < 2:
                out.append(self.if_chain(ret, depth, scope, nest, loops, prot))
                if loops and self.acc is not None and rng.random() < 0.8:
                    # statements after the chain must not run after a break / continue inside it
                    out.append({"k": "compound", "i": self.acc, "op": "+",
                                "e": self.small(self.tys[self.acc], 1, 9)})
        z = rng.random()
        if must_return:
            out.append({"k": "return", "e": self.top_expr(ret, depth, scope, None)})
        elif loops > 0 and z < (0.45 if nest > 0 else 0.12):
            out.append({"k": rng.choice(["break", "continue", "continue"])})
        elif z < 0.45 + (0.25 if loops else 0.0) and (nest > 0 or loops == 0) and z >= (0.45 if loops and nest > 0 else 0.0):
            out.append({"k": "return", "e": self.top_expr(ret, depth, scope, None)})
        return out, scope


SINIT = {"f": ["1.0", "2.5", "0.5", "2.0", "1.5", "0.0"], "i": [3, 2, 5, 1, 0, 4]}
SSTEP = {"f": ["0.5", "1.0", "0.25", "1.25", "2.5"], "i": [1, 2, 3, 1]}


def gen_prog(rng, known_rate=1.0, loops=None, state=None, consts=None):
    if state is None:
        state = rng.random() < 0.22
    np_ = rng.choice([1, 2, 2, 2, 3])
    params = [wchoice(rng, TYPE_W) for _ in range(np_)]
    if rng.random() < 0.55:
        params = [params[0]] * np_
    svt = []
    if state:
        # stateful variables ($=): persist across the calls of the case. One or two of them; the
        # first parameter has the type of the first one, so that it can serve as the step.
        for _ in range(rng.choice([1, 1, 2])):
            svt.append(wchoice(rng, [("f64", 30), ("f32", 25), ("i64", 10), ("i32", 10), ("u8", 8), ("u32", 7),
                                     ("i16", 5), ("u64", 5)]))
        params[0] = svt[0]
    ret = wchoice(rng, TYPE_W) if rng.random() < 0.6 else params[0]
    if state and rng.random() < 0.7:
        ret = svt[0]
    g = Gen(rng, params, known_rate)
    if consts is None:
        consts = rng.random() < 0.3
    if consts:
        # global constants (negative / zero / positive, integer and float, an integer literal on a
        # float type) and helper functions with a default value for their second parameter
        def constant(t):
            if is_int(t):
                v = rng.choice(GLOB_I + [imin(t), imax(t)])
                v = max(imin(t), min(imax(t), v))
                if v == -(1 << 63):
                    v += 1
                return str(v), v
            txt = rng.choice(GLOB_F)
            return txt, fbits(t, float(txt))
        for _ in range(rng.choice([0, 1, 2, 3])):
            t = rng.choice(params + [wchoice(rng, TYPE_W)])
            txt, z = constant(t)
            typed = not ((t == "i64" and rng.random() < 0.4) or (t == "f64" and "." in txt and rng.random() < 0.4))
            g.globals.append({"t": t, "text": txt, "z": z, "typed": typed})
        for k in range(rng.choice([0, 1, 1, 2])):
            t = rng.choice(params + [wchoice(rng, TYPE_W)])
            txt, z = constant(t)
            p_, q_ = VBASE + 2 * k, VBASE + 2 * k + 1
            g.tys.virt[p_] = t
            g.tys.virt[q_] = t
            h = {"t": t, "dtext": txt, "d": z, "p": p_, "q": q_, "body": None}
            g.helpers.append(h)
            h["body"] = g.top_expr(t, rng.choice([1, 2, 2]), [p_, q_], None)
            if rng.random() < 0.85:
                # the second parameter (the one with the default) must matter
                op = rng.choice("+-*") if is_int(t) else rng.choice("+-*")
                old = h["body"]
                h["body"] = fix_hints(rng, {"k": "arith", "op": op,
                                            "a": fit(old, 4 if op in "+-" else 3),
                                            "b": {"k": "var", "i": q_, "ty": t}, "ty": t}, None, False)
            h["done"] = True
    if loops is None:
        loops = rng.random() < (0.4 if not state else 0.2)
    g.loop_rate = 0.30 if loops else 0.0
    depth = rng.choice([1, 2, 2, 3, 3, 4])
    scope = list(range(np_))
    pre = []
    for t in svt:
        i = g.new_local(t)
        g.svars.add(i)
        kind = "i" if is_int(t) else "f"
        if kind == "i":
            init = {"k": "lit", "t": t, "v": rng.choice(SINIT["i"]), "ty": t}
        else:
            txt = rng.choice(SINIT["f"])
            init = {"k": "litf", "t": t, "text": txt, "bits": fbits(t, float(txt)), "ty": t}
        pre.append({"k": "sdecl", "i": i, "t": t, "e": init})
        scope.append(i)
        # a step towards (and through) zero: x = x - step, x -= c, or a guarded reset to zero
        me = {"k": "svar", "i": i, "ty": t}
        y = rng.random()
        if kind == "i":
            stepl = {"k": "lit", "t": t, "v": rng.choice(SSTEP["i"]), "ty": t}
        else:
            txt = rng.choice(SSTEP["f"])
            stepl = {"k": "litf", "t": t, "text": txt, "bits": fbits(t, float(txt)), "ty": t}
        if y < 0.4 and params[0] == t:
            pre.append({"k": "sassign", "i": i, "e": {"k": "arith", "op": "-", "a": me,
                                                      "b": {"k": "var", "i": 0, "ty": t}, "ty": t}})
        elif y < 0.7:
            pre.append({"k": "scompound", "i": i, "op": "-", "e": stepl})
        elif y < 0.9:
            zero = dict(stepl)
            if kind == "i":
                zero["v"] = 0
            else:
                zero.update({"text": "0.0", "bits": 0})
            cond = {"k": "cmp", "op": rng.choice([">", "!=", ">="]), "a": dict(me), "b": zero, "ty": "u8"}
            if rng.random() < 0.5:
                th = [{"k": "sassign", "i": i, "e": {"k": "arith", "op": "-", "a": dict(me), "b": stepl, "ty": t}}]
            else:
                th = [{"k": "sassign", "i": i, "e": dict(zero)}]
            pre.append({"k": "if", "c": cond, "th": th, "el": None})
    if loops and not svt and rng.random() < 0.75:
        # an accumulator that records which parts of the loop bodies ran; it is returned
        ta = rng.choice(["i64", "i64", "i32", "u32"])
        ret = ta
        a = g.new_local(ta)
        g.acc = a
        pre.append({"k": "decl", "i": a, "t": ta, "e": {"k": "lit", "t": ta, "v": 0, "ty": ta}, "infer": False})
        scope.append(a)
    body, _ = g.block(ret, depth, scope, 0, True, 0, {g.acc} if g.acc is not None else ())
    if g.acc is not None:
        me = {"k": "var", "i": g.acc, "ty": ret}
        old = body[-1]["e"]
        body[-1]["e"] = me if (rng.random() < 0.5 or prec(old) > 3) else \
            fix_hints(rng, {"k": "arith", "op": "+", "a": me, "b": old, "ty": ret}, None, False)
    if svt and ret == svt[0] and rng.random() < 0.75:
        # make the persisted value observable: return it (possibly combined with something else)
        me = {"k": "svar", "i": np_, "ty": ret}
        old = body[-1]["e"]
        if rng.random() < 0.6 or prec(old) > 3:
            body[-1]["e"] = me
        else:
            body[-1]["e"] = {"k": "arith", "op": "+", "a": me, "b": old, "ty": ret}
            body[-1]["e"] = fix_hints(rng, body[-1]["e"], None, False)
    prog = {"params": params, "locals": list(g.tys[np_:]), "ret": ret, "body": pre + body}
    if g.globals or g.helpers:
        # helper parameters get the indices after the real locals
        nreal = len(g.tys)
        for h in g.helpers:
            h.pop("done", None)

        def remap(x):
            if isinstance(x, dict):
                if x.get("k") in ("var", "svar") and x["i"] >= VBASE:
                    x["i"] = nreal + (x["i"] - VBASE)
                for v in x.values():
                    remap(v)
            elif isinstance(x, list):
                for v in x:
                    remap(v)
        remap(prog["body"])
        for h in g.helpers:
            remap(h["body"])
            h["p"], h["q"] = nreal + (h["p"] - VBASE), nreal + (h["q"] - VBASE)
        prog["globals"] = g.globals
        prog["helpers"] = g.helpers
        prog["virt"] = [t for h in g.helpers for t in (h["t"], h["t"])]
    return prog


def gen_call_args(rng, f, n):
    """argument vectors of one case. For a function with stateful variables the calls form one
    sequence: a few vectors of small exact steps, each repeated, so that the persisted values pass
    through exactly 0 / 0.0 and beyond."""
    if '"sdecl"' not in json.dumps(f["body"]):
        return gen_args(rng, f, n)
    def small(t):
        if is_int(t):
            return str(canon(t, rng.choice([1, 1, 2, 3, 0])))
        return str(fbits(t, float(rng.choice(SSTEP["f"] + ["0.0"]))))
    out = []
    while len(out) < n:
        v = [small(t) for t in f["params"]]
        out += [list(v) for _ in range(rng.choice([2, 3, 4, 5]))]
    return out[:n]


# ------------------------------------------------------------------ printers: Arc source
def vname(f, i):
    if i < len(f["params"]):
        return "p%d" % i
    if i >= len(f["params"]) + len(f["locals"]):
        return "a%d" % i          # parameter of a helper function
    return "v%d" % i


def src_expr(f, e):
    k = e["k"]
    if k == "lit":
        return str(e["v"])
    if k == "litf":
        return e["text"]
    if k in ("var", "svar"):
        return vname(f, e["i"])
    if k == "glob":
        return "G%d" % e["g"]
    if k == "call":
        args = [src_expr(f, e["a"])] + ([src_expr(f, e["b"])] if e["b"] is not None else [])
        return "h%d(%s)" % (e["h"], ", ".join(args))
    if k == "paren":
        return "(" + src_expr(f, e["e"]) + ")"
    if k == "neg":
        s = src_expr(f, e["e"])
        return "-" + (" " if s.startswith("-") else "") + s
    if k == "not":
        return "not " + src_expr(f, e["e"])
    if k == "pow":
        return src_expr(f, e["a"]) + " ^ " + src_expr(f, e["b"])
    if k in ("arith", "cmp"):
        return src_expr(f, e["a"]) + " " + e["op"] + " " + src_expr(f, e["b"])
    if k in ("and", "or"):
        return src_expr(f, e["a"]) + " " + k + " " + src_expr(f, e["b"])
    if k == "cast":
        return e["t"] + "(" + src_expr(f, e["e"]) + ")"
    raise ValueError(k)


def src_block(f, b, ind):
    out = []
    pad = "    " * ind
    for s in b:
        k = s["k"]
        if k == "decl":
            if s.get("infer"):
                out.append("%s%s := %s" % (pad, vname(f, s["i"]), src_expr(f, s["e"])))
            else:
                out.append("%s%s %s := %s" % (pad, vname(f, s["i"]), s["t"], src_expr(f, s["e"])))
        elif k == "sdecl":
            out.append("%s%s %s $= %s" % (pad, vname(f, s["i"]), s["t"], src_expr(f, s["e"])))
        elif k in ("assign", "sassign"):
            out.append("%s%s = %s" % (pad, vname(f, s["i"]), src_expr(f, s["e"])))
        elif k in ("compound", "scompound"):
            out.append("%s%s %s= %s" % (pad, vname(f, s["i"]), s["op"], src_expr(f, s["e"])))
        elif k == "return":
            out.append("%sreturn %s" % (pad, src_expr(f, s["e"])))
        elif k in ("break", "continue"):
            out.append(pad + k)
        elif k == "for":
            out.append("%sfor %s {" % (pad, src_expr(f, s["c"])))
            out += src_block(f, s["b"], ind + 1)
            out.append(pad + "}")
        elif k == "loop":
            out.append(pad + "for {")
            out += src_block(f, s["b"], ind + 1)
            out.append(pad + "}")
        elif k == "range":
            args = [src_expr(f, a) for a in (s["start"], s["stop"]) if a is not None]
            if s["step"] is not None:
                args.append(src_expr(f, s["step"]["e"]))
            out.append("%sfor %s := range(%s) {" % (pad, vname(f, s["i"]), ", ".join(args)))
            out += src_block(f, s["b"], ind + 1)
            out.append(pad + "}")
        elif k == "if":
            line = "%sif %s {" % (pad, src_expr(f, s["c"]))
            out.append(line)
            out += src_block(f, s["th"], ind + 1)
            el = s["el"]
            while el is not None:
                if el["k"] == "else":
                    out.append(pad + "} else {")
                    out += src_block(f, el["b"], ind + 1)
                    el = None
                else:
                    out.append("%s} else if %s {" % (pad, src_expr(f, el["c"])))
                    out += src_block(f, el["th"], ind + 1)
                    el = el["el"]
            out.append(pad + "}")
    return out


def src_func(f):
    out = []
    for k, g in enumerate(f.get("globals") or []):
        out.append("G%d %s:= %s" % (k, (g["t"] + " ") if g["typed"] else "", g["text"]))
    for k, h in enumerate(f.get("helpers") or []):
        out.append("func h%d(%s %s, %s %s = %s) %s {\n    return %s\n}" % (
            k, vname(f, h["p"]), h["t"], vname(f, h["q"]), h["t"], h["dtext"], h["t"], src_expr(f, h["body"])))
    ps = ", ".join("p%d %s" % (i, t) for i, t in enumerate(f["params"]))
    out.append("func f(%s) %s {\n%s\n}\n" % (ps, f["ret"], "\n".join(src_block(f, f["body"], 1))))
    return "\n".join(out)


# ------------------------------------------------------------------ printers: Coq terms
def c_ity(t):
    return t.upper()


def c_ty(t):
    return "TI %s" % t.upper() if is_int(t) else "TF %s" % t.upper()


ARITH = {"+": "AAdd", "-": "ASub", "*": "AMul", "/": "ADiv", "%": "AMod"}
CMP = {"==": "CEq", "!=": "CNe", "<": "CLt", ">": "CGt", "<=": "CLe", ">=": "CGe"}


def c_expr(e):
    k = e["k"]
    if k == "lit":
        return "(ELit %s %s)" % (c_ity(e["t"]), cZ(e["v"]))
    if k == "litf":
        return "(ELitF %s %s)" % (e["t"].upper(), cZ(e["bits"]))
    if k == "var":
        return "(EVar %s)" % cnat(e["i"])
    if k == "svar":
        return "(ESVar %s)" % cnat(e["i"])
    if k == "glob":
        g = _cur["globals"][e["g"]]
        return "(EGlob (%s) %s)" % (c_ty(g["t"]), cZ(g["z"]))
    if k == "call":
        h = _cur["helpers"][e["h"]]
        return "(ECall %s (%s) %s %s %s %s %s %s)" % (
            cnat(e["h"]), c_ty(h["t"]), cZ(h["d"]), cnat(h["p"]), cnat(h["q"]), c_expr(h["body"]),
            c_expr(e["a"]), "None" if e["b"] is None else "(Some %s)" % c_expr(e["b"]))
    if k == "paren":
        return "(EParen %s)" % c_expr(e["e"])
    if k == "neg":
        return "(ENeg %s)" % c_expr(e["e"])
    if k == "not":
        return "(ENot %s)" % c_expr(e["e"])
    if k == "pow":
        return "(EPow %s %s)" % (c_expr(e["a"]), c_expr(e["b"]))
    if k == "arith":
        return "(EArith %s %s %s)" % (ARITH[e["op"]], c_expr(e["a"]), c_expr(e["b"]))
    if k == "cmp":
        return "(ECmp %s %s %s)" % (CMP[e["op"]], c_expr(e["a"]), c_expr(e["b"]))
    if k == "and":
        return "(EAnd %s %s)" % (c_expr(e["a"]), c_expr(e["b"]))
    if k == "or":
        return "(EOr %s %s)" % (c_expr(e["a"]), c_expr(e["b"]))
    if k == "cast":
        return "(ECast (%s) %s)" % (c_ty(e["t"]), c_expr(e["e"]))
    raise ValueError(k)


def c_block(b):
    s = "BNil"
    for st in reversed(b):
        s = "(BCons %s %s)" % (c_stmt(st), s)
    return s


def c_els(el):
    if el is None:
        return "ElNone"
    if el["k"] == "else":
        return "(ElElse %s)" % c_block(el["b"])
    return "(ElElif %s %s %s)" % (c_expr(el["c"]), c_block(el["th"]), c_els(el["el"]))


def c_stmt(s):
    k = s["k"]
    if k == "decl":
        return "(SDecl %s (%s) %s)" % (cnat(s["i"]), c_ty(s["t"]), c_expr(s["e"]))
    if k == "assign":
        return "(SAssign %s %s)" % (cnat(s["i"]), c_expr(s["e"]))
    if k == "compound":
        return "(SCompound %s %s %s)" % (cnat(s["i"]), ARITH[s["op"]], c_expr(s["e"]))
    if k == "sdecl":
        return "(SStateDecl %s (%s) %s)" % (cnat(s["i"]), c_ty(s["t"]), c_expr(s["e"]))
    if k == "sassign":
        return "(SSAssign %s %s)" % (cnat(s["i"]), c_expr(s["e"]))
    if k == "scompound":
        return "(SSCompound %s %s %s)" % (cnat(s["i"]), ARITH[s["op"]], c_expr(s["e"]))
    if k == "return":
        return "(SReturn %s)" % c_expr(s["e"])
    if k == "if":
        return "(SIf %s %s %s)" % (c_expr(s["c"]), c_block(s["th"]), c_els(s["el"]))
    if k == "break":
        return "SBreak"
    if k == "continue":
        return "SContinue"
    if k == "for":
        return "(SFor %s %s)" % (c_expr(s["c"]), c_block(s["b"]))
    if k == "loop":
        return "(SLoop %s)" % c_block(s["b"])
    if k == "range":
        st = "None" if s["start"] is None else "(Some %s)" % c_expr(s["start"])
        sp = "None" if s["step"] is None else "(Some (%s, %s))" % (cnat(s["step"]["j"]), c_expr(s["step"]["e"]))
        return "(SRange %s %s %s %s %s %s %s)" % (cnat(s["i"]), cnat(s["lim"]), c_ity(s["t"]), st,
                                                c_expr(s["stop"]), sp, c_block(s["b"]))
    raise ValueError(k)


_cur = {"globals": [], "helpers": []}


def c_func(f):
    _cur["globals"] = f.get("globals") or []
    _cur["helpers"] = f.get("helpers") or []
    hs = clist(["(%s, %s, %s, %s, %s)" % (c_ty(h["t"]), cZ(h["d"]), cnat(h["p"]), cnat(h["q"]), c_expr(h["body"]))
                for h in _cur["helpers"]])
    return ("{| f_params := %s; f_locals := %s; f_ret := %s; f_body := %s; f_virt := %s; f_helpers := %s |}" % (
        clist([c_ty(t) for t in f["params"]]), clist([c_ty(t) for t in f["locals"]]), c_ty(f["ret"]),
        c_block(f["body"]), clist([c_ty(t) for t in (f.get("virt") or [])]), hs))


# ------------------------------------------------------------------ arguments
FARG = [0.0, -0.0, 1.0, -1.0, 2.5, -2.5, 0.1, 3.0, 100.0, 127.0, 128.0, 255.0, 256.0, -129.0, 32768.0, 65535.5,
        2147483647.0, 2147483648.0, -2147483649.0, 4294967296.0, 9.223372036854775807e18, 1.8446744073709552e19,
        -9.3e18, 1e30, -1e30, float("inf"), float("-inf"), float("nan"), 1e-30, 0.5, 16777217.0]


def gen_arg(rng, t, boundary):
    if is_int(t):
        lo, hi = imin(t), imax(t)
        if boundary:
            v = rng.choice([0, 1, hi, lo, hi - 1, lo + 1, 2, -1 if signed(t) else hi // 2 + 1, 3, hi // 2])
        else:
            x = rng.random()
            if x < 0.5:
                v = rng.randrange(-20, 21) if signed(t) else rng.randrange(0, 41)
            elif x < 0.75:
                v = rng.randrange(lo, hi + 1)
            else:
                v = rng.choice([127, 128, 255, 256, 32767, 32768, 65535, 65536, -128, -129, -32768, -32769,
                                2 ** 31 - 1, 2 ** 31, 2 ** 32 - 1, 2 ** 32, 2 ** 63 - 1, 2 ** 63, -2 ** 31, -2 ** 31 - 1])
        v = max(lo, min(hi, v))
        return str(canon(t, v))
    x = rng.choice(FARG) if (boundary or rng.random() < 0.5) else rng.uniform(-300, 300)
    if t == "f32":
        try:
            b = f32bits(x)
        except OverflowError:
            b = f32bits(float("inf") if x > 0 else float("-inf"))
    else:
        b = f64bits(x)
    return str(canon_nan(t, b))


def gen_args(rng, f, n):
    out = []
    for j in range(n):
        out.append([gen_arg(rng, t, j < n // 2 or rng.random() < 0.3) for t in f["params"]])
    # one vector (min, -1, ...) for signed parameters: the signed division overflow corner
    ps = f["params"]
    if len(ps) >= 2 and is_int(ps[0]) and signed(ps[0]) and is_int(ps[1]) and signed(ps[1]) and rng.random() < 0.5:
        v = [str(canon(ps[0], imin(ps[0]))), str(canon(ps[1], -1))]
        v += [gen_arg(rng, t, True) for t in ps[2:]]
        out[rng.randrange(len(out))] = v
    return out


# ------------------------------------------------------------------ no-crash streams
TOKENS = ["func", "if", "else", "return", "for", "break", "continue", "chan", "series", "sequence", "stage", "next",
          "authority", "i8", "i16", "i32", "i64", "u8", "u16", "u32", "u64", "f32", "f64", "str", "and", "or", "not",
          "true", "false", "len", "now", "(", ")", "{", "}", "[", "]", ",", ":", ":=", "$=", "=", "+=", "-=", "*=",
          "/=", "%=", "+", "-", "*", "/", "%", "^", "==", "!=", "<", ">", "<=", ">=", "->", "=>", ".", "..", "\n",
          "\n", " ", "0", "1", "42", "3.14", ".5", "1e9", "100ms", "5s", "1khz", "x", "y", "f", "a", "b", "p0",
          "\"s\"", "`m`", "f\"{x}\"", "r\"\\\"", "//c\n", "/*c*/", "/*", "\"", "`", "\\", "@", "#", "$", "~", "?",
          "99999999999999999999", "1.7976931348623157e309", "0x10", "_", "math.pow", "series.len", "é", "\x00", "\t"]


def gen_soup(rng):
    x = rng.random()
    if x < 0.45:
        n = rng.randrange(1, 60)
        toks = [rng.choice(TOKENS) for _ in range(n)]
        return " ".join(toks) if rng.random() < 0.7 else "".join(toks)
    if x < 0.8:
        # a valid program with token-level damage
        f = gen_prog(rng)
        s = src_func(f)
        parts = s.replace("(", " ( ").replace(")", " ) ").split(" ")
        for _ in range(rng.randrange(1, 5)):
            i = rng.randrange(len(parts))
            y = rng.random()
            if y < 0.4:
                parts[i] = rng.choice(TOKENS)
            elif y < 0.7:
                del parts[i]
            else:
                parts.insert(i, rng.choice(TOKENS))
            if not parts:
                parts = ["func"]
        return " ".join(parts)
    n = rng.randrange(0, 80)
    bs = bytes(rng.randrange(0, 256) for _ in range(n))
    return bs.decode("latin-1")


# ------------------------------------------------------------------ plug-in interface
def mk_case(rng, f, nargs):
    return {"kind": "prog", "prog": f, "src": src_func(f), "fn": "f", "args": gen_call_args(rng, f, nargs),
            "extra_fns": ["h%d" % k for k in range(len(f.get("helpers") or []))]}


def gen_cases(rng, tier, n):
    out = []
    n_soup = n // 4
    for _ in range(n - n_soup):
        f = gen_prog(rng)
        out.append(mk_case(rng, f, 12 if '"sdecl"' in json.dumps(f["body"]) else rng.choice([8, 10, 12])))
    for _ in range(n_soup):
        out.append({"kind": "soup", "src": gen_soup(rng), "fn": "f", "args": []})
    return out


def imp_ty(name):
    for pre, con in (("math.pow_", "IPow"), ("stateful.load_", "ILoad"), ("stateful.store_", "IStore")):
        if name.startswith(pre):
            return "(%s (%s))" % (con, c_ty(name[len(pre):]))
    raise ValueError("unexpected import %s" % name)


def c_run(ret, av, r):
    if r.get("trap") is not None:
        ir = "RT %s" % cN(TRAPS.get(r["trap"], 0))
    else:
        v = int(r["v"]) if r.get("v") else 0
        if not is_int(ret):
            v = canon_nan(ret, v)
        ir = "RV %s" % cZ(v)
    return cpair(clist([cZ(int(a)) for a in av]), ir)


_seen = {}      # chash(case) -> (case, result): everything evaluated in this process (for extra())


def to_coq(case, r):
    if case.get("kind") != "prog":
        return None
    f = case["prog"]
    code = bytes.fromhex(r.get("code") or "")
    runs = [c_run(f["ret"], av, rr) for av, rr in zip(case["args"], r.get("results") or [])]
    if r.get("stage") == "ok" and len(runs) != len(case["args"]):
        raise ValueError("missing results")
    obs = cpair(cN(STAGES[r["stage"]]), "[" + ";".join(str(b) for b in code) + "]%Z",
                clist([imp_ty(i) for i in (r.get("imports") or [])]), clist(runs))
    key = vlib.chash([case["src"], case["args"]])
    _seen[key] = (case, r)
    return cpair(c_func(f), obs)


def harness_violation(case, r):
    if r.get("panic"):
        return "panic in the Arc tool chain: " + r["panic"][:300]
    return None


def nontrivial(case, r):
    if case.get("kind") != "prog" or r.get("stage") != "ok":
        return False
    f = case["prog"]
    tys = set(f["params"]) | set(f["locals"]) | {f["ret"]}
    ints = {t for t in tys if is_int(t)}
    s = json.dumps(f["body"])
    return len(ints) >= 2 and ('"cast"' in s or '"if"' in s) and len(case["args"]) >= 4


def walk_kinds(b, acc):
    if isinstance(b, dict):
        k = b.get("k")
        if k == "arith":
            acc.append("op" + b["op"] + ":" + b["ty"])
        elif k == "cast":
            acc.append("cast:%s->%s" % (b["e"]["ty"], b["t"]))
        elif k in ("cmp", "and", "or", "not", "neg", "pow", "if", "decl", "assign", "compound", "return", "elif", "else",
                   "for", "loop", "range", "break", "continue", "sdecl", "sassign", "scompound", "svar",
                   "glob", "call"):
            acc.append(k)
        for v in b.values():
            walk_kinds(v, acc)
    elif isinstance(b, list):
        for v in b:
            walk_kinds(v, acc)


def histogram(case, r):
    if case.get("kind") != "prog":
        return ["soup", "soup_stage=" + str(r.get("stage"))]
    ks = ["prog", "stage=" + str(r.get("stage")), "ret=" + case["prog"]["ret"]]
    acc = []
    walk_kinds(case["prog"]["body"], acc)
    for k in set(acc):
        ks.append(k if not k.startswith("cast:") else "cast")
        if k.startswith("op"):
            ks.append(k)
    for rr in r.get("results") or []:
        if rr.get("trap") is not None:
            ks.append("trap=" + rr["trap"].split(":")[0])
    return ks


_explain_cache = {}


def parse_nested(body):
    """parse a printed Coq list (list (list N)) / list (list (list N)) into python lists"""
    body = body.replace("%N", "").replace("%Z", "").replace("%nat", "")
    stack = [[]]
    num = ""
    for ch in body:
        if ch == "[":
            stack.append([])
        elif ch == "]":
            if num.strip():
                stack[-1].append(int(num))
            num = ""
            top = stack.pop()
            stack[-1].append(top)
        elif ch == ";":
            if num.strip():
                stack[-1].append(int(num))
            num = ""
        else:
            num += ch
    return stack[0][0] if stack[0] else []


def explain_batch(pairs):
    """per case: for every failing item of the full-strength monitor, the ids of the known
    divergences whose signature it carries (evaluated in Coq: Mon_C19.explain)"""
    todo = [(c, r) for c, r in pairs if vlib.chash([c["src"], c["args"]]) not in _explain_cache]
    for k in range(0, len(todo), 150):
        chunk = todo[k:k + 150]
        terms = [to_coq(c, r) for c, r in chunk]
        out = coq_print(PID + "x%d" % os.getpid(), COQ_IMPORTS,
                        "Definition E := Eval vm_compute in map explain [%s].\nPrint E." % "; ".join(terms),
                        timeout=900)
        s = out.replace("\n", " ")
        i = s.find("E = ")
        j = s.rfind(" : list")
        if i < 0 or j < 0:
            raise ValueError("cannot evaluate explain: " + out[-800:])
        vals = parse_nested(s[i + 4:j])
        if len(vals) != len(chunk):
            raise ValueError("explain: %d results for %d cases" % (len(vals), len(chunk)))
        for (c, r), v in zip(chunk, vals):
            _explain_cache[vlib.chash([c["src"], c["args"]])] = v
    return [_explain_cache[vlib.chash([c["src"], c["args"]])] for c, r in pairs]


def tags(case, r):
    if case.get("kind") != "prog" or r is None or r.get("panic"):
        return set()
    try:
        items = explain_batch([(case, r)])[0]
    except Exception:  # noqa
        return set()
    if not items or any(not it for it in items):
        return set()          # some failing call carries no known signature: not a known finding
    out = set()
    for it in items:
        out |= {KNOWN_TAGS[i] for i in it}
    return out


def fixup(case):
    return case


def neighbours(case, rng):
    if case.get("kind") != "prog":
        return []
    out = []
    f = case["prog"]
    for _ in range(6):
        c = json.loads(json.dumps(case))
        c["args"] = gen_call_args(rng, f, 12)
        out.append(c)
    return out


def model_dump(case, r):
    t = to_coq(case, r)
    if t is None:
        return None
    return coq_print(PID, COQ_IMPORTS, "Eval vm_compute in model_dump (%s)." % t)[-6000:]


def explain_counts(pairs, chunk=60, jobs=8):
    """one Coq pass over all evaluated cases: Mon_C19.explain per case and Mon_C19.run_counts"""
    import concurrent.futures as cf
    import re as _re
    chunks = [pairs[k:k + chunk] for k in range(0, len(pairs), chunk)]

    def one(ci):
        ch = chunks[ci]
        terms = [to_coq(c, r) for c, r in ch]
        out = coq_print("%sx%d_%d" % (PID, os.getpid(), ci), COQ_IMPORTS,
                        "Definition CS : list case_t := [%s].\n"
                        "Definition E := Eval vm_compute in map explain CS.\nPrint E.\n"
                        "Definition RC := Eval vm_compute in run_counts CS.\nPrint RC." % "; ".join(terms),
                        timeout=900)
        s = out.replace("\n", " ")
        i = s.find("E = ")
        j = s.find(" : list", i)
        m = _re.search(r"RC\s*=\s*\((\d+)%N,\s*(\d+)%N\)", s)
        if i < 0 or j < 0 or not m:
            raise ValueError("cannot evaluate explain: " + out[-800:])
        vals = parse_nested(s[i + 4:j])
        if len(vals) != len(ch):
            raise ValueError("explain: %d results for %d cases" % (len(vals), len(ch)))
        return vals, int(m.group(1)), int(m.group(2))

    ex, tot, unf = [], 0, 0
    with cf.ThreadPoolExecutor(max_workers=jobs) as pool:
        for vals, t, u in pool.map(one, range(len(chunks))):
            ex += vals
            tot += t
            unf += u
    for (c, r), v in zip(pairs, ex):
        _explain_cache[vlib.chash([c["src"], c["args"]])] = v
    return ex, tot, unf


def extra(ctx):
    """full-strength monitor on everything evaluated (one Coq pass): every rejection must carry the
    signature of a known divergence (an unexplained one was already reported by the main phase);
    one representative per signature goes through the known-findings protocol."""
    import check
    items = list(_seen.values())
    if not items:
        return
    try:
        ex, tot, unf = explain_counts(items)
    except Exception as exn:  # noqa
        ctx.notes.append("full-strength pass could not be evaluated: %r" % exn)
        return
    ctx.extra_cov["calls_compared_with_spec"] = tot
    ctx.extra_cov["calls_outside_every_signature"] = unf
    by_tag, counts, unexplained, rejected = {}, {}, [], 0
    for i, its in enumerate(ex):
        if not its:
            continue
        rejected += 1
        case, r = items[i]
        if any(not it for it in its):
            unexplained.append(i)
            continue
        tg = set()
        for it in its:
            tg |= {KNOWN_TAGS[x] for x in it}
        for t in tg:
            counts[t] = counts.get(t, 0) + 1
            cur = by_tag.get(t)
            if cur is None or len(items[cur][0]["src"]) > len(case["src"]):
                by_tag[t] = i
    ctx.extra_cov["full_monitor_rejections"] = rejected
    ctx.extra_cov["cases_carrying_known_divergence"] = counts
    ctx.extra_cov["cases_outside_every_signature"] = len(items) - rejected
    already = any(v.get("kind") == "V1" for v in ctx.violations)
    for i in ([] if already else unexplained[:3]):
        case, r = items[i]
        check.report_case_violation(ctx, case, r, "full-strength monitor rejects the implementation's behaviour")
    for t, i in sorted(by_tag.items()):
        case, r = items[i]
        check.report_case_violation(ctx, dict(case), r, "known divergence " + t)


RULE = ("typed-by-construction Arc functions (1-3 parameters over i8..u64,f32,f64; 0-4 statements + return; "
        "declarations, assignments, compound assignments, if/else-if(x0-3)/else nested to depth 2, early returns; "
        "in 40% of the programs bounded loops (range with 1-3 arguments incl. negative steps, counter-controlled "
        "condition loops, 'for {}' with a guarded break) nested to depth 2, with break/continue/return placed in "
        "if / else-if / final-else branches whose conditions depend on the loop variable, and an accumulator bumped "
        "after the chains and returned; 22% of the programs have one or two stateful variables ($=; f64/f32/ints) "
        "stepped through exactly 0 / 0.0 over a sequence of 12 calls; 30% have global constants (negative / zero / "
        "positive, integer and float, integer literal on a float type) and helper functions "
        "h(x T, y T = default) called with and without the optional argument; "
        "expressions to depth 4 over literals (boundary values of each width), variables, unary -/not, "
        "^ * / % + -, comparisons, and/or, casts; minimal parentheses by the spec's precedence table), each "
        "called on 8-12 argument vectors (0, +-1, min, max, max-1, powers of two at every width, NaN, +-inf, "
        "2^31, 2^63 as floats, random); one quarter of the cases is token soup / damaged programs / byte noise "
        "for the no-crash clause. Non-trivial = compiles, >=2 integer widths, a cast or a conditional, >=4 calls.")
TRUSTED = ["harness hooks/arc/go/verifh/c19 (arc.CompileText, wazero compiler engine, stl/math host module bound "
           "for real; reads the code-section entry of f out of the emitted module)",
           "Coq stdlib Floats.SpecFloat as the executable IEEE-754 instance when evaluating cases (NaN payloads "
           "canonicalised on both sides)"]
ASSUMES = ["spec.md readings stated at the top of coq/theories/Arc/Spec.v (truncating integer division, "
           "sign-changing casts saturate at the target bounds, negative integer exponents and float->int of NaN "
           "unspecified, comparisons and mixed and/or need parentheses)",
           "results are observed the way the Synnax runtime stores them: the low bits of the result register at "
           "the declared width (stl/wasm/node.go setValueAt)",
           "arguments are passed as canonical registers (sign-extended for signed narrow types)",
           "float operations are parameters shared by source and WebAssembly semantics; math.pow on floats and "
           "float % are not evaluated"]
PARTIAL = ("clause 'source the analyzer rejects produces diagnostics, never a crash' is observed on a generated "
           "stream of token soup, damaged programs and byte noise, not proved. LOOPS: spec.md defines none ('No "
           "loops'); the forms the compiler accepts (for cond, for {}, for x := range(..), break, continue) are "
           "modelled with the conventional structured-programming reference semantics (with fuel) and covered by the "
           "byte-for-byte code correspondence, the value correspondence and the monitor on every run, but NOT by the "
           "theorems: C19_compile_correct_partial and C19_validates_partial are proved for loop-free functions. "
           "The same holds for stateful variables ($=, sequences of invocations), global constants and calls of "
           "helper functions with a default parameter value: modelled and compared on every run, outside the "
           "theorems. Outside the modelled fragment: series iteration, recursion and general function calls, "
           "multi-output functions, series, strings, channels, units, flows and sequences. The theorem excludes the nine "
           "signatures of coq/theories/Arc/Guard.v (known findings), each with a proved witness that the compiler "
           "diverges from spec.md there.")
READY = True
TECHNIQUE = ("Coq proof of compiler correctness (simulation by induction on expressions/statements) over a Gallina "
             "copy of the compiler's lowering + byte-exact and value-exact model/impl correspondence")
DESIGN_REF = "DESIGN.md §8 C19"
LEVEL_TEXT = ("Machine-checked Coq theorem C19_compile_correct_partial: for every choice of the float operations, every "
              "well-typed function of the scalar fragment (i8..u64, f32, f64; literals, locals, unary -/not, "
              "^ * / % + -, comparisons, and/or, casts, declarations, (compound) assignments, if/else-if/else, early "
              "return) and every argument vector, the code produced by a Gallina copy of the compiler's lowering, run "
              "under a semantics of the emitted WebAssembly subset (integers mod 2^32/2^64, traps, host math.pow), "
              "returns the register image of the value defined by a reference semantics written from spec.md, and "
              "traps exactly on the spec's runtime errors - provided neither the program nor the call carries one of "
              "nine decidable signatures; each signature has a proved witness (C19_..._refuted) that the compiled code "
              "really diverges from spec.md there. The model is tied to /repo on every run: for generated programs the "
              "emitted code-section entry must equal the model's encoding byte for byte, wazero's validation verdict and "
              "results on boundary arguments (floats by bit pattern, via Coq's SpecFloat) must equal the model's, and a "
              "decidable monitor compares the implementation's results with the spec semantics.")
LEVEL_NOTE = ("PARTIAL: the no-crash clause is observed on a fuzz stream, not proved; nine spec/compiler divergences are "
              "known findings (one tag each; the theorem's guard is exactly their complement); spec.md defines no loops: "
              "the compiler's loops are modelled with the conventional semantics and checked by correspondence + "
              "monitor only (the theorems are for loop-free functions); stateful variables, "
              "calls, series, strings, channels, units, flows are not modelled; validation is proved for the model's "
              "validator (C19_validates_partial) and compared with wazero's verdict per case; instantiation is observed. Trusted: Coq kernel/vm_compute, "
              "the hand-written model (tied by byte/value correspondence), the harness, the generator, the readings of "
              "spec.md listed in Arc/Spec.v. All theorems closed under the global context.")
