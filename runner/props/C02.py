"""C02 — Cesium survives a crash at any point with consistent, durable data."""
import json
import os
import re
import struct

import vlib
from vlib import coq_print

PID = "C02"
MODULE, PKG, BIN = "cesium", "./verifh/c02", "c02"
COQ_IMPORTS = ("From Synnax Require Import Common.Base Cesium.FsLog Cesium.Crash Monitors.Mon_C02.\n"
               "From Coq Require Import NArith ZArith.")
COQ_EXTRA = "Open Scope N_scope."
CASE_TYPE = "case_t"
COUNTS = {"quick": 36, "thorough": 240}
SHARD = 3
PROCS = 8
HARNESS_TIMEOUT = 1500
COQ_TIMEOUT = 1500
# check.py's generic shrinker re-runs every candidate through the harness and Coq (hundreds of crash images
# each): scripts are generated small (<= 25 operations) instead, and failing ones are reported as they are.
OPS_KEY = "_unshrunk"
KNOWN_DIR = os.path.join(vlib.ROOT, "corpus", PID, "known")

RULE = ("operation scripts over 1-2 index groups (index channel + 0-2 int64 data channels): channel creation, writers in "
        "always-persist / lazy-persist / manual-commit mode (one writer per channel at a time, also writers whose "
        "domain lies before existing data), 1-7 samples per write, commits, closes, time-range deletes with bounds on / "
        "between / outside samples or covering a whole earlier domain, clean reopen, synchronous GC (threshold 0 or "
        "0.2), file rollover through small caps, channel deletion and re-creation, plus a malformed share (overlapping "
        "writer, duplicate create, inverted delete); two targeted kinds: a lazily persisted writer whose LAST commit "
        "before Close crosses the file-size cap (rollover, then Close must flush), and one DeleteChannels call over an "
        "index channel and its data channels in every key order incl. index first; and a kind with scripted I/O "
        "faults that do not kill the process (one data-file Write of a frame stores a proper prefix and returns an "
        "error, or the index Truncate of a data channel's commit returns an error; the writer is closed; later writers "
        "reuse the pooled handles and commit). Every sample value encodes "
        "(channel, stamp). EVERY prefix of the "
        "recorded mutation log is a crash image (quick: plus 3-9 torn lengths per write incl. record boundaries of the "
        "index; thorough: every byte). Each image is reopened with cesium.Open (public API reads over [0,MAX) and "
        "narrow reads [s,s+1) at probe stamps, then a follow-up write and the reads again) and with domain.Open per "
        "directory (domain listing with bytes, seek/overlap probes, a follow-up write, listing and probes again). "
        "Non-trivial = script whose log has >= 2 index persists and >= 1 of {delete, channel delete, GC file swap, "
        "rollover, lazy writer}; distinct by hash.")
TRUSTED = ["hook cesium/export_verif_c02.go (VerifC02GC = the private garbageCollect, one channel at a time)",
           "recording wrapper around x/io/fs MemFS inside the harness (logs mkdir/create/write/writeat/truncate/rename/"
           "remove in issue order under one mutex, rebuilds an image by replaying a log prefix path by path)",
           "runner/props/C02.py derives every channel's domain-level history (commit ends, the byte offsets a delete "
           "resolves, expected refusals) and the sample-level specification from the script: a wrong derivation shows "
           "as a log mismatch or a false alarm, it cannot hide a difference",
           "corpus/C02/known/*.json: the witnesses of the known findings, run by every check with the full monitor"]
ASSUMES = ["process-crash model: completed file-system calls survive in issue order, a write may be torn at any byte "
           "(as the property states; no fsync reordering, no sector effects)",
           "Crash.legal (decidable, evaluated on every generated history): operations address an existing directory, "
           "pointers fit the 26-byte record, a writer's file exists, a delete persists from a position before which "
           "disk and memory agree, GC and delete leave pointers inside their files (C04's subject)",
           "the file a writer appends to is handed to one writer at a time (file controller in-use flag), so the write "
           "position of its handle is the end of the file",
           "one open writer per channel at a time in the scripts (control hand-over is C05's subject)"]
PARTIAL = ("C02_crash_consistent_partial excludes exactly three windows, each refuted in the model and on the code "
           "(known findings F2/F47 index Truncate-then-WriteAt and torn index WriteAt, F48 channel directory without "
           "meta.json, F49 GC file swap before the index rewrite). Proved at the level of one channel directory "
           "(decoded index + designated bytes + meta.json); sample-level reads through the unary/index layers and the "
           "cross-channel order of one frame's commits are observed by the monitor on every image, not modelled "
           "(F50, data channel persisted before its index channel, was found there and fixed).")

GROUPS = [  # (index key, data keys, stamp base)
    (1, [2, 3], 0),
    (4, [5], 50000),
]
FOLLOW_START = 900000
DFOLLOW = 800000


def f32(x):
    return struct.unpack("f", struct.pack("f", x))[0]


def nominal(cap):
    return (8 * cap + 5) // 10


def thr_bytes(cap, thr):
    return int(f32(f32(thr) * f32(float(nominal(cap)))))


# --------------------------------------------------------------------------- script interpreter
class Bad(Exception):
    pass


def meta_json(key, index):
    is_index = index == 0
    return ('{"name":"c%d","data_type":"%s","key":%d,"index":%d,"IsIndex":%s,"virtual":false,'
            '"concurrency":0,"version":2}' % (key, "timestamp" if is_index else "int64", key,
                                              key if is_index else index, "true" if is_index else "false"))


def le64(v):
    return struct.pack("<q", v)


def tr_overlaps(t, r):
    """telem.TimeRange.OverlapsWith for valid ranges"""
    if t == r or r[0] == t[0]:
        return True
    if r[1] == t[0] or r[0] == t[1]:
        return False
    inside = lambda x, y: x[0] <= y < x[1]
    return inside(t, r[1]) or inside(t, r[0]) or inside(r, t[0]) or inside(r, t[1])


class Interp:
    """Derives, from a script, the per-channel domain-level histories, the specification script and the
    expected error flags."""

    def __init__(self, case):
        self.case = case
        self.ch = {}        # key -> dict(index, live, doms=[(start, [stamps])], writer)
        self.order = []     # channel keys in creation order (ever created)
        self.dops = {}      # key -> [(coq dop, outcome)]
        self.sops = []      # [(coq sop, fails)]
        self.ws = {}        # w -> dict(keys, mode, start, last, pend, fresh)
        self.stamps = {}    # key -> set of stamps ever written / deleted bounds (probe material)
        self.tf_dirty = set()   # channels whose last commit is in memory only because its index Truncate failed

    def value(self, key, s):
        return s if self.ch[key]["index"] == 0 else s * 1000 + key

    def emit(self, key, dop, outcome="ROk"):
        self.dops.setdefault(key, []).append((dop, outcome))

    def run(self):
        for o in self.case["ops"]:
            getattr(self, "op_" + o["op"])(o)
        return self

    # ---- ops
    def op_create(self, o):
        k, idx = o["key"], o.get("index", 0)
        if k in self.ch and self.ch[k]["live"]:
            self.sops.append(("SCreate %d %d" % (k, idx), True))
            return
        if idx != 0 and not (idx in self.ch and self.ch[idx]["live"] and self.ch[idx]["index"] == 0):
            raise Bad("index channel missing")
        if k in self.ch and self.ch[k]["index"] != idx:
            raise Bad("channel re-created with a different index")
        self.ch[k] = {"index": idx, "live": True, "doms": [], "writer": None}
        if k not in self.order:
            self.order.append(k)
        self.stamps.setdefault(k, set())
        m = meta_json(k, idx).encode()
        self.emit(k, "DCreate %s" % cbytes(m))
        self.sops.append(("SCreate %d %d" % (k, idx), False))

    def covered(self, k, s):
        return any(d[0] <= s < d[1][-1] + 1 for d in self.ch[k]["doms"] if d[1])

    def op_open(self, o):
        w, keys, start, mode = o["w"], o["keys"], o["start"], o["mode"]
        if w in self.ws or not keys:
            raise Bad("writer id reused")
        for k in keys:
            if k not in self.ch or not self.ch[k]["live"]:
                raise Bad("writer on missing channel")
            if self.ch[k]["writer"] is not None:
                raise Bad("second writer on a channel")
        idxs = [k for k in keys if self.ch[k]["index"] == 0]
        if len(idxs) != 1 or keys[0] != idxs[0]:
            raise Bad("writer must start with its index channel")
        if any(self.ch[k]["index"] != idxs[0] for k in keys[1:]):
            raise Bad("writer spans groups")
        md = {"always": "MAlways", "lazy": "MLazy", "manual": "MManual"}[mode]
        if self.covered(keys[0], start):
            # refused by the index channel's domain.OpenWriter before anything is acquired
            self.emit(keys[0], "DOpenW %d %s %s 0" % (w, cZ(start), md), "RConflict")
            self.sops.append(("SOpen %d %s %s" % (w, clN(keys), md), True))
            return
        if any(self.covered(k, start) for k in keys[1:]):
            raise Bad("conflict on a data channel only")
        for k in keys:
            self.emit(k, "DOpenW %d %s %s 0" % (w, cZ(start), md))
            self.ch[k]["writer"] = w
        self.ws[w] = {"keys": keys, "mode": mode, "start": start, "last": None, "pend": [], "dirty": False,
                      "dom": {}}
        self.sops.append(("SOpen %d %s %s" % (w, clN(keys), md), False))

    def commit_doms(self, w, stamps):
        wr = self.ws[w]
        for k in wr["keys"]:
            d = wr["dom"].get(k)
            if d is None:
                d = (wr["start"], [])
                wr["dom"][k] = d
                self.ch[k]["doms"].append(d)
                self.ch[k]["doms"].sort(key=lambda x: x[0])
            d[1].extend(stamps)

    def op_write(self, o):
        w, stamps = o["w"], o["stamps"]
        if w not in self.ws or not stamps:
            raise Bad("write without writer")
        wr = self.ws[w]
        prev = wr["last"] if wr["last"] is not None else wr["start"] - 1
        if stamps[0] <= prev or any(b <= a for a, b in zip(stamps, stamps[1:])):
            raise Bad("stamps not increasing")
        if wr["last"] is None and stamps[0] != wr["start"]:
            raise Bad("first stamp must be the writer start")
        for k in wr["keys"]:
            if any(self.covered(k, s) for s in stamps):
                raise Bad("write into existing data")
            nxt = [d[0] for d in self.ch[k]["doms"] if d[0] > wr["start"] and d is not wr["dom"].get(k)]
            if nxt and stamps[-1] >= min(nxt):
                raise Bad("write runs into the next domain")
        ft = o.get("fault")
        if ft is not None and ft.get("file") == "index":
            # the index Truncate of one channel's commit fails: that channel's pointers are committed in memory
            # only (DCommitTF), the other channels of the frame commit and persist as usual (idxWriter.Commit
            # joins the errors), the Write reports the error and the writer is closed.
            if ft.get("call") != "trunc" or ft["key"] not in wr["keys"] or wr["mode"] != "always":
                raise Bad("unsupported fault")
            wr["last"] = stamps[-1]
            for k in wr["keys"]:
                data = b"".join(le64(self.value(k, s)) for s in stamps)
                self.emit(k, "DWrite %d %s" % (w, cbytes(data)))
                self.stamps[k].update(stamps)
                if k == ft["key"]:
                    self.emit(k, "DCommitTF %d %s" % (w, cZ(stamps[-1] + 1)), "RErr")
                else:
                    self.emit(k, "DCommit %d %s 0" % (w, cZ(stamps[-1] + 1)))
            self.commit_doms(w, stamps)
            self.close_writer(w)
            self.tf_dirty.add(ft["key"])
            self.sops.append(("SWriteTF %d %s %d" % (w, clZ(stamps), ft["key"]), True))
            return
        if ft is not None:
            # a short write on one data file of the frame: the channels written before it (index first, then
            # the frame's key order) hold the whole series, uncommitted; the faulted channel holds j bytes; the
            # rest is never reached; nothing is committed; the writer reports the error and is closed.
            if ft.get("file") != "data" or ft.get("call") != "write" or ft["key"] not in wr["keys"]:
                raise Bad("unsupported fault")
            if not (1 <= ft["j"] < 8 * len(stamps)):
                raise Bad("short write must store a proper, non-empty prefix")
            for k in wr["keys"]:
                data = b"".join(le64(self.value(k, s)) for s in stamps)
                self.stamps[k].update(stamps)
                if k == ft["key"]:
                    self.emit(k, "DWriteFail %d %s %d%%nat" % (w, cbytes(data), ft["j"]), "RErr")
                    break
                self.emit(k, "DWrite %d %s" % (w, cbytes(data)))
            self.close_writer(w)
            self.sops.append(("SWriteFault %d" % w, True))
            return
        wr["last"] = stamps[-1]
        for k in wr["keys"]:
            data = b"".join(le64(self.value(k, s)) for s in stamps)
            self.emit(k, "DWrite %d %s" % (w, cbytes(data)))
            self.stamps[k].update(stamps)
            if wr["mode"] != "manual":
                self.emit(k, "DCommit %d %s 0" % (w, cZ(stamps[-1] + 1)))
                if wr["mode"] == "always":
                    self.tf_dirty.discard(k)
        if wr["mode"] == "manual":
            wr["pend"].extend(stamps)
        else:
            self.commit_doms(w, stamps)
        self.sops.append(("SWrite %d %s" % (w, clZ(stamps)), False))

    def op_commit(self, o):
        w = o["w"]
        if w not in self.ws:
            raise Bad("commit without writer")
        wr = self.ws[w]
        if wr["mode"] == "manual" and wr["pend"]:
            for k in wr["keys"]:
                self.emit(k, "DCommit %d %s 0" % (w, cZ(wr["last"] + 1)))
                self.tf_dirty.discard(k)
            self.commit_doms(w, wr["pend"])
            wr["pend"] = []
        self.sops.append(("SCommit %d" % w, False))

    def close_writer(self, w):
        wr = self.ws.pop(w)
        for k in wr["keys"]:
            self.emit(k, "DCloseW %d" % w)
            self.ch[k]["writer"] = None
            if wr["mode"] == "lazy":
                self.tf_dirty.discard(k)

    def need_persisted(self):
        # DB.Close does not flush the index: a commit left in memory by a failed index Truncate is gone
        # after a restart. Scripts restart / delete / collect only once a later persist has covered it.
        if self.tf_dirty:
            raise Bad("restart or maintenance while a commit is in memory only")

    def op_close(self, o):
        w = o["w"]
        if w in self.ws:
            self.close_writer(w)
        self.sops.append(("SClose %d" % w, False))

    def resolver(self, k, a, b):
        rows = []
        for start, st in self.ch[k]["doms"]:
            if not st:
                continue
            end = st[-1] + 1
            so, a2, eo, b2 = 0, 0, 0, 0
            if start <= a < end:
                n = len([s for s in st if s < a])
                so, a2 = 8 * n, (a if a in st else st[n - 1] + 1)
            if start <= b < end:
                n = len([s for s in st if s < b])
                eo, b2 = 8 * n, (b if b in st else st[n])
            rows.append("(%s, (%d, %s, %d, %s))" % (cZ(start), so, cZ(a2), eo, cZ(b2)))
        return "[" + "; ".join(rows) + "]"

    def op_delete(self, o):
        self.need_persisted()
        keys, a, b = o["keys"], o["a"], o["b"]
        for k in keys:
            if k not in self.ch or not self.ch[k]["live"]:
                raise Bad("delete on missing channel")
        if a > b:
            self.sops.append(("SDelete %s %s %s" % (clN(keys), cZ(a), cZ(b)), True))
            return
        if self.case["cap"] < 100000:
            raise Bad("deletes only in scripts without rollover")
        for k in keys:
            if self.ch[k]["writer"] is not None:
                raise Bad("delete under an open writer")
        idxs = [k for k in keys if self.ch[k]["index"] == 0]
        for i in idxs:
            # DeleteTimeRange refuses the index channel when a dependent channel still has a domain
            # overlapping the range (HasDataFor, domain level) — after the data channels of the same call
            # were already cut. Such half-done calls are not generated.
            for k2, c in self.ch.items():
                if not (c["live"] and c["index"] == i):
                    continue
                for start, st in c["doms"]:
                    if not st:
                        continue
                    if k2 in keys and any(a <= s < b for s in st):
                        left = [s for s in st if s < a]
                        right = [s for s in st if s >= b]
                        parts = ([(start, left[-1] + 1)] if left else []) + ([(right[0], st[-1] + 1)] if right else [])
                    else:
                        parts = [(start, st[-1] + 1)]
                    if any(tr_overlaps(p, (a, b)) for p in parts):
                        raise Bad("index delete with dependent data")
        for k in [k for k in keys if k not in idxs] + idxs:
            self.emit(k, "DDelete %s %s %s" % (cZ(a), cZ(b), self.resolver(k, a, b)))
            nd = []
            for start, st in self.ch[k]["doms"]:
                if not any(a <= s < b for s in st):
                    nd.append((start, st))
                    continue
                left = [s for s in st if s < a]
                right = [s for s in st if s >= b]
                if left:
                    nd.append((start, left))
                if right:
                    nd.append((right[0], right))
            self.ch[k]["doms"] = nd
            self.stamps[k].update([a, b])
        self.sops.append(("SDelete %s %s %s" % (clN(keys), cZ(a), cZ(b)), False))

    def op_gc(self, o):
        self.need_persisted()
        for k in self.order:
            if self.ch[k]["live"]:
                self.emit(k, "DGC")
        self.sops.append(("SGC", False))

    def op_reopen(self, o):
        for w in sorted(self.ws):
            self.close_writer(w)
        self.need_persisted()
        for k in self.order:
            if self.ch[k]["live"]:
                self.emit(k, "DReopen")
        self.sops.append(("SReopen", False))

    def op_delchan(self, o):
        self.need_persisted()
        keys = o["keys"]
        for k in keys:
            if k not in self.ch or not self.ch[k]["live"]:
                raise Bad("delete of missing channel")
            if self.ch[k]["writer"] is not None:
                raise Bad("channel delete under a writer")
        for k in keys:
            if self.ch[k]["index"] == 0 and any(c["live"] and c["index"] == k and k2 not in keys
                                               for k2, c in self.ch.items()):
                raise Bad("index channel still used")
        for k in keys:
            self.emit(k, "DDelChan")
            self.ch[k]["live"] = False
            self.ch[k]["doms"] = []
        self.sops.append(("SDelChan %s" % clN(keys), False))


# --------------------------------------------------------------------------- Coq literals
def cZ(v):
    return "(%d)%%Z" % int(v)


def clZ(vs):
    return "[" + "; ".join("%d" % int(v) for v in vs) + "]%Z"


def clN(vs):
    return "[" + "; ".join("%d" % int(v) for v in vs) + "]"


def cbytes(b):
    if len(b) == 0:
        return "[]"
    return "(B %d%%nat 0x%s)" % (len(b), b.hex())


def cbool(b):
    return "true" if b else "false"


FILES = [
    (re.compile(r"^index\.domain$"), lambda m: "FIndex"),
    (re.compile(r"^counter\.domain$"), lambda m: "FCounter"),
    (re.compile(r"^meta\.json$"), lambda m: "FMeta"),
    (re.compile(r"^meta\.json\.tmp$"), lambda m: "FMetaTmp"),
    (re.compile(r"^(\d+)\.domain$"), lambda m: "(FData %s)" % m.group(1)),
    (re.compile(r"^(\d+)\.domain_gc$"), lambda m: "(FGc %s)" % m.group(1)),
    (re.compile(r"^(\d+)\.domain_temp$"), lambda m: "(FTmp %s)" % m.group(1)),
]


def fname(s):
    for rx, f in FILES:
        m = rx.match(s)
        if m:
            return f(m)
    raise ValueError("unknown file in a channel directory: %r" % s)


def classify_op(e):
    """-> (channel key, coq fsop)"""
    p = e["p"]
    parts = p.split("/")
    if len(parts) == 1:
        if e["k"] == "mkdir" and p.isdigit():
            return int(p), "OMkdir"
        if e["k"] == "rename" and p.isdigit() and re.match(r"^%s-DELETE-\d+$" % p, e.get("q", "")):
            return int(p), "ORenameDir"
        m = re.match(r"^(\d+)-DELETE-\d+$", p)
        if e["k"] == "remove" and m:
            return int(m.group(1)), "ORemoveDir"
        raise ValueError("unknown root-level call %r" % e)
    if len(parts) != 2 or not parts[0].isdigit():
        raise ValueError("unknown path %r" % p)
    c, f = int(parts[0]), fname(parts[1])
    k = e["k"]
    if k == "create":
        return c, "OCreate %s" % f
    if k in ("write", "writeat"):
        return c, "OWrite %s %s %d %s" % (cbool(k == "writeat"), f, e["off"], cbytes(bytes.fromhex(e.get("d", ""))))
    if k == "trunc":
        return c, "OTrunc %s %d" % (f, e["off"])
    if k == "rename":
        q = e["q"].split("/")
        if len(q) != 2 or q[0] != parts[0]:
            raise ValueError("rename across directories %r" % e)
        return c, "ORename %s %s" % (f, fname(q[1]))
    if k == "remove":
        return c, "ORemove %s" % f
    raise ValueError("unknown call kind %r" % e)


class Tables:
    def __init__(self):
        self.blobs, self.chs, self.doms = {}, {}, {}

    @staticmethod
    def intern(tab, key):
        if key not in tab:
            tab[key] = len(tab)
        return tab[key]

    def ent(self, e):
        d = e["d"]
        ref = "None" if d.startswith("!") else "Some %d%%nat" % self.intern(self.blobs, d)
        return "(%s, %s, %s)" % (cZ(e["s"]), cZ(e["e"]), ref)

    def chobs(self, key, o):
        st = {"ok": "COk", "absent": "CAbsent", "err": "CErr"}[o["st"]]
        t = "mkChobs %s %s %s [%s]" % (key, st, clZ(o["full"]), "; ".join(clZ(v) for v in o["nar"]))
        return "%d%%nat" % self.intern(self.chs, t)

    def dom(self, k, d):
        if d["open"] != "":
            raise ValueError("domain.Open failed on an image: %s" % d["open"])
        t = "mkRdom %s [%s] [%s] %s [%s] [%s]" % (
            k, "; ".join(self.ent(e) for e in d["list"]), "; ".join(c_probe(p) for p in d["probe"]),
            cbool(d["fw"] == ""), "; ".join(self.ent(e) for e in d["list2"]),
            "; ".join(c_probe(p) for p in d["probe2"]))
        return "%d%%nat" % self.intern(self.doms, t)


def c_probe(p):
    return "(%s, %s)" % (cbool(p["c"]), "Some (%s, %s)" % (cZ(p["s"]), cZ(p["e"])) if p["f"] else "None")


def c_obs(case, o, tb):
    byk = lambda kv: int(kv[0])
    if o["open"] != "":
        ch, fw, ch2 = "[]", "[]", "[]"
    else:
        ch = "[" + "; ".join(tb.chobs(k, v) for k, v in sorted(o["ch"].items(), key=byk)) + "]"
        fws = []
        for g, r in zip(case.get("follow", []), o.get("fw") or []):
            if r == "skip":
                continue
            fws.append("(%s, %s)" % (clN(g["keys"]), cbool(r == "")))
        fw = "[" + "; ".join(fws) + "]"
        ch2 = "[" + "; ".join(tb.chobs(k, v) for k, v in sorted((o.get("ch2") or {}).items(), key=byk)) + "]"
    doms = [tb.dom(k, d) for k, d in sorted((o.get("dom") or {}).items(), key=byk)]
    return "mkRobs %s %s %s %s [%s]" % (cbool(o["open"] == ""), ch, fw, ch2, "; ".join(doms))


def harness_violation(case, r):
    if r.get("panic"):
        return "harness: " + r["panic"]
    return None


_CACHE = {}


def to_coq(case, r):
    if r is None or r.get("log") is None:
        return None
    try:
        it = Interp(case).run()
    except Bad:
        return None
    chans = []
    for k in it.order:
        ops = "; ".join("(%s, %s)" % (d, oc) for d, oc in it.dops.get(k, []))
        probes = case.get("probes", {}).get(str(k), [])
        chans.append("mkChan %d [%s] %s" % (k, ops, clZ(probes)))
    glog = []
    for e in r["log"]:
        c, o = classify_op(e)
        glog.append("(%d, %s)" % (c, o))
    script = "; ".join("(%s, %s)" % (s, cbool(f)) for s, f in it.sops)
    errs = "; ".join(cbool(e != "") for e in r["errs"])
    follow = "; ".join("(%s, %s)" % (clN(g["keys"]), cZ(g["start"])) for g in case.get("follow", []))
    imgs = "; ".join("(%d%%nat, %d%%nat, %d%%nat)" % (i["k"], i["t"], i["o"]) for i in r["imgs"])
    tb = Tables()
    obs = ";\n      ".join(c_obs(case, o, tb) for o in r["obs"])
    blobs = ";\n      ".join(cbytes(bytes.fromhex(h)) for h in tb.blobs)
    t = ("(mkCase %s %d %s %s [%s]\n    [%s]\n    [%s]\n    [%s]\n    [%s]\n    [%s]\n    [%s]\n    [%s]\n    [%s]\n"
         "    [%s]\n    [%s])" % (
        cbool(case.get("full", False)), case["cap"], cZ(thr_bytes(case["cap"], case["thr"])),
        cZ(case.get("dfollow", 0)), follow, script, errs, ";\n     ".join(chans), ";\n     ".join(glog),
        "; ".join("%d%%nat" % b for b in r["bounds"]), imgs, blobs, ";\n      ".join(tb.chs),
        ";\n      ".join(tb.doms), obs))
    return t


# --------------------------------------------------------------------------- generator
def real_cap(cap):
    return (10 * nominal(cap) + 4) // 8


def gen_lazyroll(rng):
    """a lazily persisted (or, as control, always-persisting) writer whose LAST commit before Close crosses the
    file-size cap and rolls over to a new file; afterwards nothing, a reopen, or another writer"""
    cap = rng.choice([60, 100, 140, 200])
    idx, datas, base = GROUPS[0]
    keys = [idx] + datas[:rng.choice([0, 1, 1, 2])]
    ops = [{"op": "create", "key": idx, "index": 0}] + [{"op": "create", "key": d, "index": idx} for d in keys[1:]]
    t = base + rng.choice([1, 10, 50])
    wid = 0
    # optionally an earlier, closed writer (so that the index already holds persisted domains)
    if rng.random() < 0.5:
        st = [t, t + 1]
        ops += [{"op": "open", "w": wid, "keys": keys, "start": t, "mode": rng.choice(["always", "lazy"])},
                {"op": "write", "w": wid, "stamps": st}, {"op": "close", "w": wid}]
        wid += 1
        t += 10
        if rng.random() < 0.5:
            ops.append({"op": "reopen"})
    mode = rng.choice(["lazy", "lazy", "lazy", "always"])
    ops.append({"op": "open", "w": wid, "keys": keys, "start": t, "mode": mode})
    # file size at acquisition: the earlier writer's 16 bytes if the file is reused (it always is: 16 < nominal)
    size = 16 if wid == 1 else 0
    target = real_cap(cap)
    s = t
    while True:
        room = (target - size + 7) // 8          # samples still needed to reach the real cap
        n = rng.choice([1, 2, 3]) if room > 3 else room
        n = max(1, min(n, room))
        stamps = list(range(s, s + n))
        s += n + rng.choice([0, 1, 3])
        ops.append({"op": "write", "w": wid, "stamps": stamps})
        size += 8 * n
        if size >= target:
            break
    ops.append({"op": "close", "w": wid})
    y = rng.random()
    if y < 0.35:
        ops.append({"op": "reopen"})
    elif y < 0.6:
        ops += [{"op": "open", "w": wid + 1, "keys": keys, "start": s + 20, "mode": rng.choice(["always", "lazy"])},
                {"op": "write", "w": wid + 1, "stamps": [s + 20, s + 21]}]
        if rng.random() < 0.5:
            ops.append({"op": "close", "w": wid + 1})
    return {"cap": cap, "thr": 1e-7, "ops": ops}


def gen_delgroup(rng):
    """one DeleteChannels call over an index channel and the data channels it indexes, in every key order
    (index first, last, in the middle), optionally followed by re-creation"""
    idx, datas, base = GROUPS[0]
    keys = [idx] + datas[:rng.choice([1, 1, 2])]
    ops = [{"op": "create", "key": idx, "index": 0}] + [{"op": "create", "key": d, "index": idx} for d in keys[1:]]
    other = None
    if rng.random() < 0.4:
        other = GROUPS[1][0]
        ops.append({"op": "create", "key": other, "index": 0})
    t = base + 10
    if rng.random() < 0.8:
        ops += [{"op": "open", "w": 0, "keys": keys, "start": t, "mode": rng.choice(["always", "lazy", "manual"])},
                {"op": "write", "w": 0, "stamps": [t, t + 1, t + 3]}]
        if ops[-2]["mode"] == "manual":
            ops.append({"op": "commit", "w": 0})
        ops.append({"op": "close", "w": 0})
    order = list(keys)
    rng.shuffle(order)
    if rng.random() < 0.5:
        order = [idx] + [k for k in order if k != idx]      # the index channel first
    if other is not None and rng.random() < 0.5:
        order.insert(rng.randrange(0, len(order) + 1), other)
    ops.append({"op": "delchan", "keys": order})
    if rng.random() < 0.5:
        ops.append({"op": "create", "key": idx, "index": 0})
        ops.append({"op": "create", "key": keys[1], "index": idx})
        ops += [{"op": "open", "w": 1, "keys": [idx, keys[1]], "start": t + 30, "mode": "always"},
                {"op": "write", "w": 1, "stamps": [t + 30, t + 31]}, {"op": "close", "w": 1}]
    elif rng.random() < 0.5:
        ops.append({"op": "reopen"})
    return {"cap": 1000000, "thr": 1e-7, "ops": ops}


def gen_fault(rng):
    """an I/O fault that does not kill the process: one data-file Write of a frame stores only a prefix and
    returns an error (short write); cesium closes the writer; later writers reuse the pooled file handles (or
    fresh ones after a reopen), write and commit with persistence; then the usual crash enumeration"""
    idx, datas, base = GROUPS[0]
    keys = [idx] + datas[:rng.choice([0, 1, 1, 2])]
    ops = [{"op": "create", "key": idx, "index": 0}] + [{"op": "create", "key": d, "index": idx} for d in keys[1:]]
    t = base + rng.choice([1, 10, 40])
    wid = 0
    faults = 0
    for round_ in range(rng.choice([2, 3, 3, 4])):
        mode = rng.choice(["always", "always", "lazy", "manual"])
        ops.append({"op": "open", "w": wid, "keys": keys, "start": t, "mode": mode})
        closed = False
        nw = rng.choice([1, 2, 3])
        for i in range(nw):
            n = rng.choice([1, 2, 3, 4])
            stamps = list(range(t, t + n))
            t += n + rng.choice([0, 1, 2])
            o = {"op": "write", "w": wid, "stamps": stamps}
            inject = (faults == 0 and round_ == 0 and i == nw - 1) or (round_ < 3 and rng.random() < 0.2)
            if inject:
                if mode == "always" and len(keys) > 1 and rng.random() < 0.35:
                    # the index Truncate of a DATA channel's commit returns an error (on the index channel the
                    # same fault leaves the data channels committed and persisted without timestamps — the F50
                    # family, reported separately — so it is not generated)
                    o["fault"] = {"key": rng.choice(keys[1:]), "file": "index", "call": "trunc", "j": 0}
                else:
                    o["fault"] = {"key": rng.choice(keys), "file": "data", "call": "write",
                                  "j": rng.randrange(1, 8 * n)}
                faults += 1
            ops.append(o)
            if "fault" in o:
                closed = True
                break
            if mode == "manual" and rng.random() < 0.6:
                ops.append({"op": "commit", "w": wid})
        if not closed:
            if mode == "manual":
                ops.append({"op": "commit", "w": wid})
            if rng.random() < 0.8:
                ops.append({"op": "close", "w": wid})
                closed = True
        wid += 1
        t += rng.choice([3, 10])
        if not closed:
            break                   # the last writer stays open: a crash with an open writer
        if rng.random() < 0.2:
            ops.append({"op": "reopen"})
    return {"cap": 1000000, "thr": 1e-7, "ops": ops}


def gen_script(rng, kind):
    """returns a case dict (without id)"""
    if kind == "fault":
        return gen_fault(rng)
    if kind == "lazyroll":
        return gen_lazyroll(rng)
    if kind == "delgroup":
        return gen_delgroup(rng)
    cap = 1000000
    thr = 1e-7
    if kind == "rollover":
        cap = rng.choice([60, 100, 140])
    if rng.random() < 0.2:
        thr = 0.2
    ops = []
    ngroups = 2 if rng.random() < 0.3 else 1
    groups = []
    for gi in range(ngroups):
        idx, datas, base = GROUPS[gi]
        nd = rng.choice([0, 1, 1, 2]) if gi == 0 else rng.choice([0, 1])
        keys = [idx] + datas[:nd]
        groups.append({"keys": keys, "base": base, "t": base + rng.choice([1, 10, 100]), "w": None,
                       "segs": [], "live": True})
        ops.append({"op": "create", "key": idx, "index": 0})
        for d in datas[:nd]:
            ops.append({"op": "create", "key": d, "index": idx})
    wid = [0]
    nsteps = rng.randrange(6, 15) if kind != "rollover" else rng.randrange(8, 16)

    def open_writer(g, before=False):
        mode = rng.choice(["always", "always", "lazy", "manual"]) if kind != "rollover" else \
            rng.choice(["always", "always", "lazy"])
        keys = g["keys"] if rng.random() < 0.8 else g["keys"][:1 + rng.randrange(0, len(g["keys"]))]
        start = g["t"] + rng.choice([0, 1, 3, 10])
        w = wid[0]
        wid[0] += 1
        ops.append({"op": "open", "w": w, "keys": keys, "start": start, "mode": mode})
        g["w"] = {"w": w, "mode": mode, "next": start, "first": True, "pend": False}

    def open_before(g, allst):
        """a writer whose whole domain lies before all existing data of the group"""
        lo = min(allst)
        room = lo - g["base"]
        if room < 6:
            return False
        mode = rng.choice(["always", "lazy", "manual"])
        start = g["base"] + rng.randrange(1, max(2, room - 4))
        w = wid[0]
        wid[0] += 1
        ops.append({"op": "open", "w": w, "keys": g["keys"], "start": start, "mode": mode})
        stamps = [start]
        if start + 2 < lo and rng.random() < 0.6:
            stamps.append(start + rng.choice([1, 2]))
        ops.append({"op": "write", "w": w, "stamps": stamps})
        g["segs"].append(stamps)
        if mode == "manual":
            ops.append({"op": "commit", "w": w})
        ops.append({"op": "close", "w": w})
        return True

    def write(g):
        n = rng.choice([1, 2, 2, 3, 4]) if kind != "rollover" else rng.choice([2, 3, 5, 7])
        s = g["w"]["next"]
        stamps = []
        for _ in range(n):
            stamps.append(s)
            s += rng.choice([1, 1, 2, 5])
        g["w"]["next"] = s
        g["w"]["first"] = False
        g["w"]["pend"] = True
        g["t"] = s + 1
        g["segs"].append(stamps)
        ops.append({"op": "write", "w": g["w"]["w"], "stamps": stamps})

    def close(g):
        if g["w"]["mode"] == "manual" and g["w"]["pend"] and rng.random() < 0.85:
            ops.append({"op": "commit", "w": g["w"]["w"]})
        ops.append({"op": "close", "w": g["w"]["w"]})
        g["w"] = None

    for _ in range(nsteps):
        g = rng.choice(groups)
        if not g["live"]:
            continue
        x = rng.random()
        if g["w"] is not None:
            if x < 0.6:
                write(g)
                if g["w"]["mode"] == "manual" and rng.random() < 0.4:
                    ops.append({"op": "commit", "w": g["w"]["w"]})
                    g["w"]["pend"] = False
            elif x < 0.9:
                if g["w"]["first"]:
                    write(g)
                close(g)
            else:
                ops.append({"op": "commit", "w": g["w"]["w"]})
                g["w"]["pend"] = False
            continue
        allst = [s for seg in g["segs"] for s in seg]
        if allst and x < 0.08 and open_before(g, allst):
            continue
        if x < 0.45 or not allst:
            open_writer(g)
            write(g)
        elif x < 0.62 and kind in ("delete", "gc") and allst:
            lo, hi = min(allst), max(allst)
            pick = lambda: rng.choice(allst + [s + 1 for s in allst] + [lo - 1, hi + 2, rng.randrange(lo, hi + 1)])
            a, b = pick(), pick()
            if a > b and rng.random() < 0.9:
                a, b = b, a
            if len(g["segs"]) >= 2 and rng.random() < 0.3:
                seg = rng.choice(g["segs"][:-1])      # a whole earlier domain: the index shrinks
                a, b = seg[0], seg[-1] + 1
            dk = [k for k in g["keys"][1:]]
            y = rng.random()
            if dk and y < 0.55:
                keys = dk if rng.random() < 0.6 else [rng.choice(dk)]
            else:
                keys = list(g["keys"][1:]) + [g["keys"][0]]
            ops.append({"op": "delete", "keys": keys, "a": a, "b": b})
        elif x < 0.72:
            ops.append({"op": "reopen"})
            for gg in groups:
                gg["w"] = None
        elif x < 0.82 and kind in ("gc", "rollover"):
            ops.append({"op": "reopen"})
            for gg in groups:
                gg["w"] = None
            ops.append({"op": "gc"})
        elif x < (0.97 if kind == "chan" else 0.0) and x >= 0.72 and kind == "chan":
            dk = g["keys"][1:]
            if dk and rng.random() < 0.6:
                k = rng.choice(dk)
                ops.append({"op": "delchan", "keys": [k], "single": rng.random() < 0.5})
                if rng.random() < 0.5:
                    ops.append({"op": "create", "key": k, "index": g["keys"][0]})
                else:
                    g["keys"] = [x for x in g["keys"] if x != k]
            else:
                order = list(g["keys"])
                rng.shuffle(order)
                ops.append({"op": "delchan", "keys": order})
                g["live"] = False
        elif x < 0.94 and allst:
            # malformed: overlapping writer, duplicate create, inverted delete
            y = rng.random()
            if y < 0.5:
                w = wid[0]
                wid[0] += 1
                ops.append({"op": "open", "w": w, "keys": g["keys"], "start": rng.choice(allst), "mode": "always"})
            elif y < 0.75:
                ops.append({"op": "create", "key": g["keys"][0], "index": 0})
            else:
                ops.append({"op": "delete", "keys": g["keys"][1:] or g["keys"], "a": max(allst), "b": min(allst) - 1})
        else:
            open_writer(g)
            write(g)
    if rng.random() < 0.5:
        for g in groups:
            if g["w"] is not None:
                close(g)
    return {"cap": cap, "thr": thr, "ops": ops}


def finish(case, rng, tier):
    """probes / follow-up groups / torn mode; returns None if the script is not well-formed"""
    try:
        it = Interp(case).run()
    except Bad:
        return None
    probes = {}
    for k in it.order:
        st = sorted(it.stamps.get(k, []))
        cand = set()
        if st:
            cand.update([st[0], st[-1], st[len(st) // 2], st[0] - 1, st[-1] + 1])
            cand.update(rng.sample(st, min(3, len(st))))
            cand.add(rng.choice(st) + 1)
        probes[str(k)] = sorted(c for c in cand if c >= 0)[:8]
    case["probes"] = probes
    follow = []
    for gi, (idx, datas, base) in enumerate(GROUPS):
        keys = [k for k in [idx] + datas if k in it.order]
        if keys and keys[0] == idx:
            follow.append({"keys": keys, "start": FOLLOW_START + 1000 * gi})
    case["follow"] = follow
    case["dfollow"] = DFOLLOW
    case["torn"] = "few" if tier == "quick" else "all"
    return case


KINDS = ["plain", "lazyroll", "delete", "delgroup", "gc", "rollover", "fault", "chan", "lazyroll", "delete", "delgroup",
         "gc", "fault"]


def gen_cases(rng, tier, n):
    out = []
    tries = 0
    while len(out) < n and tries < 50 * n:
        tries += 1
        kind = KINDS[len(out) % len(KINDS)]
        c = finish(gen_script(rng, kind), rng, tier)
        if c is None:
            continue
        c["kind"] = kind
        out.append(c)
    return out


def fixup(case):
    return case


def nontrivial(case, r):
    log = r.get("log") or []
    persists = len([e for e in log if e["k"] == "writeat" and e["p"].endswith("index.domain")])
    special = any(o["op"] in ("delete", "delchan") for o in case["ops"]) or \
        any(e["k"] == "rename" and e["p"].endswith(".domain") for e in log) or \
        any(e["k"] == "create" and re.search(r"/[2-9]\.domain$", e["p"]) for e in log) or \
        any(o["op"] == "open" and o["mode"] == "lazy" for o in case["ops"])
    return persists >= 2 and special


def histogram(case, r):
    ks = ["kind=" + case.get("kind", "?"), "images=%d" % (len(r.get("imgs") or []) // 50 * 50)]
    for o in case["ops"]:
        ks.append("op=" + o["op"] + (":" + o["mode"] if o["op"] == "open" else ""))
    for e in r.get("log") or []:
        f = e["p"].split("/")[-1]
        f = re.sub(r"^\d+\.", "N.", f)
        ks.append("fs=%s:%s" % (e["k"], f if "/" in e["p"] else "dir"))
    for x in r.get("errs") or []:
        if x:
            ks.append("op_error")
    return ks


def neighbours(case, rng):
    """a few cheaper relatives: drop one operation, switch one writer mode"""
    out = []
    idx = list(range(len(case["ops"])))
    rng.shuffle(idx)
    for i in idx[:4]:
        c = json.loads(json.dumps(case))
        del c["ops"][i]
        out.append(c)
    opens = [i for i, o in enumerate(case["ops"]) if o["op"] == "open"]
    rng.shuffle(opens)
    for i in opens[:2]:
        c = json.loads(json.dumps(case))
        c["ops"][i]["mode"] = rng.choice([m for m in ("always", "lazy", "manual") if m != case["ops"][i]["mode"]])
        out.append(c)
    return [c for c in out if finish_ok(c)]


def finish_ok(case):
    try:
        Interp(case).run()
        return True
    except Bad:
        return False


def coq_eval(body, timeout=600):
    import subprocess
    cdir = os.path.join(vlib.BUILD, "cases", PID)
    os.makedirs(cdir, exist_ok=True)
    path = os.path.join(cdir, "print_%s_%d.v" % (PID, os.getpid()))
    with open(path, "w") as fh:
        fh.write(COQ_IMPORTS + "\nFrom Coq Require Import List.\nImport ListNotations.\n" + COQ_EXTRA + "\n" + body + "\n")
    try:
        r = subprocess.run(["coqc", *vlib.COQ_ARGS, path], cwd=vlib.COQ, timeout=timeout,
                           stdout=subprocess.PIPE, stderr=subprocess.STDOUT, text=True)
        return r.stdout
    except subprocess.TimeoutExpired:
        return "timeout"
    finally:
        for ext in (".v", ".vo", ".glob", ".vok", ".vos"):
            try:
                os.remove(path[:-2] + ext)
            except OSError:
                pass


TAGS = {1: "crash_in_channel_create_before_meta_rename",
        2: "crash_between_index_truncate_and_writeat",
        3: "torn_index_writeat",
        4: "crash_in_gc_between_file_swap_and_index_persist"}


def tags(case, r):
    if r is None:
        return set()
    if r.get("panic"):
        return {"harness_panic"}
    t = to_coq(case, r)
    if t is None:
        return set()
    out = coq_eval("Definition the_case : case_t := %s.\nEval vm_compute in viol_tags the_case." % t)
    m = re.search(r"=\s*\[([^\]]*)\]", out.replace("\n", " "))
    if not m:
        return {"unclassified"}
    cls = [int(x.replace("%nat", "").strip()) for x in m.group(1).split(";") if x.strip()]
    if 0 in cls or not cls:
        return {"outside_known_windows"}
    return {TAGS[c] for c in cls}


def model_dump(case, r):
    t = to_coq(case, r)
    if t is None:
        return "no model evaluation: the harness returned no log (panic) or the script is not well-formed"
    return coq_eval("Definition the_case : case_t := %s.\nEval vm_compute in mismatch_detail the_case.\n"
                    "Eval vm_compute in viol_detail the_case." % t)[-6000:]


def known_cases():
    out = []
    if os.path.isdir(KNOWN_DIR):
        for f in sorted(os.listdir(KNOWN_DIR)):
            if f.endswith(".json"):
                c = json.load(open(os.path.join(KNOWN_DIR, f)))
                c["full"] = True
                c["witness"] = f
                out.append(c)
    return out


def extra(ctx):
    """The witnesses of the known findings: every image judged by the full monitor."""
    import check
    cases = known_cases()
    if not cases:
        return
    res, M, V, hv, errs = ctx.evaluate(cases)
    for e in errs:
        ctx.notes.append("witness evaluation error: %s" % e[:300])
    for i, w in hv:
        check.report_case_violation(ctx, cases[i], res.get(i), w)
    hit = []
    for i, c in enumerate(cases):
        if i in M:
            rp = check.write_replay(ctx, "V2", "model and implementation disagree on a known-finding witness", c,
                                    res.get(i), {"correspondence": "corr:%s/witness/%s" % (PID, c["witness"]),
                                                 "model": model_dump(c, res.get(i))})
            ctx.violations.append({"kind": "V2", "what": "correspondence broke on witness %s" % c["witness"],
                                   "replay": rp, "found_input": False})
        if i in V:
            check.report_case_violation(ctx, c, res.get(i),
                                        "monitor ok_%s rejects the implementation's behaviour" % PID)
            hit.append(c["witness"])
        else:
            ctx.notes.append("witness %s no longer violates the property" % c["witness"])
    ctx.extra_cov["known_witnesses_run"] = len(cases)
    ctx.extra_cov["known_witnesses_violating"] = hit


def consts(repo):
    src = open(os.path.join(repo, "cesium/internal/domain/pointer.go")).read()
    m = re.search(r"const\s+pointerByteSize\s*=\s*(\d+)", src)
    size = int(m.group(1))
    enc = open(os.path.join(repo, "cesium/internal/domain/index_persist.go")).read()
    body = enc[enc.index("func (f *pointerCodec) encode"):enc.index("func (f *pointerCodec) decode")]
    spans = re.findall(r"b\[base(?:\+(\d+))?:base\+(\d+)\]", body)
    layout = [(int(a or 0), int(b)) for a, b in spans]
    if len(layout) != 5:
        raise ValueError("pointer layout not recognised: %r" % spans)
    dbsrc = open(os.path.join(repo, "cesium/internal/domain/db.go")).read()
    m1 = re.search(r"math\.Round\(([\d.]+)\s*\*\s*float64\(c\.FileSize\)\)", dbsrc)
    fcsrc = open(os.path.join(repo, "cesium/internal/domain/file_controller.go")).read()
    m2 = re.search(r"math\.Round\(([\d.]+)\s*\*\s*float64\(fc\.FileSize\)\)", fcsrc)
    from fractions import Fraction
    r1, r2 = Fraction(m1.group(1)), Fraction(m2.group(1))
    return ("(* Generated by runner/props/C02.py consts() from the Go source on every run. Do not edit. *)\n"
            "From Coq Require Import NArith List.\nImport ListNotations.\nLocal Open Scope N_scope.\n"
            "(* cesium/internal/domain/pointer.go: const pointerByteSize *)\n"
            "Definition ptr_size : N := %d.\n"
            "(* cesium/internal/domain/index_persist.go encode(): byte ranges of Start, End, fileKey, offset, size *)\n"
            "Definition ptr_layout : list (N * N) := [%s].\n"
            "(* cesium/internal/domain/db.go Override: FileSize = round(num/den * cap) ; "
            "file_controller.go realFileSizeCap = round(num/den * FileSize) *)\n"
            "Definition nominal_num : N := %d.\nDefinition nominal_den : N := %d.\n"
            "Definition real_num : N := %d.\nDefinition real_den : N := %d.\n" % (
                size, "; ".join("(%d, %d)" % ab for ab in layout),
                r1.numerator, r1.denominator, r2.numerator, r2.denominator))


READY = True
TECHNIQUE = ("Coq proof (invariant over operation histories, per-operation cut analysis over log prefixes and torn "
             "payloads, composition over the whole log) + model/impl correspondence by vm_compute")
DESIGN_REF = "DESIGN.md §8 C02, §9 F2"
LEVEL_TEXT = ("Machine-checked Coq theorems over an executable Gallina copy of the persistence protocol of one cesium "
              "channel directory (file-system semantics of x/io/fs MemFS; data append, index Truncate-then-WriteAt with "
              "the 26-byte pointer codec regenerated from the Go source, counter, meta tmp+rename, GC copy/rename/"
              "rename/remove/index rewrite, channel delete, domain.Open's unvalidated load): for every operation "
              "history, every prefix of the mutation log and every torn length of the next write outside three named "
              "windows, what a restart serves equals the directory right before or right after the operation in "
              "progress (C02_crash_consistent_partial, C02_operation_atomic); an operation that rewrote the index "
              "leaves exactly the in-memory pointers on disk, all readable, and a restart loads them "
              "(C02_persisted_is_durable, with which operations those are); the index rewrite and codec lemmas; and a "
              "refutation with witness for each window (C02_*_refuted). The model is tied to /repo on every run: the "
              "real cesium.DB runs scripts on a recording file system, the recorded mutation log must equal the model's "
              "call for call (kind, file, offset, payload), and for every crash image the real domain.Open + listing + "
              "probes + follow-up write must equal the model's recover; a decidable monitor judges the public-API "
              "reads of every image (reopen succeeds, each channel equals an allowed commit state, no alien samples, "
              "also after a follow-up write).")
LEVEL_NOTE = ("Trusted: Coq kernel/vm_compute; hand-written model tied by correspondence, not translation; harness + "
              "recording FS + hook VerifC02GC; the plug-in's derivation of domain-level histories. Theorems are closed "
              "under the global context (no axioms) and stated under the decidable side conditions Crash.legal, "
              "evaluated on every generated history. PARTIAL: three windows are excluded and are real defects "
              "(known findings F2, F47, F48, F49, each with a witness case run on every check with the full monitor; "
              "generated cases are judged on every image outside those windows). F50 (a frame's per-channel index "
              "persists in map order) was found by the monitor and repaired by a fix: commit. Not modelled: the unary/"
              "index sample layer and cross-channel atomicity (observed only), fsync/sector effects, descriptor limits.")
