"""C15 — channel keys are unique and metadata always matches the storage engines."""
import json
import os
import re

import vlib
from vlib import cN, clist, cpair, cbool, cstr, coq_print

PID = "C15"
MODULE, PKG, BIN = "core", "./verifh/c15", "c15"
COQ_IMPORTS = ("From stdpp Require Import strings.\n"
               "From Synnax Require Import Common.Base Generated.Consts_C15 Core.Channel Monitors.Mon_C15.")
CASE_TYPE = "case_t"
COUNTS = {"quick": 200, "thorough": 6000}
SHARD = 12
PROCS = 8
HARNESS_TIMEOUT = 900
RULE = ("histories of 3-11 operations on a fresh in-memory cluster of 1-3 nodes (real aspen KV + gossip, real cesium "
        "engines), name validation on in 80%: batched creates of 1-4 channels (index / fixed-density data with an index "
        "on the same or another lease / variable-length / leased virtual / free virtual / calculated; default, explicit, "
        "remote, free and non-existent leaseholders; retrieve-if-exists and overwrite options; re-submission of an existing "
        "calculated channel WITH its key, alone or next to new channels, followed by one more free create), renames "
        "(including batches one leaseholder must reject as a whole: ordinary channels next to its internal control "
        "channel, a deleted or a never existing key), deletes by key "
        "and by name (indexes with and without their dependants, duplicates, already deleted keys, internal channels), "
        "channel-service restarts, counter bumps to the 2^20 boundary; two create requests in overlapping transactions "
        "on one node committed in reverse order, then a restart of that node's channel service over the same DB and "
        "engines and one more create (keys at or below the persisted counter, never handed out twice); rename chains that return to an earlier name of the same channel (A->B->A, "
        "A->B->C->A) followed by a create (plain or retrieve-if-exists), a rename of another channel onto that name, or a "
        "delete by that name; free virtual channels deleted THROUGH a "
        "node other than the bootstrapper, followed by creates and renames validated on node 1 that mix the deleted "
        "name with names still in use or take the deleted name twice; scripted storage "
        "faults (every node's engine sits on a file-system wrapper; 'the next meta.json persist on node i fails once', "
        "then a create or rename that runs entirely on node i, issued in a transaction through any node: it must fail "
        "and leave metadata and every engine unchanged and equal); about a quarter of the requests are malformed "
        "(empty/invalid/duplicate/taken names, missing data type, data channel without or with a wrong index, virtual "
        "channel with an index, unknown node). Non-trivial = at least two successful creates through different gateways "
        "or for different leaseholders, a successful delete or rename of an existing channel, and one failing request; "
        "distinct by hash.")
TRUSTED = ["hooks core/pkg/distribution/channel/export_verif.go (VerifReopen = OpenService over the same config, "
           "VerifCounters, VerifBump = the counter's kv Add with counter.add's 2^20 guard) and cesium/export_verif_c15.go (VerifChannelKeys = keys of db.mu.dbs)",
           "mock cluster of core/pkg/distribution/mock: real channel.Service, aspen DB + gossip on the mock network, "
           "cesium on a memory FS behind the harness's fault-injecting wrapper (fails one Rename onto meta.json when "
           "armed, passes everything else through); the harness waits until all nodes report identical metadata before observing"]
ASSUMES = ["fewer than 50 external non-virtual channels (the licence overflow check is not modelled)",
           "metadata gossip settles between operations (the harness waits for agreement of all nodes; operations are "
           "issued one at a time)",
           "node keys < 4095, local keys/counters < 2^32",
           "request entries carry a LocalKey only when it is the key of a live channel (re-submission of an existing "
           "channel with its key); arbitrary foreign keys are not generated"]
PARTIAL = None

DT = {"": 0, "timestamp": 1, "float64": 2, "string": 3, "json": 4, "int64": 5, "uint8": 6, "float32": 7}
EXPR = {"": 0, "return 1": 1, "return 2": 2}
ERR = {"": "EOk", "invalid_name": "EInvalidName", "dup_in_request": "EDupInRequest", "name_exists": "ENameExists",
       "calc_index": "ECalcIndex", "no_node": "ENoNode", "name_required": "ENameRequired",
       "counter_overflow": "ECounterOverflow", "ts_invalid": "ETsInvalid", "ts_exists": "ETsExists",
       "index_not_found": "EIndexNotFound", "not_an_index": "ENotAnIndex",
       "index_has_dependants": "EIndexHasDependants", "internal": "EInternal", "len_mismatch": "ELenMismatch",
       "not_found": "ENotFound", "fs_rename": "EFsRename", "other": "EUnreachable", "fault": "EFault"}
FREE = 4095
MAXL = 1048575


# --------------------------------------------------------------------------- constants from Go
def consts(repo):
    def rd(rel):
        return open(os.path.join(repo, rel)).read()
    ch = rd("core/pkg/distribution/channel/channel.go")
    m1 = re.search(r"k1\s*:=\s*uint32\(nodeKey\)\s*<<\s*(\d+)", ch)
    m2 = re.search(r"func \(c Key\) Leaseholder\(\) node\.Key \{ return node\.Key\(c >> (\d+)\) \}", ch)
    m3 = re.search(r"func \(c Key\) LocalKey\(\) LocalKey \{ return LocalKey\(c & (0x[0-9A-Fa-f]+|\d+)\) \}", ch)
    mth = rd("x/go/math/math.go")
    m4 = re.search(r"MaxUint20\s+types\.Uint20\s*=\s*(\d+)\s*<<\s*(\d+)\s*-\s*(\d+)", mth)
    m5 = re.search(r"MaxUint12\s+types\.Uint12\s*=\s*(\d+)\s*<<\s*(\d+)\s*-\s*(\d+)", mth)
    nd = rd("aspen/internal/node/node.go")
    m6 = re.search(r"KeyBootstrapper\s+Key\s*=\s*(\d+)", nd)
    m7 = re.search(r"KeyFree\s*=\s*Key\(math\.MaxUint12\)", nd)
    ctr = rd("core/pkg/distribution/channel/counter.go")
    m8 = re.search(r"c\.wrap\.Value\(\)\+int64\(delta\) > int64\(math\.MaxUint20\)", ctr)
    lp = rd("core/pkg/distribution/channel/lease_proxy.go")
    m9 = re.search(r'const calculatedIndexNameSuffix = "([A-Za-z0-9_]*)"', lp)
    if not all([m1, m2, m3, m4, m5, m6, m7, m8, m9]):
        raise RuntimeError("C15 constants not found in Go source: %s" %
                           [bool(x) for x in (m1, m2, m3, m4, m5, m6, m7, m8, m9)])
    max20 = (int(m4.group(1)) << int(m4.group(2))) - int(m4.group(3))
    max12 = (int(m5.group(1)) << int(m5.group(2))) - int(m5.group(3))
    return ("(* GENERATED by runner/props/C15.py consts() from the Go source on every run. Do not edit. *)\n"
            "From Coq Require Import NArith String.\n"
            "Local Open Scope N_scope.\n"
            "Definition key_shift : N := %d.        (* channel.go NewKey: uint32(nodeKey) << n *)\n"
            "Definition leaseholder_shift : N := %d. (* channel.go Key.Leaseholder: c >> n *)\n"
            "Definition local_mask : N := %d.  (* channel.go Key.LocalKey: c & mask *)\n"
            "Definition max_local : N := %d.   (* x/go/math MaxUint20 (counter.go limit) *)\n"
            "Definition node_free : N := %d.      (* aspen node.KeyFree = MaxUint12 *)\n"
            "Definition node_boot : N := %d.         (* aspen node.KeyBootstrapper *)\n"
            "Definition calc_suffix : string := \"%s\". (* lease_proxy.go calculatedIndexNameSuffix *)\n"
            % (int(m1.group(1)), int(m2.group(1)), int(m3.group(1), 0), max20, max12, int(m6.group(1)), m9.group(1)))


# --------------------------------------------------------------------------- generator
BAD_NAMES = ["", "1x", "a b", "a-b", "x#", "9"]


def _spec(name, lease=0, dt="float64", is_index=False, idx=0, idx_name="", virtual=False, expr="", key_name=""):
    return {"name": name, "lease": lease, "dt": dt, "is_index": is_index, "idx": idx, "idx_name": idx_name,
            "virtual": virtual, "expr": expr, "key_name": key_name}


class Shadow:
    """what the generator believes exists (assuming its valid requests succeed) — only used to aim"""

    def __init__(self, n):
        self.n = n
        self.idx = {}     # name -> lease (index channels)
        self.live = {}    # name -> (lease, kind)
        self.dead = 0
        self.cnt = 0
        self.calc = {}    # name -> expression (calculated channels)

    def fresh(self, rng, pre):
        self.cnt += 1
        return "%s%d" % (pre, self.cnt)


def gen_create(rng, sh, nodes, gw):
    """returns a list of ops: index channels a data channel needs are created by an earlier request"""
    live_before = dict(sh.live)
    pre = []
    chans = []
    nb = rng.choice([1, 1, 2, 2, 3, 4])
    retr = rng.random() < 0.15
    over = rng.random() < 0.15
    bad = rng.random() < 0.22

    def pick_name(prefix):
        reuse = (retr or over or rng.random() < 0.06) and rng.random() < 0.7
        cands = [n for n in sh.live if n not in [c["name"] for c in chans] and not n.endswith("_time")]
        if reuse and cands:
            return rng.choice(cands)
        return sh.fresh(rng, prefix)

    for _ in range(nb):
        lease = rng.choice([0, 0] + nodes + nodes + [FREE])
        eff = gw if lease == 0 else lease
        kind = rng.choice(["index", "data", "data", "var", "virtual", "virtual", "calc", "free"])
        if lease == FREE:
            kind = rng.choice(["free", "free", "calc"])
        if kind == "index":
            name = pick_name("t")
            chans.append(_spec(name, lease, "timestamp", True))
            sh.idx[name] = eff
            sh.live[name] = (eff, kind)
        elif kind in ("data", "var"):
            same = [n for n, l in sh.idx.items() if l == eff and n not in [c["name"] for c in chans]]
            if not same:
                tn = sh.fresh(rng, "t")
                pre.append({"op": "create", "gw": rng.choice(nodes), "chans": [_spec(tn, eff, "timestamp", True)],
                            "retrieve": False, "over": False})
                sh.idx[tn] = eff
                sh.live[tn] = (eff, "index")
                same = [tn]
            name = pick_name("d")
            chans.append(_spec(name, lease, "float64" if kind == "data" else "string", False, 0, rng.choice(same)))
            sh.live[name] = (eff, kind)
        elif kind == "virtual":
            name = pick_name("v")
            chans.append(_spec(name, lease, rng.choice(["float64", "json", "string"]), False, 0, "", True))
            sh.live[name] = (eff, kind)
        elif kind == "free":
            name = pick_name("f")
            chans.append(_spec(name, FREE, rng.choice(["float64", "uint8"]), False, 0, "", True))
            sh.live[name] = (FREE, kind)
        else:
            name = pick_name("c")
            ex = rng.choice(["return 1", "return 1", "return 2"])
            chans.append(_spec(name, rng.choice([0, lease]), "float32", False, 0, "", rng.random() < 0.5, ex))
            sh.live[name] = (FREE, kind)
            sh.calc[name] = ex
            sh.live[name + "_time"] = (FREE, "index")
    if bad and chans:
        c = rng.choice(chans)
        x = rng.randrange(11)
        if x == 0:
            c["name"] = rng.choice(BAD_NAMES)
        elif x == 1 and len(chans) > 1:
            c["name"] = rng.choice([d["name"] for d in chans if d is not c])
        elif x == 2 and [n for n in sh.live if not n.endswith("_time")]:
            c["name"] = rng.choice([n for n in sh.live if not n.endswith("_time")])
        elif x == 3:
            c["dt"] = ""
        elif x == 4:
            c["idx_name"] = ""
            c["idx"] = rng.choice([0, 1, 77])
        elif x == 5:
            c["idx_name"] = rng.choice(list(sh.live)) if sh.live else ""
        elif x == 6:
            c["virtual"] = True
        elif x == 7:
            c["lease"] = rng.choice([7, 9])
        elif x == 8:
            c["is_index"] = not c["is_index"]
        elif x == 9:
            # data channel naming an index created by this very request (no key yet)
            tn = sh.fresh(rng, "t")
            chans.insert(0, _spec(tn, c["lease"], "timestamp", True))
            c["idx_name"] = tn
        else:
            c["expr"] = "return 1"
            c["idx"] = 3
    prior = dict(live_before)
    for po in pre:
        for pc in po["chans"]:
            prior[pc["name"]] = (pc["lease"], "index")
    if over:
        # keep a replaced channel on the node that executes the entry replacing it (the other
        # placement is known finding F42, exercised by corpus/C15/known)
        for c in chans:
            if c["name"] in prior:
                old = prior[c["name"]][0]
                if old == FREE:
                    if not c["expr"] and c["lease"] != FREE:
                        c.update(lease=FREE, virtual=True, is_index=False, idx_name="", idx=0)
                else:
                    if c["expr"] or c["lease"] == FREE:
                        c.update(expr="", virtual=True, is_index=False, idx_name="", idx=0)
                    c["lease"] = old
                if c["name"] in sh.live:
                    kd = "calc" if c["expr"] else ("free" if c["lease"] == FREE else "virtual" if c["virtual"] else
                                                  sh.live[c["name"]][1])
                    sh.live[c["name"]] = (old, kd)
    for c in chans:
        if not c["expr"]:
            sh.calc.pop(c["name"], None)
            if sh.live.get(c["name"], (0, ""))[1] == "calc":
                sh.live[c["name"]] = (sh.live[c["name"]][0], "virtual")
    return pre + [{"op": "create", "gw": gw, "chans": chans, "retrieve": retr, "over": over}]


def gen_keys(rng, sh, k):
    by, dead, keys = [], [], []
    for _ in range(k):
        x = rng.random()
        if x < 0.72 and sh.live:
            by.append(rng.choice(list(sh.live)))
            dead.append(-1)
            keys.append(0)
        elif x < 0.82 and sh.dead:
            by.append("")
            dead.append(rng.randrange(8))
            keys.append(0)
        elif x < 0.88:
            by.append(rng.choice(["sy_node_1_control", "sy_ontology_resource_set", "sy_node_2_control"]))
            dead.append(-1)
            keys.append(0)
        else:
            by.append("")
            dead.append(-1)
            keys.append(rng.choice([0, 5, (1 << 20) + 900, (2 << 20) + 1, (9 << 20) + 3, (FREE << 20) + 800, (3 << 20) + 2]))
    return by, dead, keys


def gen_case(rng):
    n = rng.choice([1, 2, 2, 2, 3, 3, 3])
    nodes = list(range(1, n + 1))
    sh = Shadow(n)
    ops = []
    validate = rng.random() < 0.8
    nops = rng.randrange(3, 12)
    if rng.random() < 0.06:
        # local-key boundary: bring a counter next to 2^20-1 first
        node = rng.choice(nodes)
        free = rng.random() < 0.3
        base_used = 6 if free else 2
        ops.append({"op": "bump", "gw": 1 if free else node, "free": free,
                    "delta": MAXL - base_used - rng.choice([0, 1, 2, 3])})
    while len(ops) < nops:
        gw = rng.choice(nodes)
        x = rng.random()
        calcs = [n for n in sh.calc if sh.live.get(n, (0, ""))[1] == "calc"]
        if calcs and rng.random() < 0.12:
            # a client re-submits an existing calculated channel WITH its key (and its index), alone or next
            # to new channels, with or without retrieve-if-exists; then one more free channel is created
            name = rng.choice(calcs)
            retr = rng.random() < 0.6
            alone = rng.random() < 0.35
            new_name = name
            ex = sh.calc[name]
            if alone and not retr and rng.random() < 0.6:
                new_name = sh.fresh(rng, "c")
                ex = rng.choice(["return 1", "return 2"])
            chans = [_spec(new_name, FREE, "float32", False, 0, name + "_time", True, ex,
                           key_name=name)]
            if not alone:
                for _ in range(rng.choice([1, 1, 2])):
                    if rng.random() < 0.7:
                        fn = sh.fresh(rng, "f")
                        chans.append(_spec(fn, FREE, "float64", False, 0, "", True))
                        sh.live[fn] = (FREE, "free")
                    else:
                        cn = sh.fresh(rng, "c")
                        chans.append(_spec(cn, 0, "float32", False, 0, "", False, "return 1"))
                        sh.live[cn] = (FREE, "calc")
                        sh.calc[cn] = "return 1"
                        sh.live[cn + "_time"] = (FREE, "index")
                if rng.random() < 0.5:
                    rng.shuffle(chans)
            if new_name != name:
                sh.live[new_name] = sh.live.pop(name)
                sh.calc[new_name] = ex
                sh.calc.pop(name, None)
            ops.append({"op": "create", "gw": gw, "chans": chans, "retrieve": retr, "over": False})
            fn = sh.fresh(rng, "f")
            ops.append({"op": "create", "gw": rng.choice(nodes),
                        "chans": [_spec(fn, FREE, "float64", False, 0, "", True)], "retrieve": False, "over": False})
            sh.live[fn] = (FREE, "free")
            continue
        y = rng.random()
        if y < 0.07:
            # two create requests in overlapping transactions on one node, committed in reverse order; the
            # node's channel service is restarted over the same DB and engines; one more create
            def leased_new(pre):
                nm = sh.fresh(rng, pre)
                if rng.random() < 0.5:
                    sh.idx[nm] = gw
                    sh.live[nm] = (gw, "index")
                    return _spec(nm, rng.choice([0, gw]), "timestamp", True)
                sh.live[nm] = (gw, "virtual")
                return _spec(nm, rng.choice([0, gw]), rng.choice(["float64", "string"]), False, 0, "", True)
            a = [leased_new("pa") for _ in range(rng.choice([1, 1, 2]))]
            b = [leased_new("pb") for _ in range(rng.choice([1, 1, 2]))]
            ops.append({"op": "create_pair", "gw": gw, "chans": a, "chans_b": b})
            if rng.random() < 0.85:
                ops.append({"op": "restart", "gw": gw})
            ops.append({"op": "create", "gw": rng.choice([gw, gw, rng.choice(nodes)]), "chans": [leased_new("pc")],
                        "retrieve": False, "over": False})
            continue
        if 0.25 <= y < 0.33:
            # a rename chain that RETURNS to an earlier name of the same channel (A->B->A, A->B->C->A), then other
            # requests reach for that name: it is taken (create refused with validation on, retrieve-if-exists hands
            # the renamed-back channel out, a rename of another channel onto it is refused)
            cands = [nn for nn, (l, kd) in sh.live.items() if kd in ("virtual", "free", "index", "data", "var")
                     and not nn.endswith("_time")]
            if cands and rng.random() < 0.5:
                a = rng.choice(cands)
                al, akd = sh.live[a]
            else:
                a = sh.fresh(rng, "ra")
                al = rng.choice(nodes + [FREE])
                akd = "free" if al == FREE else rng.choice(["virtual", "index"])
                ops.append({"op": "create", "gw": rng.choice(nodes), "retrieve": False, "over": False,
                            "chans": [_spec(a, al, "timestamp", True) if akd == "index" else
                                      _spec(a, al, "float64", False, 0, "", True)]})
                sh.live[a] = (al, akd)
                if akd == "index":
                    sh.idx[a] = al
            chain = [sh.fresh(rng, "rb") for _ in range(rng.choice([1, 1, 2]))] + [a]
            cur = a
            for nxt in chain:
                ops.append({"op": "rename", "gw": rng.choice(nodes), "by": [cur], "dead": [-1], "keys": [0], "names": [nxt]})
                cur = nxt
            other = [nn for nn in sh.live if nn != a and not nn.endswith("_time")]
            k = rng.random()
            tl = rng.choice([0, al if al != FREE else 1, rng.choice(nodes), FREE])
            if k < 0.45:
                ops.append({"op": "create", "gw": rng.choice(nodes), "retrieve": False, "over": False,
                            "chans": [_spec(a, tl, "float64", False, 0, "", True)]})
            elif k < 0.7:
                ops.append({"op": "create", "gw": rng.choice(nodes), "retrieve": True, "over": False,
                            "chans": [_spec(a, tl, "float64", False, 0, "", True)]})
            elif other:
                ops.append({"op": "rename", "gw": rng.choice(nodes), "by": [rng.choice(other)], "dead": [-1], "keys": [0],
                            "names": [a]})
            else:
                ops.append({"op": "delete_by_name", "gw": rng.choice(nodes), "names": [a]})
                sh.live.pop(a, None)
                sh.idx.pop(a, None)
                sh.dead += 1
            continue
        if 0.17 <= y < 0.25 and n >= 2:
            # a free (leaseholder-less) virtual channel, stored by the bootstrapper, is deleted THROUGH ANOTHER node;
            # then requests validated on node 1 mix the deleted name with names still in use, or take the deleted
            # name twice: the name of the deleted channel is free again, every other name is as taken as before
            fx = sh.fresh(rng, "fx")
            taken = [nn for nn in sh.live if not nn.endswith("_time") and not nn.startswith("sy_")]
            if not taken or rng.random() < 0.5:
                yn = sh.fresh(rng, "fy")
                yl = rng.choice([1, 1, FREE, rng.choice(nodes)])
                ops.append({"op": "create", "gw": 1 if yl in (1, FREE) else rng.choice(nodes),
                            "chans": [_spec(yn, yl, "float64", False, 0, "", True)], "retrieve": False, "over": False})
                sh.live[yn] = (yl, "free" if yl == FREE else "virtual")
                taken.append(yn)
            ops.append({"op": "create", "gw": rng.choice([1, 1] + nodes),
                        "chans": [_spec(fx, FREE, rng.choice(["float64", "uint8"]), False, 0, "", True)],
                        "retrieve": False, "over": False})
            other = rng.choice([g for g in nodes if g != 1])
            if rng.random() < 0.7:
                ops.append({"op": "delete", "gw": other, "by": [fx], "dead": [-1], "keys": [0]})
            else:
                ops.append({"op": "delete_by_name", "gw": other, "names": [fx]})
            sh.dead += 1

            def again(nm):
                l = rng.choice([1, 1, 0, FREE])
                return _spec(nm, l, "float64", False, 0, "", True)
            k = rng.random()
            if k < 0.45:
                chans = [again(fx), again(rng.choice(taken))]
                if rng.random() < 0.3:
                    chans.append(again(sh.fresh(rng, "fz")))
                rng.shuffle(chans)
                ops.append({"op": "create", "gw": 1, "chans": chans, "retrieve": False, "over": False})
            elif k < 0.6:
                ops.append({"op": "create", "gw": 1, "chans": [again(fx), again(fx)], "retrieve": False, "over": False})
            else:
                retr = rng.random() < 0.3
                for _ in range(2):
                    ops.append({"op": "create", "gw": 1, "chans": [again(fx)], "retrieve": retr, "over": False})
                sh.live[fx] = (1, "virtual")
            if rng.random() < 0.4:
                l = rng.choice(list(sh.live))
                ops.append({"op": "rename", "gw": 1, "by": [l], "dead": [-1], "keys": [0], "names": [rng.choice([fx] + taken)]})
            continue
        if y < 0.17:
            # node fn's engine fails the next meta.json persist, once; a request that runs entirely on fn is
            # issued through any node: it must fail and change neither the metadata nor any engine
            fnode = rng.choice(nodes)
            mine = [nn for nn, (l, kd) in sh.live.items() if l == fnode and kd in ("index", "data", "var", "virtual")]
            if mine and rng.random() < 0.6:
                rng.shuffle(mine)
                by = mine[:rng.choice([1, 1, 2])]
                ops.append({"op": "frename", "gw": gw, "fault": fnode, "by": by, "dead": [-1] * len(by),
                            "keys": [0] * len(by), "names": [sh.fresh(rng, "fr") for _ in by]})
            else:
                chans = []
                for _ in range(rng.choice([1, 1, 2])):
                    nm = sh.fresh(rng, "fc")
                    same = [n for n, l in sh.idx.items() if l == fnode and n in sh.live]
                    k = rng.random()
                    if k < 0.4:
                        chans.append(_spec(nm, fnode, "timestamp", True))
                    elif k < 0.7 or not same:
                        chans.append(_spec(nm, fnode, "float64", False, 0, "", True))
                    else:
                        chans.append(_spec(nm, fnode, "float64", False, 0, rng.choice(same)))
                ops.append({"op": "fcreate", "gw": gw, "fault": fnode, "chans": chans})
            continue
        if x < 0.5 or not sh.live:
            ops += gen_create(rng, sh, nodes, gw)
        elif x < 0.64:
            k = rng.choice([1, 1, 2, 3])
            by, dead, keys = gen_keys(rng, sh, k)
            names = []
            for _ in range(k):
                y = rng.random()
                if y < 0.7:
                    names.append(sh.fresh(rng, "r"))
                elif y < 0.85 and sh.live:
                    names.append(rng.choice(list(sh.live)))
                elif y < 0.87:
                    names.append(sh.fresh(rng, "q") + "_time")
                elif y < 0.93:
                    names.append(rng.choice(BAD_NAMES))
                else:
                    names.append(names[0] if names else "r0")
            # the same key twice with different names is known finding F43 (corpus/C15/known)
            seen_by = set()
            for j in range(len(by)):
                while by[j] and by[j] in seen_by:
                    by[j] = ""
                    keys[j] = rng.choice([5, (1 << 20) + 900, (9 << 20) + 3])
                seen_by.add(by[j])
            leased = [nn for nn, (l, kd) in sh.live.items() if l != FREE]
            rejecting = False
            if leased and rng.random() < 0.3:
                rejecting = True
                # a batch the leaseholder must reject as a whole: ordinary channels of one node next to that
                # node's internal control channel, an already deleted key or a key that never existed
                first = rng.choice(leased)
                l = sh.live[first][0]
                same = [nn for nn in leased if sh.live[nn][0] == l and nn != first]
                by = [first] + ([rng.choice(same)] if same and rng.random() < 0.6 else [])
                dead, keys = [-1] * len(by), [0] * len(by)
                y = rng.random()
                if y < 0.45 and l in nodes:
                    by.append("sy_node_%d_control" % l); dead.append(-1); keys.append(0)
                elif y < 0.7 and sh.dead:
                    by.append(""); dead.append(rng.randrange(8)); keys.append(0)
                else:
                    by.append(""); dead.append(-1); keys.append((l << 20) + rng.choice([900, 901]))
                order = list(range(len(by)))
                rng.shuffle(order)
                by, dead, keys = [by[i] for i in order], [dead[i] for i in order], [keys[i] for i in order]
                names = [sh.fresh(rng, "r") for _ in by]
            if rng.random() < 0.05:
                names = names[:-1] if rng.random() < 0.5 else names + ["zz"]
            for b, nn in zip(by, names):
                if b in sh.live and not rejecting:
                    sh.live[nn] = sh.live.pop(b)
                    if b in sh.idx:
                        sh.idx[nn] = sh.idx.pop(b)
            ops.append({"op": "rename", "gw": gw, "by": by, "dead": dead, "keys": keys, "names": names})
        elif x < 0.84:
            k = rng.choice([1, 1, 2, 3, 4])
            by, dead, keys = gen_keys(rng, sh, k)
            if rng.random() < 0.35 and sh.idx:
                # an index together with (some of) its dependants
                t = rng.choice(list(sh.idx))
                deps = [nn for nn, (l, kd) in sh.live.items() if kd in ("data", "var") and l == sh.idx[t]]
                pick = [t] + deps[:rng.randrange(0, 3)]
                rng.shuffle(pick)
                by, dead, keys = pick, [-1] * len(pick), [0] * len(pick)
            if rng.random() < 0.07 and by:
                by.append(by[0])
                dead.append(dead[0])
                keys.append(keys[0])
            for b in by:
                if b in sh.live:
                    sh.live.pop(b)
                    sh.idx.pop(b, None)
                    sh.dead += 1
            ops.append({"op": "delete", "gw": gw, "by": by, "dead": dead, "keys": keys})
        elif x < 0.91:
            k = rng.choice([1, 1, 2])
            names = [rng.choice(list(sh.live)) if sh.live and rng.random() < 0.8 else rng.choice(["nope", "a b", ""])
                     for _ in range(k)]
            for b in names:
                if b in sh.live:
                    sh.live.pop(b)
                    sh.idx.pop(b, None)
                    sh.dead += 1
            ops.append({"op": "delete_by_name", "gw": gw, "names": names})
        elif x < 0.97:
            ops.append({"op": "restart", "gw": gw})
        else:
            ops.append({"op": "bump", "gw": gw, "free": rng.random() < 0.3, "delta": rng.choice([0, 1, 2, 5])})
    return {"nodes": n, "validate": validate, "ops": ops}


def gen_engine_case(rng):
    """one cesium engine on a memory FS: create / batch delete / single delete / rename / reopen on the same FS"""
    eops = []
    nxt = [1]
    live = {}   # key -> kind

    def fresh():
        nxt[0] += 1
        return nxt[0] - 1

    def chan(kind, index=0):
        k = fresh()
        nm = "%s%d" % (kind[0], k)
        if kind == "index":
            return {"key": k, "name": nm, "dt": "timestamp", "is_index": True, "index": rng.choice([0, k]), "virtual": False}
        if kind == "virtual":
            return {"key": k, "name": nm, "dt": rng.choice(["float64", "json"]), "is_index": False, "index": 0, "virtual": True}
        return {"key": k, "name": nm, "dt": rng.choice(["float64", "string"]), "is_index": False, "index": index, "virtual": False}

    for _ in range(rng.randrange(5, 13)):
        x = rng.random()
        idxs = [k for k, kd in live.items() if kd == "index"]
        if x < 0.4 or not live:
            chs = []
            for _ in range(rng.choice([1, 2, 3])):
                kind = rng.choice(["index", "data", "data", "virtual", "virtual"])
                if kind == "data":
                    if not idxs and not any(c["is_index"] for c in chs):
                        kind = "index"
                    else:
                        pool = idxs + [c["key"] for c in chs if c["is_index"]]
                        ix = rng.choice(pool) if rng.random() < 0.9 else rng.choice([0, 99] + list(live))
                        chs.append(chan("data", ix))
                        continue
                chs.append(chan(kind))
            if rng.random() < 0.08:
                c = rng.choice(chs)
                y = rng.randrange(3)
                if y == 0:
                    c["dt"] = ""
                elif y == 1:
                    c["name"] = ""
                else:
                    c["virtual"], c["index"] = True, 5
            eops.append({"op": "create", "chans": chs})
            for c in chs:
                live[c["key"]] = "index" if c["is_index"] else "virtual" if c["virtual"] else "data"
        elif x < 0.62:
            ks = rng.sample(list(live), min(len(live), rng.choice([1, 2, 3])))
            if rng.random() < 0.4:
                vs = [k for k, kd in live.items() if kd == "virtual"]
                if vs:
                    ks.append(rng.choice(vs))
            if rng.random() < 0.1:
                ks.append(rng.choice([77, ks[0]]))
            eops.append({"op": "delete", "keys": ks})
            for k in ks:
                live.pop(k, None)
            if rng.random() < 0.6:
                eops.append({"op": "reopen"})
        elif x < 0.72:
            k = rng.choice(list(live) + [88])
            eops.append({"op": "delete1", "keys": [k]})
            live.pop(k, None)
        elif x < 0.84:
            ks = rng.sample(list(live), min(len(live), rng.choice([1, 2])))
            if rng.random() < 0.1:
                ks.append(66)
            eops.append({"op": "rename", "keys": ks, "names": [rng.choice(["n%d" % k, "n%d" % k, ""]) if rng.random() < 0.1 else "n%d" % k for k in ks]})
        else:
            eops.append({"op": "reopen"})
    eops.append({"op": "reopen"})
    return {"kind": "engine", "eops": eops, "nodes": 0, "validate": False, "ops": []}


def gen_cases(rng, tier, n):
    return [gen_engine_case(rng) if i % 8 == 7 else gen_case(rng) for i in range(n)]


# --------------------------------------------------------------------------- Coq printing
def c_raw_chan(c):
    return cpair(cstr(c["name"]), cN(c["lease"]), cN(DT.get(c["dt"], 99)), cbool(c["is_index"]), cN(c["local_key"]),
                 cN(c["local_idx"]), cbool(c["virtual"]), cbool(c.get("internal", False)),
                 cN(EXPR.get(c.get("expr", ""), 9)))


def c_keyed(c):
    return cpair(cN(c["key"]), c_raw_chan(c))


def c_echan(e):
    return cpair(cN(e["key"]), cpair(cstr(e["name"]), cN(DT.get(e["dt"], 99)), cbool(e["is_index"]), cN(e["index"]),
                                     cbool(e["virtual"])))


def c_obs(st):
    eng = clist([cpair(cN(int(n)), clist([c_echan(e) for e in es])) for n, es in sorted(st["eng"].items(),
                                                                                        key=lambda x: int(x[0]))])
    ctr = clist([cpair(cN(int(n)), cN(v[0])) for n, v in sorted(st["counters"].items(), key=lambda x: int(x[0]))])
    free = max([v[1] for v in st["counters"].values()] + [0])
    gone = clist([cpair(cN(g["key"]), cbool(bool(g["meta_found"] or g["eng_found"] or g["dist_w"] or g["dist_i"] or
                                                 g["eng_w"] or g["eng_i"]))) for g in st["gone"]])
    return "(Obs %s %s %s %s %s)" % (clist([c_keyed(c) for c in st["meta"]]), eng, ctr, cN(free), gone)


def c_spec(s, idx, lkey=0):
    return "(Chan %s %s %s %s %s %s %s false %s)" % (cstr(s["name"]), cN(s["lease"]), cN(DT.get(s["dt"], 99)),
                                                     cbool(s["is_index"]), cN(lkey), cN(idx), cbool(s["virtual"]),
                                                     cN(EXPR.get(s.get("expr", ""), 9)))


def c_op(o, st):
    k = o["op"]
    if k == "create":
        idx = st.get("idx") or [0] * len(o["chans"])
        lks = st.get("lkeys") or [0] * len(o["chans"])
        return "(Create %s %s %s %s)" % (cN(o["gw"]), clist([c_spec(s, i, k) for s, i, k in zip(o["chans"], idx, lks)]),
                                         cbool(o.get("retrieve", False)), cbool(o.get("over", False)))
    if k == "create_pair":
        na = len(o["chans"])
        n = na + len(o["chans_b"])
        idx = st.get("idx") or [0] * n
        lks = st.get("lkeys") or [0] * n
        sa = [c_spec(s, i, k) for s, i, k in zip(o["chans"], idx[:na], lks[:na])]
        sb = [c_spec(s, i, k) for s, i, k in zip(o["chans_b"], idx[na:], lks[na:])]
        return "(CreatePair %s %s %s)" % (cN(o["gw"]), clist(sa), clist(sb))
    if k == "fcreate":
        idx = st.get("idx") or [0] * len(o["chans"])
        lks = st.get("lkeys") or [0] * len(o["chans"])
        return "(FaultedCreate %s %s %s)" % (cN(o["fault"]), cN(o["gw"]),
                                             clist([c_spec(s, i, k) for s, i, k in zip(o["chans"], idx, lks)]))
    if k == "frename":
        return "(FaultedRename %s %s %s %s)" % (cN(o["fault"]), cN(o["gw"]), clist([cN(x) for x in st.get("keys") or []]),
                                                clist([cstr(x) for x in o["names"]]))
    if k == "rename":
        return "(Rename %s %s %s)" % (cN(o["gw"]), clist([cN(x) for x in st.get("keys") or []]),
                                      clist([cstr(x) for x in o["names"]]))
    if k == "delete":
        return "(Delete %s %s)" % (cN(o["gw"]), clist([cN(x) for x in st.get("keys") or []]))
    if k == "delete_by_name":
        return "(DeleteByName %s %s)" % (cN(o["gw"]), clist([cstr(x) for x in o["names"]]))
    if k == "restart":
        return "(Restart %s)" % cN(o["gw"])
    return "(Bump %s %s %s)" % (cN(o["gw"]), cbool(o.get("free", False)), cN(o.get("delta", 0)))


def _kinds_ok(st):
    for es in st["eng"].values():
        for e in es:
            if e["kind"] not in ("unary", "virtual") or (e["kind"] == "virtual") != bool(e["virtual"]):
                return "engine channel %s sits in the %s map with virtual=%s" % (e["key"], e["kind"], e["virtual"])
    return None


def harness_violation(case, r):
    if r.get("panic"):
        return "panic: " + r["panic"]
    if case.get("kind") == "engine":
        for st in r.get("esteps") or []:
            for e in st["eng"]:
                if e["kind"] not in ("unary", "virtual") or (e["kind"] == "virtual") != bool(e["virtual"]):
                    return "engine channel %s sits in the %s map with virtual=%s" % (e["key"], e["kind"], e["virtual"])
        return None
    for i, st in enumerate([r["base"]] + (r.get("steps") or [])):
        w = _kinds_ok(st)
        if w:
            return w
    return None


def c_eop(o):
    k = o["op"]
    if k == "create":
        return "(ECreate %s)" % clist([cpair(cN(c["key"]), cpair(cstr(c["name"]), cN(DT.get(c["dt"], 99)), cbool(c["is_index"]),
                                                         cN(c["index"]), cbool(c["virtual"]))) for c in o["chans"]])
    if k == "delete":
        return "(EDelete %s)" % clist([cN(x) for x in o["keys"]])
    if k == "delete1":
        return "(EDelete1 %s)" % cN(o["keys"][0])
    if k == "rename":
        return "(ERename %s)" % clist([cpair(cN(a), cstr(b)) for a, b in zip(o["keys"], o["names"])])
    return "EReopen"


def to_coq(case, r):
    if case.get("kind") == "engine":
        def ecls(o, st):
            # cesium's Channel.Validate rejects an empty name like any other invalid field
            if o["op"] == "create" and st["err"] == "name_required":
                return "ETsInvalid"
            return ERR.get(st["err"], "EUnreachable")
        steps = [cpair(c_eop(o), ecls(o, st), clist([c_echan(e) for e in st["eng"]]))
                 for o, st in zip(case["eops"], r["esteps"])]
        return "(CEngine %s)" % clist(steps)
    if r.get("unsettled") or not r["base"].get("agree", True):
        # some node never received a metadata update (aspen gossip, property C06): nothing to compare
        return None
    steps = []
    for o, st in zip(case["ops"], r["steps"]):
        ret = clist([c_keyed(c) for c in (st.get("ret") or [])])
        steps.append(cpair(c_op(o, st), ERR.get(st["err"], "EUnreachable"), ret, c_obs(st)))
    return "(CCluster %s)" % cpair(cbool(case["validate"]), c_obs(r["base"]), clist(steps))


def nontrivial(case, r):
    if case.get("kind") == "engine":
        ok_del = any(o["op"] in ("delete", "delete1") and not st["err"] for o, st in zip(case["eops"], r["esteps"]))
        return ok_del and sum(1 for o in case["eops"] if o["op"] == "reopen") >= 2
    if r.get("unsettled"):
        return False
    ok_creates = set()
    changed = failing = False
    for o, st in zip(case["ops"], r["steps"]):
        if st["err"]:
            failing = True
            continue
        if o["op"] in ("create", "create_pair") and st.get("ret"):
            for c in st["ret"]:
                ok_creates.add((o["gw"], c["lease"]))
        if o["op"] in ("delete", "rename", "delete_by_name"):
            changed = True
    return len(ok_creates) >= 2 and changed and failing


def histogram(case, r):
    if case.get("kind") == "engine":
        return ["kind=engine"] + ["eop=%s/%s" % (o["op"], st["err"] or "ok") for o, st in zip(case["eops"], r.get("esteps") or [])]
    ks = ["nodes=%d" % case["nodes"], "validate=%s" % case["validate"]]
    if r.get("unsettled"):
        return ks + ["unsettled_case(gossip did not reach every node within 3 s; skipped)"]
    for o, st in zip(case["ops"], r.get("steps") or []):
        ks.append("op=%s" % o["op"])
        ks.append("err=%s" % (st["err"] or "ok"))
        if o["op"] in ("delete", "delete_by_name") and o["gw"] != 1 and not st["err"] and \
                any(str(x).startswith("fx") for x in (o.get("by") or []) + (o.get("names") or [])):
            ks.append("free_channel_deleted_through_non_bootstrapper")
        if o["op"] in ("fcreate", "frename"):
            ks.append("fault=%s/%s" % (o["op"], "fired" if st.get("fired") else "not_consumed"))
            if o["fault"] != o["gw"]:
                ks.append("fault_remote")
        if o["op"] == "create":
            if o.get("retrieve"):
                ks.append("opt=retrieve")
            if o.get("over"):
                ks.append("opt=overwrite")
            for c in st.get("ret") or []:
                kind = ("calc" if c["expr"] else "free" if c["lease"] == FREE else "index" if c["is_index"] else
                        "virtual" if c["virtual"] else "var" if c["dt"] == "string" else "data")
                ks.append("created=%s" % kind)
                if c["lease"] != FREE and c["lease"] != o["gw"]:
                    ks.append("created_remote")
    return ks


def neighbours(case, rng):
    out = []
    if case.get("kind") == "engine":
        for i in range(len(case["eops"])):
            c = json.loads(json.dumps(case))
            del c["eops"][i]
            out.append(c)
        return out
    for i in range(len(case["ops"])):
        c = json.loads(json.dumps(case))
        del c["ops"][i]
        out.append(c)
    for g in range(1, case["nodes"] + 1):
        c = json.loads(json.dumps(case))
        for o in c["ops"]:
            o["gw"] = g
        out.append(c)
    c = json.loads(json.dumps(case))
    c["validate"] = not c["validate"]
    out.append(c)
    return out


TAG_AUTO = "calc_auto_index_duplicate_name"
TAG_OVER = "overwrite_of_channel_leased_elsewhere"
TAG_REN = "rename_same_key_twice"
NAME_RE = re.compile(r"^[a-zA-Z_][a-zA-Z0-9_]*$")


def _why(case, r):
    """[(step, clause)] as computed by Mon_C15.why (step 0 = initial state)"""
    out = coq_print(PID, COQ_IMPORTS, "Eval vm_compute in (why (%s))." % to_coq(case, r))
    out = re.sub(r"\s+", " ", out)
    m = re.search(r"= (\[.*?\]) : list", out)
    if not m:
        return None
    return [(int(x), int(y)) for x, y in re.findall(r"\((\d+), (\d+)\)", m.group(1))]


def _names_attributable(st):
    holders = {}
    for c in st["meta"]:
        if not NAME_RE.match(c["name"]):
            return False
        holders.setdefault(c["name"], []).append(c)
    for n, cs in holders.items():
        if len(cs) > 1 and not any(c["is_index"] and c["lease"] == FREE and c["virtual"] and n.endswith("_time")
                                   for c in cs):
            return False
    return True


def _exec_node(spec, gw):
    if spec.get("expr") or spec["lease"] == FREE:
        return 1
    return gw if spec["lease"] == 0 else spec["lease"]


def _cause_of_key(case, r, k, upto):
    """known cause of key k being out of step between metadata and engines at step index upto (0-based)"""
    prev = r["base"]
    for i in range(upto + 1):
        o, st = case["ops"][i], r["steps"][i]
        if o["op"] == "rename" and (st.get("keys") or []).count(k) >= 2:
            # also when a later part of the request is rejected: the peer that holds k has already
            # committed metadata (first name) and engine (last name)
            return TAG_REN
        if not st["err"]:
            if o["op"] == "create" and o.get("over"):
                before = {c["key"]: c for c in prev["meta"]}
                after = {c["key"] for c in st["meta"]}
                if k in before and k not in after:
                    specs = [s for s in o["chans"] if s["name"] == before[k]["name"]]
                    if specs and all(_exec_node(s, o["gw"]) != (k >> 20) for s in specs) and (k >> 20) != FREE:
                        return TAG_OVER
        prev = st
    return None


def _meta_leased(st):
    out = {}
    for c in st["meta"]:
        if c["lease"] != FREE:
            idx = 0 if c["local_idx"] == 0 else ((c["lease"] << 20) | c["local_idx"])
            out[c["key"]] = (c["name"], c["dt"], c["is_index"], idx, c["virtual"])
    return out


def _engines(st):
    out = {}
    for n, es in st["eng"].items():
        for e in es:
            out.setdefault(e["key"], []).append((e["name"], e["dt"], e["is_index"], e["index"], e["virtual"], int(n)))
    return out


def tags(case, r):
    """tags of known findings — returned only if EVERY clause the monitor rejects in this case is explained by
    one of them; anything unexplained yields the empty set so that it is reported as a violation."""
    if case.get("kind") == "engine" or not r or r.get("panic") or r.get("unsettled") or not r.get("steps"):
        return set()
    try:
        why = _why(case, r)
    except Exception:  # noqa
        return set()
    if not why:
        return set()
    t = set()
    for step, clause in why:
        if step == 0 or clause in (1, 2):
            return set()
        st = r["steps"][step - 1]
        if clause == 3:
            if not _names_attributable(st):
                return set()
            t.add(TAG_AUTO)
        elif clause == 4:
            ml, en = _meta_leased(st), _engines(st)
            bad = [k for k in set(ml) | set(en)
                   if k not in ml or k not in en or len(en[k]) != 1 or en[k][0][:5] != ml[k] or en[k][0][5] != (k >> 20)]
            for k in bad:
                c = _cause_of_key(case, r, k, step - 1)
                if c is None:
                    return set()
                t.add(c)
        elif clause == 5:
            stores = set(c["key"] for c in st["meta"]) | set(_engines(st))
            for g in st["gone"]:
                alive = any(g[f] for f in ("meta_found", "eng_found", "dist_w", "dist_i", "eng_w", "eng_i"))
                if alive or g["key"] in stores:
                    c = _cause_of_key(case, r, g["key"], step - 1)
                    if c != TAG_OVER:
                        return set()
                    t.add(c)
    return t


def extra(ctx):
    """witnesses of the known findings (corpus/C15/known): each must still be rejected by the monitor for its
    listed reason; kept out of the main batch so that they cannot crowd out a new violation there"""
    import check
    kd = os.path.join(vlib.ROOT, "corpus", PID, "known")
    if not os.path.isdir(kd):
        return
    names = sorted(f for f in os.listdir(kd) if f.endswith(".json"))
    cases = [json.load(open(os.path.join(kd, f))) for f in names]
    res, M, V, hv, errs = ctx.evaluate(cases)
    rep = {}
    for i, f in enumerate(names):
        fid = f.split("_")[0]
        if i in V:
            before = len(ctx.known_hits)
            check.report_case_violation(ctx, cases[i], res.get(i), "known-finding witness %s" % f)
            rep[fid] = "reproduced" if len(ctx.known_hits) > before else "rejected for another reason"
        else:
            rep[fid] = "no longer rejected by the monitor (finding may be fixed: update known_findings.json)"
            ctx.notes.append("known finding witness %s is no longer rejected" % f)
        if i in M:
            ctx.notes.append("model and implementation disagree on known-finding witness %s" % f)
            check.report_case_violation(ctx, cases[i], res.get(i), "model/implementation mismatch on witness %s" % f) \
                if False else None
    ctx.extra_cov["known_finding_witnesses"] = rep


def model_dump(case, r):
    t = to_coq(case, r)
    return coq_print(PID, COQ_IMPORTS, "Eval vm_compute in model_dump (%s)." % t)[-8000:]


SRC_SPECS = ["chankey"]     # translator/specs/chankey.json -> Generated/Src_ChanKey.v (regenerated on every run)
READY = True
TECHNIQUE = ("Coq proof (inductive key/counter invariant + extension relation over all operation histories; counting "
             "argument for key reservation) + model/impl correspondence by vm_compute + decidable monitor on the "
             "implementation's observations")
DESIGN_REF = "DESIGN.md §8 C15, §9 F9"
LEVEL_TEXT = ("Machine-checked Coq theorems over an executable Gallina copy of the channel service (create with both "
              "options, calculated/free/leased routing, handlers with commit-on-success, counters, rename, delete, "
              "cesium create/validate/rename/DeleteChannels): NewKey/Leaseholder/LocalKey are mutually inverse and "
              "injective below 2^20/2^12 (constants re-read from Go on every run); retrieveExistingAndAssignKeys "
              "hands the j-th new channel counter+j+1 <= the advanced counter <= 2^20-1 for every request and option "
              "(pigeonhole argument); the key/counter invariant is inductive over EVERY operation including requests "
              "failing in the middle of a batch (C15_invariant_step/_history); every key that comes into use is new, "
              "decodes to its leaseholder and lies above the leaseholder's previous counter (C15_new_keys_fresh); a key "
              "that disappeared is never in use again (C15_keys_never_reused); metadata = engines (every leased row in "
              "its leaseholder's engine with the same key/name/type/index/virtual flag and conversely) is preserved by "
              "every successful create without overwrite, rename with distinct keys, delete by key or name, restart and "
              "bump, hence by every such history (C15_meta_eq_engine_partial/_history_partial; the guards are exactly "
              "the remaining findings F42/F43, refuted by witnesses); a successfully deleted key is in use nowhere "
              "(C15_deleted_gone); an accepted name validation yields valid, pairwise different names held by no other "
              "row (C15_validate_names_sound). Upstream defects F9, F40, F44 and the remaining F41-F43 are refutation "
              "witnesses (vm_compute), each replayed on the implementation. The model is tied to /repo by driving the "
              "real channel.Service of every node of a 1-3 node in-memory cluster and comparing result class, returned "
              "channels, metadata, every engine's channel listing and all counters after every operation inside Coq; "
              "a decidable monitor states all five clauses on the implementation's observations.")
LEVEL_NOTE = ("Trusted: Coq kernel/vm_compute; hand-written model tied by correspondence (not translation); harness, two "
              "tiny add-only hook files, generator, error-class mapping by message text. The model keeps ONE metadata "
              "table: the harness waits for the aspen gossip to settle between operations and skips (counts) histories "
              "in which a replica never received an update (C06's known finding). Outcomes that depend on Go map "
              "iteration order or on which of several same-named rows a lookup returns are flagged by the model and not "
              "compared (about 7% of steps); the monitor still judges them. Not proved as a universal statement (observed "
              "by the monitor on every run, with refutations for the known exceptions): name uniqueness over whole "
              "histories (only the validation step is proved sound); metadata = engines for creates WITH the overwrite "
              "option whose replaced channel lives on the executing node. The F45 stale-name-index behaviour of the "
              "upstream tree is not reproduced by the fixed=false model instance. Licence overflow check, "
              "ontology/group resources, search index, signals not modelled. All theorems closed under the global "
              "context.")
