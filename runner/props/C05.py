"""C05 — exactly one writer controls a channel region: highest authority wins."""
import json
import random
import sys
import vlib
from vlib import cN, cZ, clist, cpair, cbool, coq_print

PID = "C05"
MODULE, PKG, BIN = "cesium", "./verifh/c05", "c05"
COQ_IMPORTS = "From Synnax Require Import Common.Base Cesium.Control Cesium.ControlMonitor Monitors.Mon_C05."
CASE_TYPE = "case_t"
COUNTS = {"quick": 1000, "thorough": 20000}
SHARD = 125
MAXTS = 2 ** 63 - 1
AUTHS = [0, 1, 127, 254, 255]
STARTS = [0, 10, 20, 30, 40, 50]
ST = {"ok": 0, "unauth": 1, "valid": 2, "multi": 3, "resfail": 4, "skip": 5, "config": 7, "other": 8}

RULE = ("scripts of 4-16 ops over open/set-authority/release on one Controller (35% shared mode), 4 subjects, authorities "
        "mostly from {0,1,127,254,255}, ranges [s,MAX) as cesium writers use in 40% of the scripts (one region), else mostly bounded/touching/zero-length/"
        "reversed ranges over a 6-point alphabet (several regions, multi-region spans), flags ErrIfControlled / "
        "ErrOnUnauthorizedOpen / failing OpenResource; ~12% of ops malformed (empty subject, zero range, duplicate "
        "subject, dead or reused handle); 12% of the scripts are tie-churn templates (equal-authority gates, early ones "
        "released, re-opens at the same authority, then a hand-back). Non-trivial = a hand-over between two subjects AND (a tie between the two "
        "highest gates of a region OR a release of a non-holder); distinct by hash.")
TRUSTED = ["hook cesium/internal/control/export_verif.go (VerifDump: read-only copy of regions/gates)",
           "harness resource = counter of OpenResource calls, so Transfer.Resource identifies the region",
           "harness never calls SetAuthority/Release/Authorize on a released gate (use-after-release is not modelled)",
           "concurrent phase: logical clock stamps taken around each call; resources numbered inside OpenResource "
           "(under the controller lock); Go race detector"]
ASSUMES = ["time stamps in [0, 2^63-1] (int64 overflow of Span()/Start differences not modelled)",
           "region.counter below 2^64", "operations on gates the caller has released are outside the quantifier"]
PARTIAL = ("the concurrent clause is proved for every interleaving of ATOMIC open/set-authority/release/authorize steps; "
           "that the controller/region mutexes make the Go calls atomic is only validated (race detector + "
           "linearizability check of recorded histories), not proved")


# ------------------------------------------------------------------ generator
def rand_range(rng):
    x = rng.random()
    if x < 0.28:
        return rng.choice(STARTS[:4]), MAXTS
    if x < 0.82:
        a, b = sorted(rng.sample(STARTS, 2))
        return a, b
    if x < 0.89:
        t = rng.choice(STARTS)
        return t, t                      # zero length (the zero range when t == 0)
    if x < 0.93:
        a, b = sorted(rng.sample(STARTS, 2))
        return b, a                      # reversed
    if x < 0.96:
        return rng.choice(STARTS) + rng.choice([-1, 1, 0]) + 1, rng.choice(STARTS[1:]) + rng.choice([-1, 0, 1])
    return rng.choice([0, 1, MAXTS - 1]), rng.choice([MAXTS, MAXTS - 1, 1])


def rand_auth(rng):
    return rng.choice(AUTHS) if rng.random() < 0.8 else rng.randrange(0, 256)


def gen_case(rng):
    n = rng.randrange(4, 17)
    shared = rng.random() < 0.35
    ops, live, used = [], {}, []
    single = rng.random() < 0.4   # every range [s,MAX): one region, as on a cesium channel
    nsubj = rng.choice([3, 4, 4, 6])
    for i in range(n):
        x = rng.random()
        if x < 0.42 or not live:
            s, e = (rng.choice(STARTS[:3]), MAXTS) if single else rand_range(rng)
            h = i
            if used and rng.random() < 0.03:
                h = rng.choice(used)
            free = [k for k in range(1, nsubj + 1) if k not in live.values()]
            subj = rng.choice(free) if free and rng.random() < 0.88 else rng.randrange(1, nsubj + 1)
            if rng.random() < 0.025:
                subj = 0
            auth = rand_auth(rng)
            if live and rng.random() < 0.25:     # provoke ties with an existing gate
                auth = rng.choice([o["auth"] for o in ops if o["op"] == "open"])
            o = {"op": "open", "h": h, "subj": subj, "auth": auth, "s": s, "e": e,
                 "eic": rng.random() < 0.07, "eou": rng.random() < 0.13, "resfail": rng.random() < 0.03}
            ops.append(o)
            used.append(h)
            live[h] = subj   # optimistic: may have failed
        elif x < 0.74:
            h = rng.choice(list(live)) if rng.random() < 0.95 else rng.randrange(0, n)
            auth = rand_auth(rng)
            if rng.random() < 0.3:               # raise/lower to exactly another gate's authority
                auth = rng.choice([o["auth"] for o in ops if o["op"] in ("open", "set")])
            ops.append({"op": "set", "h": h, "auth": auth})
        else:
            h = rng.choice(list(live)) if rng.random() < 0.95 else rng.randrange(0, n)
            ops.append({"op": "release", "h": h})
            if h in live and rng.random() < 0.92:
                del live[h]
    return {"kind": "ctl", "shared": shared, "ops": ops}


def gen_churn(rng):
    """tie churn: several gates at one authority, early ones released, re-opens at the same authority, then a
    hand-back (higher gate opens and releases / holder lowers itself / a gate is raised to the tie): control must
    go to the earliest-opened of the remaining highest gates, whatever was released before."""
    A = rng.choice([1, 5, 127, 254])
    M = MAXTS
    ops, h = [], 0

    def opn(subj, auth):
        nonlocal h
        ops.append({"op": "open", "h": h, "subj": subj, "auth": auth, "s": rng.choice(STARTS[:3]), "e": M,
                    "eic": False, "eou": False, "resfail": False})
        h += 1
        return h - 1
    k = rng.choice([2, 3, 3, 4])
    first = [opn(i + 1, A if rng.random() < 0.85 else max(0, A - 1)) for i in range(k)]
    gone = rng.sample(first[:-1], rng.randrange(1, k)) if k > 1 else []
    for g in sorted(gone):
        ops.append({"op": "release", "h": g})
    left = [g for g in first if g not in gone]
    later = [opn(k + 1 + i, A) for i in range(rng.choice([1, 1, 2]))]
    x = rng.random()
    if x < 0.4:
        hi = opn(9, min(255, A + rng.choice([1, 1, 100])))
        if rng.random() < 0.3:
            ops.append({"op": "set", "h": rng.choice(left + later), "auth": A})
        ops.append({"op": "release", "h": hi})
    elif x < 0.7:
        ops.append({"op": "set", "h": left[0], "auth": max(0, A - 1)})
        if rng.random() < 0.5:
            ops.append({"op": "set", "h": left[0], "auth": A})
    else:
        v = rng.choice(left + later)
        ops.append({"op": "set", "h": v, "auth": A + 1 if A < 255 else A})
        ops.append({"op": "set", "h": v, "auth": A})
        ops.append({"op": "set", "h": rng.choice(left + later), "auth": A})
    for g in left + later:
        if rng.random() < 0.4:
            ops.append({"op": "release", "h": g})
    return {"kind": "ctl", "shared": rng.random() < 0.3, "ops": ops}


def gen_cases(rng, tier, n):
    return [gen_churn(rng) if rng.random() < 0.12 else gen_case(rng) for _ in range(n)]


# ------------------------------------------------------------------ Coq printing
def c_opt(x, f):
    return "None" if x is None else "(Some %s)" % f(x)


def c_state(s):
    return cpair(cN(s[0]), cN(s[1]), cN(s[2]))


def c_op(o):
    if o["op"] == "open":
        return "Open (OCfg %s %s %s (TR %s %s) %s %s %s)" % (
            cN(o["h"]), cN(o["subj"]), cN(o["auth"]), cZ(o["s"]), cZ(o["e"]),
            cbool(o.get("eic")), cbool(o.get("eou")), cbool(o.get("resfail")))
    if o["op"] == "set":
        return "SetAuth %s %s" % (cN(o["h"]), cN(o["auth"]))
    return "Release %s" % cN(o["h"])


def c_out(r):
    oobs = cpair(cN(ST[r["st"]]), cbool(r["gate"]),
                 cpair(c_opt(r["from"], c_state), c_opt(r["to"], c_state)), cN(r["res"]))
    gates = clist([cpair(*[cN(v) for v in g]) for g in r["gates"]])
    regs = []
    for (s, e, res, curr, gs) in r["regions"]:
        cu = "None" if not curr else "(Some %s)" % cpair(cN(curr[0]), cN(curr[1]), cbool(curr[2]))
        regs.append(cpair(cZ(s), cZ(e), cN(res), cu,
                          clist([cpair(cN(a), cN(b)) for a, b in gs])))
    return cpair(oobs, cpair(gates, c_opt(r["lead"], c_state), clist(regs)))


def to_coq(case, r):
    if case.get("kind", "ctl") != "ctl":
        return None
    steps = [cpair(c_op(o), c_out(x)) for o, x in zip(case["ops"], r["outs"])]
    return cpair(cbool(case["shared"]), clist(steps))


def harness_violation(case, r):
    if r.get("panic"):
        return "panic: " + r["panic"]
    if (r.get("e2erace") or {}).get("failures"):
        return ("long-lived region: " if case.get("kind") == "ctlwrap" else "concurrent release/open: ") + \
            r["e2erace"]["failures"][0]
    kind = case.get("kind", "ctl")
    if kind in ("e2ev", "e2e", "conc", "e2eg", "e2ec") and (r.get("e2e") or r.get("hist") or r.get("e2eg") or r.get("e2ec")):
        # replayed / corpus cases of the extra phases: evaluate their own monitor
        try:
            if kind == "e2ec":
                q = "e2ec_violations [%s : e2ec_case_t]" % e2ec_to_coq(case, r)
            elif kind == "e2eg":
                q = "e2eg_violations [%s : e2eg_case_t]" % e2eg_to_coq(case, r)
            elif kind == "e2ev":
                q = "e2ev_violations [%s : e2ev_case_t]" % e2ev_to_coq(case, r)
            elif kind == "e2e":
                q = "e2e_violations [%s : e2e_case_t]" % e2e_to_coq(case, r)
            else:
                q = "conc_rejects [%s : conc_case_t]" % conc_to_coq(case, r)
            out = coq_print(PID, COQ_IMPORTS, "Eval vm_compute in %s." % q)
            if "= []" not in out.replace("\n", " "):
                return "%s case rejected by its monitor: %s" % (kind, out.strip()[-200:])
        except Exception as ex:  # noqa
            return "cannot evaluate %s case: %r" % (kind, ex)
    return None


# ------------------------------------------------------------------ coverage
def features(case, r):
    f = set()
    for o, x in zip(case["ops"], r.get("outs") or []):
        if x["from"] and x["to"] and x["from"][0] != x["to"][0]:
            f.add("handover")
        if x["from"] and x["to"] and x["from"][0] == x["to"][0] and x["from"][1] != x["to"][1]:
            f.add("holder_auth_change")
        if o["op"] == "release" and x["st"] == "ok" and not x["from"]:
            f.add("nonholder_release")
        if o["op"] == "set" and x["st"] == "ok" and x["from"] and x["to"] and x["to"][0] == o.get("subj", x["to"][0]) \
                and x["from"][0] != x["to"][0]:
            f.add("takeover_by_set")
        byres = {}
        for g in x["gates"]:
            byres.setdefault(g[3], []).append(g[2])
        for res, auths in byres.items():
            auths.sort(reverse=True)
            if len(auths) >= 2 and auths[0] == auths[1]:
                f.add("tie")
        if len(x["regions"]) >= 2:
            f.add("multi_region")
        if x["st"] == "multi":
            f.add("multi_region_span")
    return f


def nontrivial(case, r):
    if case.get("kind", "ctl") != "ctl":
        return False
    f = features(case, r)
    return "handover" in f and ("tie" in f or "nonholder_release" in f)


def histogram(case, r):
    if case.get("kind", "ctl") != "ctl":
        return ["kind=" + case["kind"]]
    ks = ["shared" if case["shared"] else "exclusive"]
    for o, x in zip(case["ops"], r.get("outs") or []):
        ks.append("op=%s/%s" % (o["op"], x["st"]))
    ks += ["feat=" + k for k in sorted(features(case, r))]
    return ks


def neighbours(case, rng):
    out = []
    ops = case["ops"]
    for i in range(len(ops)):
        c = json.loads(json.dumps(case))
        del c["ops"][i]
        out.append(c)
        if ops[i]["op"] in ("open", "set"):
            for d in (-1, 1):
                c = json.loads(json.dumps(case))
                c["ops"][i]["auth"] = min(255, max(0, ops[i]["auth"] + d))
                out.append(c)
    c = json.loads(json.dumps(case))
    c["shared"] = not c["shared"]
    out.append(c)
    return out


def tags(case, r):
    return set()


def model_dump(case, r):
    t = to_coq(case, r)
    return coq_print(PID, COQ_IMPORTS, "Eval vm_compute in model_dump (%s)." % t)[-8000:]


# ------------------------------------------------------------------ extra phases
CONC_COUNTS = {"quick": 90, "thorough": 1200}
E2E_COUNTS = {"quick": 120, "thorough": 2500}


def gen_conc(rng):
    """2-3 goroutines, each with its own subject/handles, all ranges [s,MAX) (one region)."""
    nt = rng.choice([2, 3, 3])
    threads = []
    for t in range(nt):
        ops, live, k = [], None, 0
        for _ in range(rng.randrange(3, 6)):
            x = rng.random()
            if live is None:
                live = t * 100 + k
                k += 1
                ops.append({"op": "open", "h": live, "subj": t + 1, "auth": rng.choice([1, 1, 127, 200, 255]),
                            "s": rng.choice([0, 10, 20]), "e": MAXTS, "eic": rng.random() < 0.08,
                            "eou": rng.random() < 0.12, "resfail": False})
            elif x < 0.35:
                ops.append({"op": "set", "h": live, "auth": rng.choice([0, 1, 127, 200, 255])})
            elif x < 0.7:
                ops.append({"op": "auth", "h": live})
            else:
                ops.append({"op": "release", "h": live})
                live = None
        threads.append(ops)
    return {"kind": "conc", "shared": rng.random() < 0.3, "threads": threads}


def c_pair2(s):
    return "None" if s is None else "(Some %s)" % cpair(cN(s[0]), cN(s[1]))


def conc_to_coq(case, r):
    evs = []
    for (ti, oi, call, ret, st, frm, to, az) in r["hist"]:
        o = case["threads"][ti][oi]
        cop = "CAuth %s" % cN(o["h"]) if o["op"] == "auth" else "COp (%s)" % c_op(o)
        evs.append(cpair(cN(call), cN(ret), cop,
                         cpair(cN(ST[st]), c_opt(frm, c_state), c_opt(to, c_state), cN(2 if az < 0 else az))))
    return cpair(cbool(case["shared"]), clist(evs))


def gen_e2e(rng):
    ops, live, nw = [], [], 0
    for _ in range(rng.randrange(5, 15)):
        x = rng.random()
        if not live or (x < 0.3 and nw < 5):
            ops.append({"op": "open", "w": nw, "subj": nw + 1 if rng.random() < 0.93 else rng.randrange(1, nw + 2),
                        "auth": rng.choice([0, 1, 127, 127, 254, 255]), "eou": rng.random() < 0.12})
            live.append(nw)
            nw += 1
        elif x < 0.65:
            ops.append({"op": "write", "w": rng.choice(live) if rng.random() < 0.95 else rng.randrange(0, 6),
                        "n": rng.randrange(1, 4)})
        elif x < 0.85:
            ops.append({"op": "set", "w": rng.choice(live), "auth": rng.choice([0, 1, 127, 254, 255])})
        else:
            w = rng.choice(live)
            ops.append({"op": "close", "w": w})
            live.remove(w)
    return {"kind": "e2e", "e2e": {"shared": rng.random() < 0.35, "ops": ops}}


def gen_e2ev(rng):
    """writers holding 1-3 virtual channels with per-channel authorities; later writers take over only some of
    them; frames list the held channels in varying orders."""
    ops, live, nw = [], {}, 0       # live: w -> list of channels
    base = rng.choice([1, 100, 127, 200])

    def opn(chs, auths, eou=False):
        nonlocal nw
        ops.append({"op": "open", "w": nw, "subj": nw + 1, "chans": [[k, a] for k, a in zip(chs, auths)], "eou": eou})
        if not eou:
            live[nw] = list(chs)
        nw += 1
    first = rng.sample([1, 2, 3], rng.choice([2, 3, 3]))
    opn(first, [base if rng.random() < 0.8 else rng.choice([0, 1, 255]) for _ in first])
    for _ in range(rng.randrange(4, 13)):
        x = rng.random()
        if x < 0.22 and nw < 4:
            chs = rng.sample([1, 2, 3], rng.choice([1, 1, 2, 3]))
            opn(chs, [rng.choice([base + 1 if base < 255 else base, base, max(0, base - 1), 255, 0]) for _ in chs],
                eou=rng.random() < 0.1)
        elif x < 0.72 and live:
            w = rng.choice(list(live))
            keys = rng.sample(live[w], rng.randrange(1, len(live[w]) + 1))
            ops.append({"op": "write", "w": w if rng.random() < 0.97 else 7, "keys": keys})
        elif x < 0.88 and live:
            w = rng.choice(list(live))
            chs = rng.sample(live[w], rng.randrange(1, len(live[w]) + 1))
            ops.append({"op": "set", "w": w, "chans": [[k, rng.choice([base, base + 1 if base < 255 else base, 0, 255,
                                                                         max(0, base - 1)])] for k in chs]})
        elif live:
            w = rng.choice(list(live))
            ops.append({"op": "close", "w": w})
            del live[w]
    for w in list(live):
        if rng.random() < 0.5:
            ops.append({"op": "write", "w": w, "keys": rng.sample(live[w], len(live[w]))})
    return {"kind": "e2ev", "e2ev": {"ops": ops}}


def c_chans(ch):
    return clist([cpair(cN(k), cN(a)) for k, a in ch])


def e2ev_to_coq(case, r):
    steps = []
    for o, x in zip(case["e2ev"]["ops"], r["e2e"]["steps"]):
        if o["op"] == "open":
            co = "VOpen %s %s %s %s" % (cN(o["w"]), cN(o["subj"]), c_chans(o["chans"]), cbool(o.get("eou")))
        elif o["op"] == "write":
            co = "VWrite %s %s" % (cN(o["w"]), clist([cN(k) for k in o["keys"]]))
        elif o["op"] == "set":
            co = "VSet %s %s" % (cN(o["w"]), c_chans(o["chans"]))
        else:
            co = "VClose %s" % cN(o["w"])
        steps.append(cpair(co, cpair(cN(EST.get(x["st"], 8)), cN(x["auth"]))))
    return clist(steps)


def gen_e2eg(rng):
    """writers spanning 1-3 index groups (+ virtual channels 4,5); holders control a SUBSET of the groups of a
    spanning contender, which is re-opened several times (the order in which a writer visits its groups is fixed
    by Go map iteration when it is opened)."""
    ops, live, nw = [], {}, 0
    base = rng.choice([50, 100, 127])

    def opn(units, auths, eou=False):
        nonlocal nw
        ops.append({"op": "open", "w": nw, "subj": nw + 1, "units": [[u, a] for u, a in zip(units, auths)], "eou": eou})
        if not eou:
            live[nw] = list(units)
        nw += 1
        return nw - 1

    def wr(w):
        ks = rng.sample(live[w], len(live[w])) if rng.random() < 0.7 else \
            rng.sample(live[w], rng.randrange(1, len(live[w]) + 1))
        ops.append({"op": "write", "w": w, "keys": ks, "n": rng.randrange(1, 3)})
    # holders on a subset of the groups
    groups = rng.sample([1, 2, 3], rng.choice([2, 3, 3]))
    held = rng.sample(groups, rng.randrange(1, len(groups)))
    for g in held if rng.random() < 0.5 else [held]:
        us = g if isinstance(g, list) else [g]
        h = opn(us, [rng.choice([base + 50, base + 50, base, 255]) for _ in us])
        if rng.random() < 0.5:
            wr(h)
    holders = list(live)
    for _ in range(rng.randrange(2, 6)):
        units = list(groups) + ([rng.choice([4, 5])] if rng.random() < 0.4 else [])
        rng.shuffle(units)
        c = opn(units, [rng.choice([base, base, base - 1, base + 50]) for _ in units], eou=rng.random() < 0.05)
        if c not in live:
            continue
        for _ in range(rng.randrange(1, 3)):
            x = rng.random()
            if x < 0.65:
                wr(c)
            elif x < 0.8 and holders:
                h = rng.choice([h for h in holders if h in live] or [c])
                wr(h)
            else:
                us = rng.sample(live[c], rng.randrange(1, len(live[c]) + 1))
                ops.append({"op": "set", "w": c, "units": [[u, rng.choice([base, base + 50, base + 51, 0])] for u in us]})
                wr(c)
        if rng.random() < 0.15 and holders:
            h = rng.choice(holders)
            if h in live:
                ops.append({"op": "close", "w": h})
                del live[h]
        if rng.random() < 0.85:
            ops.append({"op": "close", "w": c})
            del live[c]
    return {"kind": "e2eg", "e2eg": {"ops": ops}}


def gen_e2ec(rng):
    """deferred commits: writer A (auto-commit off) on one group, a higher-authority writer B that comes and goes
    (it never writes), explicit commits at scripted points: authorized write, lose control, rejected write, regain
    control, commit ..."""
    g = rng.choice([1, 2, 3])
    a = rng.choice([50, 100])
    ops = [{"op": "open", "w": 0, "subj": 1, "units": [[g, a]], "noac": True, "eou": False}]
    nb, b_open = 1, None
    for _ in range(rng.randrange(4, 12)):
        x = rng.random()
        if x < 0.4:
            ops.append({"op": "write", "w": 0, "keys": [g], "n": rng.randrange(1, 4)})
        elif x < 0.6:
            ops.append({"op": "commit", "w": 0})
        elif b_open is None:
            ops.append({"op": "open", "w": nb, "subj": nb + 1, "units": [[g, a + rng.choice([1, 100])]],
                        "noac": rng.random() < 0.7, "eou": False})
            b_open = nb
            nb += 1
        else:
            ops.append({"op": "close", "w": b_open})
            b_open = None
    if b_open is not None and rng.random() < 0.8:
        ops.append({"op": "close", "w": b_open})
    if rng.random() < 0.8:
        ops.append({"op": "commit", "w": 0})
    ops.append({"op": "close", "w": 0})
    return {"kind": "e2ec", "e2ec": {"ops": ops}}


def e2ec_to_coq(case, r):
    body = e2eg_to_coq({"e2eg": case["e2ec"]}, {"e2eg": r["e2ec"]})
    return cpair(body, clist([cZ(g) for g in r["e2ec"]["endgap"]]))


def e2eg_to_coq(case, r):
    steps = []
    for o, x in zip(case["e2eg"]["ops"], r["e2eg"]["steps"]):
        if o["op"] == "commit":
            steps.append(cpair("GCommit %s" % cN(o["w"]),
                               cpair(cN(EST.get(x["st"], 8)), cN(x["auth"]), clist([cZ(t) for t in x["ts"]]))))
            continue
        if o["op"] == "open":
            co = "GOpen %s %s %s %s" % (cN(o["w"]), cN(o["subj"]), c_chans(o["units"]), cbool(o.get("eou")))
        elif o["op"] == "write":
            co = "GWrite %s %s %s" % (cN(o["w"]), clist([cN(k) for k in o["keys"]]), cN(o["n"]))
        elif o["op"] == "set":
            co = "GSet %s %s" % (cN(o["w"]), c_chans(o["units"]))
        else:
            co = "GClose %s" % cN(o["w"])
        steps.append(cpair(co, cpair(cN(EST.get(x["st"], 8)), cN(x["auth"]), clist([cZ(t) for t in x["ts"]]))))
    rd = clist([cpair(clist([cZ(t) for t in a]), clist([cZ(t) for t in b])) for a, b in r["e2eg"]["read"]])
    return cpair(clist(steps), rd)


def _phase(ctx, chk, kind, gen, tocoq, ctype, mism, viol, n, seedmul, what):
    """generic extra phase: harness + model comparison + monitor, shrink by op removal"""
    rng = random.Random(ctx.seed * seedmul + 17)
    cases = [gen(rng) for _ in range(n)]

    def ev(cs):
        for i, c in enumerate(cs):
            c["id"] = i
        res = vlib.run_harness(ctx.bin, cs, timeout=900, procs=8)
        terms, idx, bad = [], [], []
        for i, c in enumerate(cs):
            r = res.get(i)
            if r is None or r.get("panic") or (r.get(kind) or {}).get("err"):
                bad.append(i)
                continue
            terms.append(tocoq(c, r))
            idx.append(i)
        M, V, errs = vlib.coq_eval_cases(PID + kind, COQ_IMPORTS, ctype, terms, shard=50, mism=mism, viol=viol)
        return res, [idx[m] for m in M], [idx[v] for v in V], bad, errs
    res, M, V, bad, errs = ev(cases)
    for i in bad[:2]:
        r = res.get(i)
        chk.report_case_violation(ctx, cases[i], r, "%s case failed in the harness: %s" %
                                  (kind, (r or {}).get("panic") or ((r or {}).get(kind) or {}).get("err") or "no result"))
    for e in errs[:1]:
        rp = chk.write_replay(ctx, "V2", "%s correspondence could not be evaluated" % kind, {}, None, {"errors": errs[:5]})
        ctx.violations.append({"kind": "V2", "what": "%s evaluation errors: %s" % (kind, e[:300]), "replay": rp, "found_input": False})
    if V:
        cur = min((cases[v] for v in V), key=lambda c: len(c[kind]["ops"]))
        for _ in range(8):
            cands = []
            for i in range(len(cur[kind]["ops"])):
                c = json.loads(json.dumps(cur))
                del c[kind]["ops"][i]
                cands.append(c)
            if not cands:
                break
            # the failure may depend on Go map order fixed at open: try every candidate a few times
            hit = None
            for _try in range(3):
                _, _, V2, _, _ = ev(cands)
                if V2:
                    hit = cands[V2[0]]
                    break
            if hit is None:
                break
            cur = hit
            cur.pop("id", None)
        rr = {}
        for _try in range(12):
            rr = vlib.run_harness(ctx.bin, [dict(cur, id=0)], procs=1)
            if harness_violation(cur, rr.get(0) or {}):
                break
        chk.report_case_violation(ctx, cur, rr.get(0), what)
    elif M:
        i = M[0]
        rp = chk.write_replay(ctx, "V2", "model and implementation disagree (%s)" % kind, cases[i], res.get(i),
                              {"correspondence": "corr:C05/%s#%d" % (kind, i), "mismatching_cases": len(M)})
        ctx.violations.append({"kind": "V2", "what": "correspondence corr:C05/%s broke on %d cases" % (kind, len(M)),
                               "replay": rp, "found_input": False})
    wr = [x for i in range(len(cases)) if i not in bad for x in res[i][kind]["steps"] if x["auth"] != 2]
    ctx.extra_cov[kind + "_cases"] = len(cases)
    ctx.extra_cov[kind + "_mismatches"] = len(M)
    ctx.extra_cov[kind + "_monitor_rejections"] = len(V)
    ctx.extra_cov[kind + "_writes_authorized"] = sum(1 for x in wr if x["auth"] == 1)
    ctx.extra_cov[kind + "_writes_unauthorized"] = sum(1 for x in wr if x["auth"] == 0)


E2EG_COUNTS = {"quick": 120, "thorough": 3000}
E2EC_COUNTS = {"quick": 100, "thorough": 3000}
E2EV_COUNTS = {"quick": 150, "thorough": 4000}
EST = {"ok": 0, "unauth": 1, "valid": 2, "skip": 5, "config": 7, "other": 8, "err": 9}


def e2e_to_coq(case, r):
    steps = []
    for o, x in zip(case["e2e"]["ops"], r["e2e"]["steps"]):
        if o["op"] == "open":
            co = "EOpen %s %s %s %s" % (cN(o["w"]), cN(o["subj"]), cN(o["auth"]), cbool(o.get("eou")))
        elif o["op"] == "write":
            co = "EWrite %s %s" % (cN(o["w"]), cN(o["n"]))
        elif o["op"] == "set":
            co = "ESet %s %s" % (cN(o["w"]), cN(o["auth"]))
        else:
            co = "EClose %s" % cN(o["w"])
        steps.append(cpair(co, cpair(cN(EST.get(x["st"], 8)), cN(x["auth"]), clist([cZ(t) for t in x["ts"]]))))
    return cpair(cbool(case["e2e"]["shared"]), clist(steps), clist([cZ(t) for t in r["e2e"]["read"]]))


def _shrink_e2ev(ctx, case):
    cur = case
    for _ in range(6):
        ops = cur["e2ev"]["ops"]
        cands = []
        for i in range(len(ops)):
            c = json.loads(json.dumps(cur))
            del c["e2ev"]["ops"][i]
            cands.append(c)
        if not cands:
            break
        for i, c in enumerate(cands):
            c["id"] = i
        res = vlib.run_harness(ctx.bin, cands, procs=8)
        terms, idx = [], []
        for i, c in enumerate(cands):
            r = res.get(i)
            if r and not r.get("panic") and r.get("e2e"):
                terms.append(e2ev_to_coq(c, r))
                idx.append(i)
        _, V, _ = vlib.coq_eval_cases(PID + "v", COQ_IMPORTS, "e2ev_case_t", terms, shard=60,
                                      mism="e2ev_mismatches", viol="e2ev_violations")
        if not V:
            break
        cur = cands[idx[V[0]]]
        cur.pop("id", None)
    return cur


def extra(ctx):
    chk = sys.modules.get("check") or sys.modules["__main__"]
    # ---- (a) end-to-end through the public cesium API
    rng = random.Random(ctx.seed * 131 + 5)
    ecases = [gen_e2e(rng) for _ in range(E2E_COUNTS[ctx.tier])]
    for i, c in enumerate(ecases):
        c["id"] = i
    res = vlib.run_harness(ctx.bin, ecases, timeout=900, procs=8)
    terms, idx = [], []
    for i, c in enumerate(ecases):
        r = res.get(i)
        if r is None or r.get("panic") or (r.get("e2e") or {}).get("err"):
            chk.report_case_violation(ctx, c, r, "end-to-end cesium writer case failed in the harness: %s" %
                                      ((r or {}).get("panic") or ((r or {}).get("e2e") or {}).get("err") or "no result"))
            continue
        terms.append(e2e_to_coq(c, r))
        idx.append(i)
    M, V, errs = vlib.coq_eval_cases(PID + "e", COQ_IMPORTS, "e2e_case_t", terms, shard=60,
                                     mism="e2e_mismatches", viol="e2e_violations")
    for e in errs[:1]:
        rp = chk.write_replay(ctx, "V2", "e2e correspondence could not be evaluated", {}, None, {"errors": errs[:5]})
        ctx.violations.append({"kind": "V2", "what": "e2e evaluation errors: " + e[:300], "replay": rp, "found_input": False})
    for v in V[:2]:
        chk.report_case_violation(ctx, ecases[idx[v]], res.get(idx[v]),
                                  "cesium writers: authorized flag / persisted data contradict the control rule")
    if M and not V:
        i = idx[M[0]]
        rp = chk.write_replay(ctx, "V2", "model and implementation disagree (e2e)", ecases[i], res.get(i),
                              {"correspondence": "corr:C05/e2e#%d" % i, "mismatching_cases": len(M)})
        ctx.violations.append({"kind": "V2", "what": "correspondence corr:C05/e2e broke on %d cases" % len(M),
                               "replay": rp, "found_input": False})
    wr = [x for c, i in zip(ecases, range(len(ecases))) for x in ((res.get(i) or {}).get("e2e") or {}).get("steps", [])
          if x["auth"] != 2]
    ctx.extra_cov["e2e_cases"] = len(ecases)
    ctx.extra_cov["e2e_mismatches"] = len(M)
    ctx.extra_cov["e2e_monitor_rejections"] = len(V)
    ctx.extra_cov["e2e_writes_authorized"] = sum(1 for x in wr if x["auth"] == 1)
    ctx.extra_cov["e2e_writes_unauthorized"] = sum(1 for x in wr if x["auth"] == 0)
    # ---- (a2) end-to-end on virtual channels: partial take-over, frame order
    rng = random.Random(ctx.seed * 353 + 11)
    vcases = [gen_e2ev(rng) for _ in range(E2EV_COUNTS[ctx.tier])]
    for i, c in enumerate(vcases):
        c["id"] = i
    res = vlib.run_harness(ctx.bin, vcases, timeout=900, procs=8)
    terms, idx, crashed = [], [], 0
    for i, c in enumerate(vcases):
        r = res.get(i)
        if r is None or r.get("panic") or (r.get("e2e") or {}).get("err"):
            crashed += 1
            if crashed <= 2:
                chk.report_case_violation(ctx, c, r, "virtual-channel writer case failed in the harness: %s" %
                                          ((r or {}).get("panic") or ((r or {}).get("e2e") or {}).get("err") or "no result"))
            continue
        terms.append(e2ev_to_coq(c, r))
        idx.append(i)
    M, V, errs = vlib.coq_eval_cases(PID + "v", COQ_IMPORTS, "e2ev_case_t", terms, shard=60,
                                     mism="e2ev_mismatches", viol="e2ev_violations")
    for e in errs[:1]:
        rp = chk.write_replay(ctx, "V2", "e2ev correspondence could not be evaluated", {}, None, {"errors": errs[:5]})
        ctx.violations.append({"kind": "V2", "what": "e2ev evaluation errors: " + e[:300], "replay": rp, "found_input": False})
    if V:
        # smallest failing script, then drop ops one by one while the monitor still rejects
        small = min((vcases[idx[v]] for v in V), key=lambda c: len(c["e2ev"]["ops"]))
        small = _shrink_e2ev(ctx, small)
        rr = vlib.run_harness(ctx.bin, [dict(small, id=0)], procs=1)
        chk.report_case_violation(ctx, small, rr.get(0),
                                  "cesium writers on virtual channels: the authorized flag of a write contradicts the "
                                  "control state of the channels in the frame")
    if M and not V:
        i = idx[M[0]]
        rp = chk.write_replay(ctx, "V2", "model and implementation disagree (e2ev)", vcases[i], res.get(i),
                              {"correspondence": "corr:C05/e2ev#%d" % i, "mismatching_cases": len(M)})
        ctx.violations.append({"kind": "V2", "what": "correspondence corr:C05/e2ev broke on %d cases" % len(M),
                               "replay": rp, "found_input": False})
    vw = [x for i in idx for x in res[i]["e2e"]["steps"] if x["auth"] != 2]
    ctx.extra_cov["e2ev_cases"] = len(vcases)
    ctx.extra_cov["e2ev_mismatches"] = len(M)
    ctx.extra_cov["e2ev_monitor_rejections"] = len(V)
    ctx.extra_cov["e2ev_writes_authorized"] = sum(1 for x in vw if x["auth"] == 1)
    ctx.extra_cov["e2ev_writes_unauthorized"] = sum(1 for x in vw if x["auth"] == 0)
    # ---- (a3) end-to-end on writers spanning several index groups (+ virtual channels)
    _phase(ctx, chk, "e2eg", gen_e2eg, e2eg_to_coq, "e2eg_case_t", "e2eg_mismatches", "e2eg_violations",
           E2EG_COUNTS[ctx.tier], 577,
           "cesium writers spanning several index groups: the authorized flag of a write or the persisted data "
           "contradicts the control state of the groups in the frame")
    # ---- (a4) deferred commits: rejected writes must contribute nothing to what a later commit persists
    _phase(ctx, chk, "e2ec", gen_e2ec, e2ec_to_coq, "e2ec_case_t", "e2ec_mismatches", "e2ec_violations",
           E2EC_COUNTS[ctx.tier], 811,
           "cesium writer with deferred commits: a rejected write shows up in what was committed (samples, domain "
           "end or reported commit end), or an authorized flag contradicts the control state")
    # ---- (b) concurrent calls under the race detector (validation, not proof)
    binp, blog = vlib.go_build(MODULE, PKG, BIN, race=True)
    if binp is None:
        rp = chk.write_replay(ctx, "V2", "race harness does not build", {}, None, {"build_log": blog[-3000:]})
        ctx.violations.append({"kind": "V2", "what": "race harness build failed", "replay": rp, "found_input": False})
        return
    rng = random.Random(ctx.seed * 977 + 3)
    ccases = [gen_conc(rng) for _ in range(CONC_COUNTS[ctx.tier])]
    for i, c in enumerate(ccases):
        c["id"] = i
    cres, races = {}, 0
    for gi, procs in enumerate(["1", "2", "8"]):
        part = ccases[gi::3]
        rr = vlib.run_harness(binp, part, timeout=900, procs=4, env={"GOMAXPROCS": procs})
        se = "\n".join(rr.get("_stderr", []))
        if "DATA RACE" in se:
            races += 1
            chk.report_case_violation(ctx, {"kind": "conc-batch", "GOMAXPROCS": procs, "cases": part[:40]},
                                      {"race": se[:6000]}, "Go race detector reports a data race in cesium/internal/control")
        elif rr.get("_errors"):
            chk.report_case_violation(ctx, {"kind": "conc-batch", "GOMAXPROCS": procs, "cases": part[:40]},
                                      {"errors": rr["_errors"][:3]}, "concurrent control harness crashed: %s" % rr["_errors"][0][:300])
        for c in part:
            if c["id"] in rr:
                cres[c["id"]] = rr[c["id"]]
    terms, idx = [], []
    for i, c in enumerate(ccases):
        r = cres.get(i)
        if r is None or r.get("panic"):
            continue
        terms.append(conc_to_coq(c, r))
        idx.append(i)
    R, _, errs = vlib.coq_eval_cases(PID + "c", COQ_IMPORTS, "conc_case_t", terms, shard=30,
                                     mism="conc_rejects", viol="conc_rejects")
    for e in errs[:1]:
        rp = chk.write_replay(ctx, "V2", "concurrent histories could not be evaluated", {}, None, {"errors": errs[:5]})
        ctx.violations.append({"kind": "V2", "what": "conc evaluation errors: " + e[:300], "replay": rp, "found_input": False})
    for v in R[:2]:
        chk.report_case_violation(ctx, ccases[idx[v]], cres.get(idx[v]),
                                  "recorded concurrent history has no sequential explanation accepted by the model")
    # ---- (c) release racing with open, control level and cesium level
    nrace = 0
    for kind, rounds in (("ctlrace", 3000 if ctx.tier == "quick" else 40000),
                         ("e2erace", 1200 if ctx.tier == "quick" else 12000)):
        for procs in ("2", "8"):
            case = {"kind": kind, "rounds": rounds, "id": 0}
            rr = vlib.run_harness(ctx.bin, [case], timeout=900, procs=1, env={"GOMAXPROCS": procs})
            r0 = rr.get(0)
            nrace += 1
            if r0 is None or r0.get("panic") or (r0.get("e2erace") or {}).get("failures"):
                c2 = dict(case)
                c2["GOMAXPROCS"] = procs
                chk.report_case_violation(ctx, c2, r0, harness_violation(case, r0 or {"panic": "no result: %s" % rr.get("_errors")})
                                          or "race phase failed")
                break
    ctx.extra_cov["release_vs_open_race_runs"] = nrace
    overl = 0
    for i in idx:
        h = cres[i]["hist"]
        if any(a[2] < b[3] and b[2] < a[3] and a[0] != b[0] for a in h for b in h):
            overl += 1
    ctx.extra_cov["concurrent_histories"] = len(terms)
    ctx.extra_cov["concurrent_histories_with_overlapping_calls"] = overl
    ctx.extra_cov["concurrent_histories_rejected"] = len(R)
    ctx.extra_cov["race_reports"] = races
    ctx.notes.append("concurrent phase is validation only: histories recorded under -race with GOMAXPROCS 1/2/8 are "
                     "checked for linearizability against the model inside Coq")


READY = True
TECHNIQUE = "Coq proof (invariant induction over op lists, order-independence of the map loops) + model/impl correspondence by vm_compute"
DESIGN_REF = "DESIGN.md §8 C05, §9 F14"
LEVEL_TEXT = ("Machine-checked Coq theorems over an executable Gallina copy of Controller.OpenGate / region.open / release / "
              "update / Gate.Authorize (binary-search region insert, time-range widening, every error path, exclusive and "
              "shared mode): after ANY sequence of open/set-authority/release the controller of every region is the open "
              "gate with the highest authority, ties to the earliest open (C05_leader_inv, C05_gates_in_open_order); "
              "Authorize succeeds iff holder (exclusive) / authority >= holder's (shared) (C05_authorize_iff); every call "
              "returns one transfer naming exactly the previous and next holder and never touches two regions "
              "(C05_transfer_exact); folding the transfers reconstructs the holders (C05_transfers_reconstruct); the result "
              "is independent of Go's map iteration order (C05_order_independent, all permutations, per call). The model is "
              "tied to /repo on every run: scripted histories drive the real control package (outputs, Authorize of every "
              "open gate, LeadingState and a dump of every region compared inside Coq), plus an end-to-end phase through "
              "the public cesium writer API (authorized flag of every write and the final Read) and a concurrent phase. A "
              "decidable monitor states the property on the implementation's observations and yields the replay.")
LEVEL_NOTE = ("Trusted: Coq kernel/vm_compute; hand-written model (tied by correspondence, not translation); harness + "
              "read-only hook VerifDump; generator. Partial clause: concurrency is proved for interleavings of atomic steps "
              "(C05_every_schedule_partial); atomicity of the Go calls is only validated (-race, GOMAXPROCS 1/2/8, "
              "linearizability of recorded histories checked in Coq). Use of a gate after its release and int64 overflow of "
              "time-stamp differences are outside the model. F14 (gate spanning two regions left an orphan holder) was "
              "reproduced by this check on the unfixed tree and repaired by fix: commit 5e5f468; "
              "C05_upstream_open_refuted keeps the witness. F62 (release of the last gate not atomic with the removal of "
              "its region: a concurrent OpenGate was attached to a resource already handed back for disposal; in cesium "
              "the new controlling writer got a closed domain writer) was found by the concurrent phase and repaired by "
              "fix: commit 4321b37. All theorems closed under the global context.")
