"""C11 — node keys are unique under concurrent joins and juror failures."""
import json
import re
from vlib import cN, cnat, clist, cpair, cbool, coq_print

PID = "C11"
MODULE, PKG, BIN = "aspen", "./verifh/c11", "c11"
COQ_IMPORTS = "From Synnax Require Import Common.Base Aspen.Pledge Monitors.Mon_C11."
CASE_TYPE = "case_t"
COUNTS = {"quick": 400, "thorough": 8000}
SHARD = 100
PROCS = 8
HARNESS_TIMEOUT = 600
KNOWN_TAG = "disjoint_quorums_from_stale_view"

VERD = {0: "VApprove", 1: "VReject", 2: "VCtx", 3: "VNone"}


def c_view(v):
    return clist([cpair(cN(e[0]), cN(e[1]), cN(e[2])) for e in v])


def canon_view(v):
    """what the harness turns a scripted view into: a Go map keyed by node key, dumped sorted"""
    d = {}
    for e in v:
        d[e[0]] = e
    return [d[k] for k in sorted(d)]


def pmax(x):
    return x if x and x > 0 else 10


def c_ev(e):
    t = e[0]
    if t == "G":
        return "EGossip %s %s" % (cN(e[1]), c_view(e[2]))
    if t == "PS":
        return "EPStart %s %s %s" % (cN(e[1]), cN(e[2]), cN(e[3]))
    if t == "PF":
        return "EPFail %s %s" % (cN(e[1]), cN(e[2]))
    if t == "SN":
        return "ESnap %s %s" % (cN(e[1]), c_view(e[2]))
    if t == "RQ":
        return "EReq %s %s %s %s %s" % (cN(e[1]), cN(e[2]), cN(e[3]), cN(e[4]), VERD[e[5]])
    if t == "LT":
        return "ELate %s %s %s %s" % (cN(e[1]), cN(e[2]), cN(e[3]), VERD[e[4]])
    if t == "PB":
        return "EProbe %s %s %s" % (cN(e[1]), cN(e[2]), VERD[e[3]])
    if t == "RE":
        return "EREnd %s %s %s %s %s" % (cN(e[1]), cN(e[2]), cN(e[3]), cN(e[4]), cbool(e[5]))
    if t == "PE":
        return "EPEnd %s %s %s %s" % (cN(e[1]), cbool(e[2]), cN(e[3]), cN(e[4]))
    raise ValueError("unknown event %r" % (e,))


def all_pledges(case):
    out = []
    for o in case["ops"]:
        if o["op"] == "par":
            out += o["pledges"]
    return out


def to_coq(case, r):
    seen = set()
    ms = []
    for m in case["members"]:
        if m["addr"] in seen:
            continue
        seen.add(m["addr"])
        ms.append(cpair(cN(m["addr"]), cN(m["ck"]), cnat(pmax(m.get("max"))), c_view(canon_view(m["view"]))))
    pls = [cpair(cN(p["p"]), cnat(pmax(p.get("max")))) for p in all_pledges(case)]
    evs = [c_ev(e) for e in r["events"]]
    return cpair(cpair(clist(ms), clist(pls)), clist(evs))
