"""C11 — node keys are unique under concurrent joins and juror failures."""
import json
import re
from vlib import cN, cnat, clist, cpair, cbool, coq_print

PID = "C11"
MODULE, PKG, BIN = "aspen", "./verifh/c11", "c11"
COQ_IMPORTS = "From Synnax Require Import Common.Base Aspen.Pledge Aspen.PledgeCluster Monitors.Mon_C11."
CASE_TYPE = "acase_t"
COUNTS = {"quick": 1500, "thorough": 12000}
SHARD = 100
PROCS = 8
HARNESS_TIMEOUT = 600
KNOWN_TAG = "disjoint_quorums_from_stale_view"

VERD = {0: "VApprove", 1: "VReject", 2: "VCtx", 3: "VNone"}


def c_view(v):
    return clist([cpair(cN(e[0]), cN(e[1]), cN(e[2])) for e in v])


def canon_view(v):
    """what the harness turns a scripted view into: a Go map keyed by node key, dumped sorted"""
    d = {}
    for e in v:
        d[e[0]] = e
    return [d[k] for k in sorted(d)]


DEFAULT_MAX_PROPOSALS = 10   # pledge.DefaultConfig.MaxProposals; a script's max 0 means "the default"


def pmax(x):
    return x if x and x > 0 else DEFAULT_MAX_PROPOSALS


def c_ev(e):
    t = e[0]
    if t == "G":
        return "EGossip %s %s" % (cN(e[1]), c_view(e[2]))
    if t == "PS":
        return "EPStart %s %s %s" % (cN(e[1]), cN(e[2]), cN(e[3]))
    if t == "PF":
        return "EPFail %s %s" % (cN(e[1]), cN(e[2]))
    if t == "SN":
        return "ESnap %s %s" % (cN(e[1]), c_view(e[2]))
    if t == "RQ":
        return "EReq %s %s %s %s %s" % (cN(e[1]), cN(e[2]), cN(e[3]), cN(e[4]), VERD[e[5]])
    if t == "LT":
        return "ELate %s %s %s %s" % (cN(e[1]), cN(e[2]), cN(e[3]), VERD[e[4]])
    if t == "PB":
        return "EProbe %s %s %s" % (cN(e[1]), cN(e[2]), VERD[e[3]])
    if t == "RE":
        return "EREnd %s %s %s %s %s" % (cN(e[1]), cN(e[2]), cN(e[3]), cN(e[4]), cbool(e[5]))
    if t == "PE":
        return "EPEnd %s %s %s %s" % (cN(e[1]), cbool(e[2]), cN(e[3]), cN(e[4]))
    raise ValueError("unknown event %r" % (e,))


def all_pledges(case):
    out = []
    for o in case["ops"]:
        if o["op"] == "par":
            out += o["pledges"]
    return out


def is_cluster(case):
    return case.get("kind") == "cluster"


def c_cop(o):
    if o["op"] == "start":
        return "CStart %s" % cN(o["m"])
    if o["op"] == "join":
        return "CJoin %s %s" % (cN(o["m"]), cN(o["key"]))
    if o["op"] == "close":
        return "CClose %s" % cN(o["m"])
    if o["op"] == "reopen":
        return "CReopen %s" % cN(o["m"])
    raise ValueError("unknown cluster op %r" % (o,))


def to_coq_cluster(case, r):
    obs = [e for e in r["events"] if e[0] == "CO"]
    if len(obs) != len(case["ops"]):
        raise ValueError("cluster script: %d observations for %d ops" % (len(obs), len(case["ops"])))
    return clist([cpair(c_cop(o), cpair(cbool(e[1]), cN(e[2]), cN(e[3]))) for o, e in zip(case["ops"], obs)])


def to_coq_pledge(case, r):
    seen = set()
    ms = []
    for m in case["members"]:
        if m["addr"] in seen:
            continue
        seen.add(m["addr"])
        ms.append(cpair(cN(m["addr"]), cN(m["ck"]), cnat(pmax(m.get("max"))), c_view(canon_view(m["view"]))))
    pls = [cpair(cN(p["p"]), cnat(pmax(p.get("max")))) for p in all_pledges(case)]
    evs = [c_ev(e) for e in r["events"]]
    return cpair(cpair(clist(ms), clist(pls)), clist(evs))


def to_coq(case, r):
    if is_cluster(case):
        return "CCase (%s)" % to_coq_cluster(case, r)
    return "PCase (%s)" % to_coq_pledge(case, r)


# --------------------------------------------------------------------------- generator
ST_H, ST_S, ST_D, ST_L = 0, 1, 2, 3


def active_addrs(v):
    return [e[2] for e in canon_view(v) if e[1] != ST_L]


def qsize(v):
    return len(active_addrs(v)) // 2 + 1


def compat(v1, v2):
    """the guard of C11_unique_partial (compatb in Aspen/PledgeQuorum.v)"""
    return len(set(active_addrs(v1)) | set(active_addrs(v2))) < qsize(v1) + qsize(v2)


def all_views(case):
    vs = [m["view"] for m in case["members"]]
    for o in case["ops"]:
        if o["op"] == "gossip":
            vs.append(o["view"])
        elif o["op"] == "par":
            for p in o["pledges"]:
                for a in p["attempts"]:
                    for r in a.get("rounds", []):
                        for g in r.get("gossip", []):
                            vs.append(g["view"])
    return vs


def guard_ok(case):
    """every pair of views a coordinator may ever snapshot satisfies the intersection guard; only decidable
    before the run when no view has symbolic entries"""
    if any(e[0] == 0 for v in all_views(case) for e in v):
        return False
    vs = [v for v in all_views(case) if active_addrs(v)]
    return all(compat(a, b) for i, a in enumerate(vs) for b in vs[i:])


def mk_view(rng, members, joined, stale, statey, symbolic=True):
    """a view over the member addresses (key = addr) plus pledging nodes: under the symbolic key 0 (resolved by
    the harness to the key the node was handed; dropped while it has none) or, when the view must be known
    statically (guarded batch), under the key it would get if keys were handed out in order"""
    v = []
    ms = list(members)
    drop = set()
    if stale and len(ms) > 1:
        k = rng.choice([1, 1, 1, 2, 2, 3]) if stale > 1 else 1
        # stale views lose the most recently added (highest) members most of the time
        cand = sorted(ms, reverse=True)
        for _ in range(min(k, len(ms) - 1)):
            x = cand[0] if rng.random() < 0.7 else rng.choice(cand)
            drop.add(x)
            cand.remove(x)
    for a in ms:
        if a in drop:
            continue
        st = ST_H
        if statey and rng.random() < statey:
            st = rng.choice([ST_S, ST_D, ST_L, ST_S])
        v.append([a, st, a])
    for p in joined:
        if rng.random() < 0.7:
            v.append([0 if symbolic else max(members) + (p - 100), ST_H, p])
    return v


def mk_round(rng, members, joined, stale, symbolic=True):
    r = {}
    x = rng.random()
    if x < 0.62:
        r["def"] = "D"
    elif x < 0.97:
        r["def"] = rng.choice(["F", "F", "C", "R", "R", "L", "L"])
    else:
        r["def"] = "T"
    if rng.random() < 0.55:
        by = {}
        for _ in range(rng.choice([1, 1, 2, 3])):
            j = rng.choice(list(members) + list(joined)[:1])
            by[str(j)] = rng.choice(["D", "D", "F", "F", "C", "R", "L", "L"] + (["T"] if rng.random() < 0.05 else []))
        r["by"] = by
    if rng.random() < 0.15:
        m = rng.choice(list(members) + list(joined))
        r["gossip"] = [{"m": m, "view": mk_view(rng, members, joined, stale if rng.random() < 0.5 else 0, 0.1, symbolic)}]
    if rng.random() < 0.12:
        r["flush"] = True
    if rng.random() < 0.2 and r["def"] in ("D", "F", "C", "R", "L"):
        r["sync"] = True      # the round's answers reach the responsible together
    return r


def gen_case(rng, guarded=True):
    n = rng.choice([1, 2, 3, 3, 3, 4, 4, 5, 5, 6, 7])
    members = list(range(1, n + 1))
    if rng.random() < 0.1:
        members = sorted(rng.sample(range(1, 12), n))
    stale = 0 if rng.random() < 0.25 else (1 if guarded else 2)
    statey = rng.choice([0, 0, 0.1, 0.2, 0.35])
    ck = rng.choice([7, 7, 7, 1, 4000000000])
    ms = []
    for a in members:
        st = stale if rng.random() < 0.5 else 0
        ms.append({"addr": a, "ck": ck if rng.random() < 0.97 else ck + 1,
                   "max": rng.choice([0, 1, 2, 3, 3, 4, 4, 6, 10]),   # 0 = the package default (10)
                   "view": mk_view(rng, members, [], st, statey)})
    ops = []
    joined = []
    nextp = 101
    for _ in range(rng.choice([1, 2, 2, 3, 3, 4, 5])):
        x = rng.random()
        if x < 0.78 or not ops:
            k = 1 if rng.random() < 0.6 else rng.choice([2, 2, 3, 4])
            pls = []
            for _ in range(k):
                p = nextp
                nextp += 1
                atts = []
                for _ in range(rng.choice([1, 1, 1, 2, 2, 3])):
                    y = rng.random()
                    if y < 0.8:
                        via = rng.choice(members)
                    elif y < 0.93 and joined:
                        via = rng.choice(joined)
                    else:
                        via = rng.choice([99, nextp, p])      # nobody / not yet joined / itself
                    how = "D" if rng.random() < 0.86 else rng.choice(["F", "R", "R"])
                    rounds = [mk_round(rng, members, joined, stale, not guarded)
                              for _ in range(rng.choice([0, 0, 1, 1, 2, 3, 4]))]
                    atts.append({"via": via, "how": how, "rounds": rounds})
                if rng.random() < 0.02:
                    atts = []
                pls.append({"p": p, "max": rng.choice([0, 1, 2, 3, 4, 10]), "attempts": atts})
                if rng.random() < 0.02:
                    pls.append(json.loads(json.dumps(pls[-1])))     # duplicate pledge id (malformed)
            ops.append({"op": "par", "pledges": pls})
            joined += [pl["p"] for pl in pls]
        elif x < 0.9:
            m = rng.choice(members + joined)
            ops.append({"op": "gossip", "m": m,
                        "view": mk_view(rng, members, joined, stale if rng.random() < 0.4 else 0, statey,
                                        not guarded)})
        elif x < 0.95:
            ops.append({"op": "flush"})
        else:
            ops.append({"op": "probe", "m": rng.choice(members + joined + [99]),
                        "key": rng.choice([0, 1, n, n + 1, n + 2, n + 3, 4095])})
    case = {"members": ms, "ops": ops, "rt_us": 2000}
    if any(o["op"] == "par" and len(o["pledges"]) > 1 for o in ops):
        case["jitter"] = rng.randrange(1, 1 << 30)
    return case


def gen_guarded(rng):
    for _ in range(40):
        c = gen_case(rng, True)
        if guard_ok(c):
            return c
    # fall back: everybody shares one view
    c = gen_case(rng, True)
    base = [[m["addr"], ST_H, m["addr"]] for m in c["members"]]
    for m in c["members"]:
        m["view"] = base
    for o in c["ops"]:
        if o["op"] == "gossip":
            o["view"] = base
        if o["op"] == "par":
            for p in o["pledges"]:
                for a in p["attempts"]:
                    for r in a.get("rounds", []):
                        r.pop("gossip", None)
    return c


CLUSTER_IDS = [1, 2, 3, 4, 5]


def gen_cluster(rng):
    """cluster.Open-level script: mostly applicable ops (start first, joins through existing members, close /
    reopen pairs, joins through reopened and through joined members) plus a share of ops that do not apply"""
    ops = [{"op": "start", "m": 1}] if rng.random() < 0.95 else []
    present, closed = ([1] if ops else []), set()
    nxt = 2
    for _ in range(rng.choice([2, 3, 4, 4, 5, 6, 7, 8])):
        x = rng.random()
        if x < 0.12:                                  # malformed / not applicable
            ops.append(rng.choice([{"op": "start", "m": rng.choice(CLUSTER_IDS)},
                                   {"op": "join", "m": rng.choice(CLUSTER_IDS), "key": rng.choice(CLUSTER_IDS + [9])},
                                   {"op": "reopen", "m": rng.choice(CLUSTER_IDS)},
                                   {"op": "close", "m": 9}]))
            o = ops[-1]
            # keep the bookkeeping right when the op happens to apply
            if o["op"] == "start" and not present:
                present.append(o["m"])
            elif o["op"] == "join" and o["m"] not in present and o["key"] in present and not closed:
                present.append(o["m"])
            elif o["op"] == "reopen" and o["m"] in closed:
                closed.discard(o["m"])
        elif closed and (x < 0.55 or len(closed) > 1):
            i = rng.choice(sorted(closed))
            closed.discard(i)
            ops.append({"op": "reopen", "m": i})
        elif present and x < 0.4:
            i = rng.choice([p for p in present if p not in closed] or present)
            closed.add(i)
            ops.append({"op": "close", "m": i})
        elif present and len(present) < 5:
            while nxt in present:
                nxt += 1
            via = rng.choice(present)
            ops.append({"op": "join", "m": nxt, "key": via})
            if not closed:
                present.append(nxt)
    return {"kind": "cluster", "ops": ops}


def gen_rendezvous(rng):
    """Atomicity of juror.verdict. Two coordinators a and b whose views (same members, the other side's nodes
    not Healthy) force juries that share exactly one juror s; two pledges join concurrently, one through each, so
    both propose the same key; the requests to s carry decision V: the harness holds each of them inside s's
    Candidates() call - between the juror's 'already approved' lookup and its append - until a second proposal is at
    the same point (or 40 ms pass). The model's verdict is atomic and the LTS theorems cover every interleaving of
    ATOMIC verdicts; this scenario samples exactly that assumption on the real juror. Views are inside the
    intersection guard (equal active sets), so any duplicate here is a violation, never the known finding."""
    n = rng.choice([3, 3, 5])
    members = list(range(1, n + 1))
    rng.shuffle(members)
    s_, a, b = members[0], members[1], members[2]
    rest = members[3:]
    side_a = {s_, a} | set(rest[:1])
    side_b = {s_, b} | set(rest[1:2])
    bad = lambda: rng.choice([ST_S, ST_D, ST_D])   # noqa: E731
    def view(healthy):
        return [[k, ST_H if k in healthy else bad(), k] for k in sorted(members)]
    views = {k: view(set(members)) for k in members}
    views[a], views[b] = view(side_a), view(side_b)
    ms = [{"addr": k, "ck": 7, "max": rng.choice([3, 4, 10]), "view": views[k]} for k in sorted(members)]
    rounds = lambda: [{"def": "D", "by": {str(s_): "V"}} for _ in range(rng.choice([1, 2, 2, 3]))]  # noqa: E731
    pls = [{"p": 101, "max": 3, "attempts": [{"via": a, "how": "D", "rounds": rounds()}]},
           {"p": 102, "max": 3, "attempts": [{"via": b, "how": "D", "rounds": rounds()}]}]
    ops = []
    if rng.random() < 0.3:      # an earlier join shifts the keys (and leaves an approval in some memories)
        ops.append({"op": "par", "pledges": [{"p": 100, "max": 3, "attempts": [
            {"via": rng.choice([a, b, s_]), "how": "D", "rounds": []}]}]})
    ops.append({"op": "par", "pledges": pls})
    if rng.random() < 0.3:
        ops.append({"op": "probe", "m": s_, "key": n + 1})
    return {"members": ms, "ops": ops, "rt_us": 2000, "rv_ms": 40, "rendezvous": True}


def gen_grpc(rng):
    """Real transport: three members over aspen/transport/grpc (freighter/go/grpc) on ephemeral loopback ports.
    Coordinators a and b suspect each other, so their only majority quorums are {a, s} and {b, s}. For scripted
    proposals the gRPC server of juror s answers by itself with DEADLINE_EXCEEDED (S) or CANCELED (X) - a server-side
    deadline / load shedding - while the coordinator's request context is alive: the juror never sees the proposal,
    the coordinator must take that for a failure and retry. The juror's verdicts are recorded at the juror."""
    members = [1, 2, 3]
    rng.shuffle(members)
    s_, a, b = members
    def view(k):
        return [[m, ST_S if (k == a and m == b) or (k == b and m == a) else ST_H, m] for m in (1, 2, 3)]
    mx = rng.choice([3, 4])
    ms = [{"addr": k, "ck": 7, "max": mx, "view": view(k)} for k in (1, 2, 3)]
    ops = []
    for i in range(rng.choice([2, 2, 3])):
        via = a if i % 2 == 0 else b
        nshed = rng.choice([1, 1, 2]) if i < 2 else rng.choice([0, 1])
        rounds = [{"def": "D", "by": {str(s_): rng.choice(["S", "S", "X"])}} for _ in range(min(nshed, mx - 1))]
        if rng.random() < 0.25:
            rounds.insert(rng.randrange(len(rounds) + 1), {"def": "D", "by": {str(via): "F"}})
            rounds = rounds[:mx - 1]
        ops.append({"op": "par", "pledges": [{"p": 101 + i, "max": 3, "attempts": [
            {"via": via, "how": "D", "rounds": rounds}]}]})
    if rng.random() < 0.5:
        ops.append({"op": "probe", "m": s_, "key": rng.choice([4, 5, 6])})
    return {"kind": "grpc", "members": ms, "ops": ops, "rt_us": 2000000}


CLUSTER_SHARE = 0.06
RENDEZVOUS_SHARE = 0.025
GRPC_CASES = {"quick": 8, "thorough": 60}


def gen_cases(rng, tier, n):
    out = []
    for _ in range(n):
        x = rng.random()
        if x < CLUSTER_SHARE:
            out.append(gen_cluster(rng))
        elif x < CLUSTER_SHARE + RENDEZVOUS_SHARE:
            out.append(gen_rendezvous(rng))
        else:
            out.append(gen_guarded(rng))
    # a handful of real-transport cases, spread over the batch
    for _ in range(GRPC_CASES.get(tier, 8)):
        out[rng.randrange(len(out))] = gen_grpc(rng)
    return out


# --------------------------------------------------------------------------- judging
def harness_violation(case, r):
    if r.get("panic"):
        return "panic: " + r["panic"]
    if r.get("hang"):
        return ("hang: background gossip did not tell every open node about every node within 5 s"
                if is_cluster(case) else "hang: the pledge scenario did not finish within 30 s")
    return None


def events(r, t):
    return [e for e in r["events"] if e[0] == t]


def nontrivial(case, r):
    if is_cluster(case):
        # a node joined through a member that had been reopened from its store (or through a joined member)
        obs = [e for e in r["events"] if e[0] == "CO"]
        reopened, joined = set(), set()
        for o, e in zip(case["ops"], obs):
            if not e[1]:
                continue
            if o["op"] == "reopen":
                reopened.add(o["m"])
            elif o["op"] == "join":
                if o["key"] in reopened or o["key"] in joined:
                    return True
                joined.add(o["m"])
        return False
    snaps = {}
    for e in events(r, "SN"):
        snaps.setdefault(e[1], set()).add(json.dumps(e[2]))
    allsn = set()
    for s in snaps.values():
        allsn |= s
    lost = [e for e in events(r, "RQ") if e[4] != 0]
    okp = [e for e in events(r, "PE") if e[2]]
    return len(snaps) >= 2 and len(allsn) >= 2 and len(lost) >= 1 and len(okp) >= 1


HOW = {0: "delivered", 1: "not_delivered", 2: "response_lost", 3: "cancelled_ctx", 4: "delayed"}


def histogram(case, r):
    if is_cluster(case):
        ks = ["cluster_script"]
        obs = [e for e in r["events"] if e[0] == "CO"]
        for o, e in zip(case["ops"], obs):
            ks.append("cluster_op=%s%s" % (o["op"], "" if e[1] or o["op"] == "close" else "_skipped"))
        return ks
    ks = ["members=%d" % len(case["members"])]
    if case.get("rendezvous"):
        ks.append("rendezvous_inside_juror")
    if case.get("kind") == "grpc":
        ks.append("real_grpc_transport")
    npl = len(all_pledges(case))
    ks.append("pledges=%d" % npl)
    for o in case["ops"]:
        ks.append("op=" + o["op"] + ("%d" % len(o["pledges"]) if o["op"] == "par" else ""))
    for e in events(r, "RQ"):
        ks.append("req=" + HOW[e[4]])
        if e[4] in (0, 2):
            ks.append("verdict=" + VERD[e[5]])
    for e in events(r, "LT"):
        ks.append("late=" + VERD[e[4]])
    for e in events(r, "RE"):
        ks.append("run_end=%s%s" % ({0: "ok", 1: "failed", 2: "unreachable", 3: "failed", 4: "failed"}[e[4]],
                                    "_lost" if e[5] else ""))
    for e in events(r, "PE"):
        ks.append("pledge=" + ("joined" if e[2] else "gave_up"))
    rounds = {}
    for e in events(r, "SN"):
        rounds[e[1]] = rounds.get(e[1], 0) + 1
    for v in rounds.values():
        ks.append("rounds=%d" % min(v, 6))
    if len(set(json.dumps(canon_view(v)) for v in all_views(case))) > 1:
        ks.append("differing_views")
    if not guard_ok(case):
        ks.append("outside_intersection_guard")
    return ks


_kinds_cache = {}


def kinds_of(terms):
    """judged_kinds (viol_kinds, preceded by 99 when the model does not accept the log) of each pledge-level
    case term, evaluated by Coq in one call"""
    out = coq_print(PID, COQ_IMPORTS, "Definition ks := Eval vm_compute in map judged_kinds [ %s ].\nPrint ks." %
                    "\n ; ".join(terms), timeout=900)
    m = re.search(r"ks\s*=\s*(\[.*?\])\s*:", out.replace("\n", " "))
    if not m:
        raise RuntimeError("cannot parse viol_kinds output: %s" % out[-800:])
    body = m.group(1).strip()[1:-1]
    res, depth, cur = [], 0, ""
    for ch in body:
        if ch == "[":
            depth += 1
            cur = ""
        elif ch == "]":
            depth -= 1
            res.append([int(x.replace("%N", "").strip()) for x in cur.split(";") if x.strip()])
        elif depth:
            cur += ch
    if len(res) != len(terms):
        raise RuntimeError("viol_kinds: %d results for %d cases" % (len(res), len(terms)))
    return res


def duplicate_pairs(r):
    """pairs of pledges handed the same key, each with the latest candidate snapshot of the run that decided"""
    ev = r["events"]
    run_of, snap, resp = {}, {}, {}
    for e in ev:
        if e[0] == "PS":
            run_of[e[3]] = e[1]
        elif e[0] == "SN":
            snap[e[1]] = e[2]
        elif e[0] == "RE" and e[4] == 0 and not e[5]:
            resp.setdefault((run_of.get(e[1]), e[2]), (e[1], list(snap.get(e[1], []))))
    adm = [(e[1], e[3]) + resp.get((e[1], e[3]), (None, [])) for e in ev if e[0] == "PE" and e[2]]
    return [(a, b) for i, a in enumerate(adm) for b in adm[i + 1:] if a[1] == b[1]]


def tags(case, r):
    """F6 is attributed only when (a) the model accepts the whole log, (b) the monitor's ONLY objection is 'same
    key, disjoint approving quorums' — in particular every pledge that was handed a key had the approval of every
    member of a majority quorum of its coordinator's snapshot (kind 1 absent) — and (c) every such pair was decided
    on two DIFFERING snapshots that are outside the intersection guard."""
    if r is None or "events" not in r or is_cluster(case):
        return set()
    t = to_coq_pledge(case, r)
    if t not in _kinds_cache:
        _kinds_cache[t] = kinds_of([t])[0]
    if set(_kinds_cache[t]) != {4}:
        return set()
    pairs = duplicate_pairs(r)
    if not pairs:
        return set()
    for a, b in pairs:
        va, vb = a[3], b[3]
        if sorted(active_addrs(va)) == sorted(active_addrs(vb)) or compat(va, vb):
            return set()
    return {KNOWN_TAG}


def neighbours(case, rng):
    out = []
    if is_cluster(case):
        for i in range(len(case["ops"])):
            c = json.loads(json.dumps(case))
            del c["ops"][i]
            out.append(c)
        return out + [gen_cluster(rng) for _ in range(40)]
    for i in range(len(case["ops"])):
        c = json.loads(json.dumps(case))
        del c["ops"][i]
        out.append(c)
    # make every scripted decision a plain delivery / drop every gossip
    c = json.loads(json.dumps(case))
    for o in c["ops"]:
        if o["op"] == "par":
            for p in o["pledges"]:
                for a in p["attempts"]:
                    a["how"] = "D"
                    a["rounds"] = []
    out.append(c)
    for _ in range(6):
        c = json.loads(json.dumps(case))
        c["ops"].append({"op": "par", "pledges": [{"p": 190 + rng.randrange(9), "max": 4, "attempts": [
            {"via": rng.choice([m["addr"] for m in case["members"]]), "how": "D", "rounds": []}]}]})
        out.append(c)
    return out


def model_dump(case, r):
    if is_cluster(case):
        return coq_print(PID, COQ_IMPORTS, "Eval vm_compute in cmodel_dump (%s)." % to_coq_cluster(case, r))[-6000:]
    t = to_coq_pledge(case, r)
    return coq_print(PID, COQ_IMPORTS, "Eval vm_compute in model_dump (%s)." % t)[-6000:]


# --------------------------------------------------------------------------- fixed scenarios
def f6_case():
    """DESIGN §9 F6 / Coq witness w_ms, w_tr (Aspen/PledgeWitness.v): seven members, member 3 only knows
    {1,2,3}. Node states are chosen so that both quorums are forced ({4,5,6,7} minus nothing / {2,3})."""
    full = [[k, 0, k] for k in range(1, 8)]
    v1 = [[1, 0, 1], [2, 1, 2], [3, 1, 3]] + [[k, 0, k] for k in range(4, 8)]
    v3 = [[1, 1, 1], [2, 0, 2], [3, 0, 3]]
    view = lambda a: v1 if a == 1 else v3 if a == 3 else full  # noqa: E731
    return {"members": [{"addr": a, "ck": 7, "max": 10, "view": view(a)} for a in range(1, 8)],
            "ops": [{"op": "par", "pledges": [{"p": 101, "max": 3, "attempts": [{"via": 1, "how": "D", "rounds": []}]}]},
                    {"op": "par", "pledges": [{"p": 102, "max": 3, "attempts": [{"via": 3, "how": "D", "rounds": []}]}]}],
            "rt_us": 2000}


def small_stale_case():
    """the smallest instance: member 1 never learnt of 2 and 3; quorum {1} of {1} vs quorum {2,3} of {1,2,3}"""
    full = [[1, 1, 1], [2, 0, 2], [3, 0, 3]]
    return {"members": [{"addr": 1, "ck": 7, "max": 10, "view": [[1, 0, 1]]},
                        {"addr": 2, "ck": 7, "max": 10, "view": full},
                        {"addr": 3, "ck": 7, "max": 10, "view": full}],
            "ops": [{"op": "par", "pledges": [{"p": 101, "max": 3, "attempts": [{"via": 2, "how": "D", "rounds": []}]}]},
                    {"op": "par", "pledges": [{"p": 102, "max": 3, "attempts": [{"via": 1, "how": "D", "rounds": []}]}]},
                    {"op": "par", "pledges": [{"p": 103, "max": 3, "attempts": [{"via": 1, "how": "D", "rounds": []}]}]},
                    {"op": "par", "pledges": [{"p": 104, "max": 3, "attempts": [{"via": 1, "how": "D", "rounds": []}]}]}],
            "rt_us": 2000}


EXTRA_COUNTS = {"quick": 400, "thorough": 5000}


def extra(ctx):
    """Second phase: scripts OUTSIDE the intersection guard (arbitrarily stale views, joined nodes with empty
    views and memories acting as jurors). Every case is judged on its own: same exact trace acceptance; a monitor
    rejection must carry exactly the signature of the known finding, anything else is a violation."""
    import random
    import check
    rng = random.Random(ctx.seed * 104729 + 11)
    cases = [f6_case(), small_stale_case()] + [gen_case(rng, False) for _ in range(EXTRA_COUNTS.get(ctx.tier, 150))]
    cases = [json.loads(json.dumps(c)) for c in cases]
    res, M, V, hv, errs = ctx.evaluate(cases)
    cov = {"cases": len(cases), "mismatches": len(M), "monitor_rejections": len(V),
           "f6_witness_reproduced_on_real_code": 0 in V, "small_witness_reproduced_on_real_code": 1 in V}
    if errs:
        rp = check.write_replay(ctx, "V2", "stale-view batch could not be evaluated", {}, None, {"errors": errs[:10]})
        ctx.violations.append({"kind": "V2", "what": "evaluation errors: %s" % errs[0][:300], "replay": rp,
                               "found_input": False})
    for i, w in hv[:5]:
        check.report_case_violation(ctx, cases[i], res.get(i), w)
    if V:
        terms = [to_coq_pledge(cases[i], res[i]) for i in V]
        for t, ks in zip(terms, kinds_of(terms)):
            _kinds_cache[t] = ks
    before = len(ctx.violations)
    for i in V:
        if len(ctx.violations) - before >= 3:
            break
        check.report_case_violation(ctx, cases[i], res.get(i),
                                    "monitor ok_%s rejects the implementation's behaviour (stale-view batch)" % PID)
    if M and not any(v["kind"] == "V1" for v in ctx.violations):
        i = M[0]
        try:
            md = model_dump(cases[i], res.get(i))
        except Exception as ex:  # noqa
            md = repr(ex)
        rp = check.write_replay(ctx, "V2", "model and implementation disagree (stale-view batch)", cases[i], res.get(i),
                                {"correspondence": "corr:%s/stale#%d" % (PID, i), "model": md,
                                 "mismatching_cases": len(M)})
        ctx.violations.append({"kind": "V2", "what": "correspondence corr:%s broke on %d stale-view cases" % (PID, len(M)),
                               "replay": rp, "found_input": False})
    if 0 not in V:
        ctx.notes.append("the F6 witness (Aspen/PledgeWitness.v w_tr) did NOT hand out a duplicate key on this tree")
    nt = sum(1 for i, c in enumerate(cases) if res.get(i) and nontrivial(c, res[i]))
    cov["nontrivial"] = nt
    ctx.extra_cov["stale_view_batch"] = cov


RULE = ("main batch: clusters of 1-7 arbitrating members with per-member candidate views (equal, or one member behind, "
        "with Suspect/Dead/Left states) that pairwise satisfy the quorum-intersection guard; 1-5 ops of par(1-4 "
        "concurrent pledges, each 1-3 attempts through members / joined nodes / nobody, each run scripted per round: "
        "default + per-juror decision deliver|fail|cancelled-ctx|response-lost|timeout|late, mid-run view changes, "
        "late-message flushes) | gossip | flush | probe. Malformed share: duplicate pledge ids, no attempts, pledges "
        "through themselves / unknown addresses, MaxProposals 1, probes of key 0/4095. A second batch (extra phase) "
        "drops the guard: views up to 3 members behind and joined nodes entering views under the key they were handed. "
        "Non-trivial = >=2 runs, >=2 different candidate snapshots, >=1 juror request that was not plainly "
        "delivered, >=1 pledge handed a key; distinct by hash. About 6% of the main batch are cluster.Open-level "
        "scripts over real clusters with memkv stores (start | join i via m | close | reopen-from-store, incl. ops "
        "that do not apply): every opened cluster reports its node key and cluster key; non-trivial there = a node "
        "joined through a reopened or a joined member. About 2.5% are rendezvous scripts (two concurrent pledges "
        "through two coordinators whose forced juries share one juror; both proposals are held INSIDE that juror's "
        "Candidates() call until they meet or 40 ms pass): they sample the atomicity of juror.verdict, which the "
        "model assumes and on which every LTS theorem rests. 8 cases per quick run (60 thorough) run the same "
        "script machinery over the REAL transport (aspen/transport/grpc on ephemeral loopback ports): a juror's gRPC "
        "server answers scripted proposals itself with DEADLINE_EXCEEDED / CANCELED while the coordinator's context "
        "is alive; verdicts and run results are recorded where they are produced (juror / coordinator side), not "
        "taken from what the transport returns.")
TRUSTED = ["cluster-level scripts: the harness only lets a node join while every existing node is open (a join that "
           "cannot reach a quorum makes cluster.Open panic on its nil result and leaves the coordinator's juror with "
           "thousands of remembered keys; both are outside the property and reported separately)",
           "hook aspen/internal/cluster/pledge/export_verif.go (exports the two sentinel errors, add-only)",
           "harness transport wrapper: decides delivery of each juror request, linearises deliveries, view changes and "
           "Candidates() calls under one mutex, attributes Candidates() calls to runs by goroutine id",
           "pledge.Pledge / pledge.Arbitrate / responsible / juror and the freighter mock network run for real; in the "
           "gRPC cases aspen/transport/grpc + freighter/go/grpc run for real as well, a server interceptor injects the "
           "scripted statuses, and the run id of a pledge request travels in the request's unused ClusterKey"]
ASSUMES = ["juror.verdict is atomic (one model step): lookup, range check and append cannot interleave with another "
           "verdict of the same juror; sampled on the real juror by the rendezvous scripts, not proved",
           "node keys stay below 2^12 (Go uint16/Uint12 wrap-around of highest+1 not modelled)",
           "within one view, addresses are distinct (one entry per physical node)",
           "juror memory is never reset: node restarts (a new juror with empty approvals on an old address) are "
           "outside the modelled events",
           "the pledge-side RequestTimeout never expires inside a run (10 s in the harness)"]
PARTIAL = ("uniqueness is proved only under the quorum-intersection guard (C11_unique_partial / "
           "C11_joiner_keys_unique_partial); without it the statement is refuted in the model and on the real code "
           "(C11_unique_refuted, known finding F6 disjoint_quorums_from_stale_view). Real timeouts are replaced by "
           "scripted events (a timed-out juror request is withheld until the responsible's context ends); the "
           "jitter / scaled ticker of pledge.Pledge and TCP transports are not modelled.")
READY = True
TECHNIQUE = ("Coq proof (inductive invariant over every event sequence of a labelled transition system: juror memory, "
             "full-quorum approval, quorum intersection by pigeonhole) + trace acceptance of the real code's event log "
             "by the model inside Coq (vm_compute) + decidable monitor on the log")
DESIGN_REF = "DESIGN.md §8 C11, §9 F6"
LEVEL_TEXT = ("Machine-checked Coq theorems over an executable LTS copy of responsible.propose / buildQuorum / "
              "consultQuorum / juror.verdict / Pledge: for every event sequence (all interleavings of concurrent "
              "pledges through any members with any, changing, stale views; every juror request delivered, lost, "
              "answered-but-lost, cancelled or late; all retries) a key is decided only with the approval of every "
              "member of a majority quorum of the coordinator's snapshot (C11_admit_needs_full_quorum, "
              "C11_joiner_key_needs_full_quorum), the joiner receives the coordinator's cluster key (C11_cluster_key), "
              "a juror never approves a key twice (C11_juror_memory), and decided keys are pairwise different whenever "
              "the deciding quorums intersect (C11_unique_under_intersection), which equal and one-behind snapshots "
              "guarantee (C11_quorum_intersection_*). The real pledge package is driven on every run through a "
              "fault-injecting transport; its linearised event log must be accepted event by event by the model "
              "(verdicts, proposed keys, quorum sizes and membership, responses) and is judged by a monitor stating the "
              "property; the monitor is proved sound against the model (C11_monitor_sound: on an accepted log its only "
              "possible objection is the signature of the known finding; none under the intersection guard).")
LEVEL_NOTE = ("PARTIAL: the unrestricted uniqueness statement is FALSE for the code as it is — with a coordinator whose "
              "view is stale by two or more members two majority quorums can be disjoint and both pledges are handed "
              "the same key; reproduced on the real package on every run (F6, known finding), refuted in Coq "
              "(C11_unique_refuted), proved under the intersection guard (C11_unique_partial). Real timeouts, ticker "
              "jitter and node restarts are not modelled. Trusted: Coq kernel/vm_compute; hand-written model tied by "
              "trace acceptance, not translation; harness wrapper and generator. No axioms.")
