"""C09 — concurrent cesium use is race-free and equivalent to a serial order."""
import json
import os
import subprocess
import sys
import concurrent.futures as cf

import vlib
from vlib import cZ, clist, cbool, coq_print

PID = "C09"
MODULE, PKG, BIN = "cesium", "./verifh/c09", "c09"
EXTRA_BUILDS = [("cesium", "./verifh/c09", "c09", True)]
COQ_IMPORTS = "From Synnax Require Import Common.Base Cesium.Serial Monitors.Mon_C09."
CASE_TYPE = "case_t"
COUNTS = {"quick": 120, "thorough": 3000}
RACE_COUNTS = {"quick": 24, "thorough": 600}
SHARD = 60
PROCS = 4
HARNESS_TIMEOUT = 900
RULE = ("each case: 1-3 channel groups (index+int64 data channel) pre-filled serially, then 2-4 threads run "
        "concurrently on ONE cesium.DB (GOMAXPROCS 1/2/4/8; always-persist or lazy index persistence; background GC "
        "every 3 ms at threshold 1e-4 in 60% of cases; file-size caps forcing rollover): a group's owner thread "
        "opens writers on fresh regions (commit each/end/auto), other threads DeleteTimeRange sub-ranges of older "
        "data (with/without the index channel), Read, iterate, open/close streamers, create/write/delete private "
        "channels. The same ops (those that reported success) are then run serially on a fresh DB. Non-trivial = "
        ">=2 threads with >=1 successful write and >=1 successful delete on the SAME group from different threads; "
        "distinct by hash. A second phase re-runs a subset under the Go race detector, one process per case. "
        "SCHEDULE INJECTION cases (about 80% of the evaluations): a two-thread scenario (GC vs delete/write/read, delete vs "
        "write, delete vs delete, at the cesium level and on a bare domain.DB where writers on disjoint regions of ONE "
        "channel exist; plus two deliberately conflicting scenarios) is run once per sampled I/O point k of thread A: every "
        "file-system call and every delete offset resolver of A is a point, thread B is fired when A reaches point k (A waits "
        "25 ms for B, which may be blocked on a lock A holds). The result must equal the serial outcome A;B or B;A. "
        "Non-trivial there = B fired strictly inside A and both took effect.")
TRUSTED = ["runner/props/c09_src.py (translator: where ip.p.Lock() sits in indexPersist.prepare; whether idx.mu is held at "
           "every prepare() call site; fails closed to the weaker protocol)",
           "cesium public API driven by hooks/cesium/verifh/c09 (no in-package hook needed)",
           "Go race detector and a 40 s watchdog (observation only)"]
ASSUMES = ["atomic steps of the model = cesium operations that reported success; the Go mutexes are assumed to make the "
           "modelled steps atomic (that assumption is what the race detector phase samples)"]
PARTIAL = ("Persistence clause (close + reopen): proved for the index.domain protocol model of ONE channel "
           "(Cesium/PersistOrder.v: every schedule of critical sections and file writes; protocol and call-site "
           "discipline read off the Go source by runner/props/c09_src.py on every run) and refuted for the protocol "
           "before fix 39ba064 (F74). Data-race freedom and absence of deadlock are properties of the Go memory model and scheduler: observed over "
           "sampled schedules with -race and a watchdog, not proved. The theorem covers serialisability of the "
           "content-level model for all interleavings of pairwise independent operations.")


def consts(repo):
    """translator: index.domain persistence protocol and prepare() call-site discipline read off the Go source"""
    d = os.path.dirname(os.path.abspath(__file__))
    if d not in sys.path:
        sys.path.insert(0, d)
    import c09_src
    return c09_src.consts(repo)


def gen_case(rng):
    G = rng.choice([1, 1, 2, 2, 3])
    T = rng.choice([2, 3, 3, 4])
    setup = []
    old = {}
    for g in range(1, G + 1):
        doms = []
        for i in range(rng.randrange(2, 5)):
            start = 100 + 1000 * i
            n = rng.randrange(3, 11)
            step = rng.choice([1, 5, 10])
            setup.append({"op": "write", "g": g, "start": start, "n": n, "step": step,
                          "chunks": rng.choice([1, 1, 2, 3]), "commits": rng.choice(["each", "end", "auto"])})
            doms.append((start, n, step))
        old[g] = doms
    owner = {g: rng.randrange(T) for g in range(1, G + 1)}
    nxt = {g: 100000 for g in range(1, G + 1)}
    threads = []
    for t in range(T):
        ops = []
        priv = []
        for _ in range(rng.randrange(3, 9)):
            x = rng.random()
            g = rng.randrange(1, G + 1)
            if x < 0.35:
                own = [gg for gg in owner if owner[gg] == t]
                if not own:
                    x = 0.5
                else:
                    g = rng.choice(own)
                    n = rng.randrange(1, 9)
                    step = rng.choice([1, 2, 10])
                    ops.append({"op": "write", "g": g, "start": nxt[g], "n": n, "step": step,
                                "chunks": rng.choice([1, 2, 4]), "commits": rng.choice(["each", "end", "auto"])})
                    if nxt[g] == 100000 and rng.random() < 0.4:
                        # a long-lived writer: opened before the threads start, it writes and commits while
                        # other threads delete / read / collect on the same channels
                        ops[-1]["pre"] = True
                    nxt[g] += rng.choice([n * step, n * step + 1, 1000])
                    continue
            if x < 0.6:
                s0, n, step = rng.choice(old[g])
                pts = [s0 + i * step for i in range(n)]
                a = rng.choice(pts + [s0 - 1, s0 + 1, 0]) + rng.choice([0, 0, 1, -1])
                b = max(a, rng.choice(pts + [pts[-1] + 1, pts[-1] + step * 3]) + rng.choice([0, 0, 1]))
                b = min(b, 99000)
                a = max(a, 0)
                ops.append({"op": "delete", "g": g, "a": a, "b": b, "index": rng.random() < 0.3 and a < b})
            elif x < 0.7:
                ops.append({"op": "read", "g": g, "a": 0, "b": 10 ** 9})
            elif x < 0.8:
                ops.append({"op": "iterate", "g": g, "a": 0, "b": 10 ** 9, "step": 10})
            elif x < 0.86:
                ops.append({"op": "stream", "g": g, "m": rng.choice([1, 3, 8])})
            else:
                if priv and rng.random() < 0.5:
                    k = priv.pop()
                    ops.append({"op": "delchan", "key": k})
                else:
                    k = 1000 + t * 10 + len([o for o in ops if o["op"] == "create"])
                    ops.append({"op": "create", "key": k})
                    ops.append({"op": "pwrite", "key": k, "start": rng.choice([5, 1000]), "n": rng.randrange(1, 5), "step": rng.choice([1, 7])})
                    priv.append(k)
        threads.append(ops)
    return {"procs": rng.choice([1, 2, 4, 8]), "persist": rng.choice(["always", "always", "lazy"]),
            "gc": rng.random() < 0.6, "filecap": rng.choice([0, 0, 160, 400]), "groups": G,
            "setup": setup, "threads": threads}


def _dwrite(start, n, rng):
    return {"op": "dwrite", "start": start, "n": n, "chunks": rng.choice([1, 1, 2]), "commits": rng.choice(["end", "each"])}


def gen_inject_scenario(rng):
    """one (setup, thread A, thread B) scenario of pairwise independent operations; thread B is fired when
    thread A reaches a chosen I/O point (every file-system call and delete offset resolver is a point)"""
    if rng.random() < 0.5:
        # ---- bare domain database (writers on disjoint regions of ONE channel exist only at this level)
        nd = rng.randrange(3, 6)
        doms = [(10 + 20 * i, rng.randrange(5, 11)) for i in range(nd)]
        setup = [_dwrite(s, n, rng) for s, n in doms]
        pre = []
        kind = rng.choice(["del_vs_write", "del_vs_write", "gc_vs_del", "write_vs_del", "del_vs_del", "gc_vs_write", "gc_vs_read"])
        free_starts = [1] + [s + n + 1 for s, n in doms if n <= 8] + [10 + 20 * nd + 5]
        if kind in ("gc_vs_del", "gc_vs_write", "gc_vs_read"):
            # create tombstones first so that GC rewrites files
            i = rng.randrange(nd - 1)
            s, n = doms[i]
            pre = [{"op": "ddelete", "a": s + 1, "b": s + n - 1}]
        i = rng.randrange(nd)
        j = rng.randrange(i, nd)
        a = doms[i][0] + rng.randrange(0, doms[i][1])
        b = max(a, doms[j][0] + rng.randrange(0, doms[j][1] + 1))
        dele = {"op": "ddelete", "a": a, "b": b}
        ws = rng.choice([f for f in free_starts if not (a - 4 <= f < b)] or [1])
        wr = _dwrite(ws, rng.randrange(1, 4), rng)
        if kind == "del_vs_write":
            A, B = [dele], [wr]
        elif kind == "write_vs_del":
            A, B = [wr], [dele]
        elif kind == "gc_vs_del":
            k = rng.randrange(nd)
            s, n = doms[k]
            x = s + rng.randrange(1, max(2, n - 1))
            A, B = [{"op": "dgc"}], [{"op": "ddelete", "a": x, "b": min(x + rng.randrange(1, 4), s + n)}]
        elif kind == "gc_vs_write":
            A, B = [{"op": "dgc"}], [wr]
        elif kind == "gc_vs_read":
            # a reader created (and released) while a GC pass is under way; the final observation re-reads
            A, B = [{"op": "dgc"}], [{"op": "dread"}]
        else:
            s2, n2 = doms[-1]
            A, B = [dele], [{"op": "ddelete", "a": s2 + 1, "b": s2 + 3}] if j < nd - 1 else [{"op": "dread"}]
        return {"mode": "inject", "level": "domain", "persist": rng.choice(["always", "lazy"]), "groups": 0,
                "filecap": rng.choice([0, 0, 64, 24]), "procs": 4, "gc": False, "setup": setup + pre, "threads": [A, B], "kind": kind}
    # ---- cesium level
    setup = []
    doms = []
    for i in range(rng.randrange(2, 5)):
        start, n, step = 100 + 1000 * i, rng.randrange(4, 11), rng.choice([1, 5, 10])
        setup.append({"op": "write", "g": 1, "start": start, "n": n, "step": step, "chunks": 1, "commits": "end"})
        doms.append((start, n, step))
    kind = rng.choice(["gc_vs_del", "gc_vs_del", "gc_vs_del", "del_vs_write", "del_vs_write", "write_vs_del", "del_vs_del", "gc_vs_write", "del_vs_gc",
                       "gc_vs_read", "gc_vs_read", "delidx_vs_write_inside", "delidxonly_vs_datawrite", "delidxonly_vs_datawrite"])
    def rdel():
        s0, n, step = rng.choice(doms)
        pts = [s0 + i * step for i in range(n)]
        a = rng.choice(pts) + rng.choice([0, 1])
        b = max(a + 1, rng.choice(pts + [pts[-1] + 1]))
        return {"op": "delete", "g": 1, "a": a, "b": b, "index": rng.random() < 0.25}
    wr = {"op": "write", "g": 1, "start": 100000, "n": rng.randrange(1, 6), "step": rng.choice([1, 10]),
          "chunks": rng.choice([1, 2]), "commits": rng.choice(["each", "end", "auto"])}
    if kind in ("del_vs_write", "write_vs_del", "gc_vs_write") and rng.random() < 0.6:
        wr["pre"] = True         # the writer is already open when the other thread starts (DeleteTimeRange holds the
        wr["chunks"] = rng.choice([1, 2, 3])     # database lock, so a writer can only commit inside a delete if it was
        wr["n"] = max(wr["n"], wr["chunks"])     # opened before it)
    pre = [rdel()] if kind in ("gc_vs_del", "gc_vs_write", "del_vs_gc", "gc_vs_read") else []
    if kind == "gc_vs_read" and rng.random() < 0.6:
        pre.append(rdel())
    # a DELIBERATE conflict: a delete of index+data over a range with a gap, and a writer that opens in that gap
    # while the delete is under way (the two do not commute; the run must still equal one of the two serial orders)
    gap_start = doms[0][0] + doms[0][1] * doms[0][2] + 50
    inside = {"op": "write", "g": 1, "start": gap_start, "n": rng.randrange(1, 6), "step": rng.choice([1, 10]),
              "chunks": 1, "commits": rng.choice(["each", "end", "auto"])}
    # bounds mostly INSIDE domains, so that the delete has to resolve sample offsets through the index channel
    # (file reads = injection points between its dependants check and its index update)
    d0, d1 = doms[0], doms[-1] if rng.random() < 0.5 else doms[1]
    wide = {"op": "delete", "g": 1,
            "a": rng.choice([0, d0[0], d0[0] + d0[2] * rng.randrange(1, d0[1]), d0[0] + d0[2] * rng.randrange(1, d0[1]) + rng.choice([0, 1])]),
            "b": rng.choice([d1[0], d1[0] + d1[2] * rng.randrange(1, d1[1]), d1[0] + d1[2] * rng.randrange(1, d1[1]) + 1, 90000]),
            "index": True}
    A, B = {"gc_vs_del": ([{"op": "gc"}], [rdel()]), "del_vs_write": ([rdel()], [wr]), "write_vs_del": ([wr], [rdel()]),
            "del_vs_del": ([rdel()], [rdel()]), "gc_vs_write": ([{"op": "gc"}], [wr]), "del_vs_gc": ([rdel()], [{"op": "gc"}]),
            "gc_vs_read": ([{"op": "gc"}], [{"op": rng.choice(["read", "iterate"]), "g": 1, "a": 0, "b": 10 ** 9, "step": 10}]),
            "delidx_vs_write_inside": ([wide], [inside]), "delidxonly_vs_datawrite": ([], [])}[kind]
    if kind == "delidxonly_vs_datawrite":
        # another deliberate conflict: timestamps exist on the index channel only; one thread deletes a part of them
        # (index channel only), the other writes data for them (data channel only). Serially exactly one of the two
        # succeeds; both succeeding, or a result that matches neither order, is a violation.
        n, step = rng.randrange(4, 11), rng.choice([1, 5, 10])
        s0 = 50000
        setup2 = setup + [{"op": "write", "g": 1, "start": s0, "n": n, "step": step, "chunks": 1, "commits": "end", "only": "index"}]
        k0 = rng.randrange(0, n - 1)
        a = s0 + k0 * step + rng.choice([0, 0, 1 if step > 1 else 0])
        b = rng.choice([s0 + n * step, s0 + n * step + 7, s0 + rng.randrange(k0 + 1, n) * step + 1])
        A = [{"op": "delete", "g": 1, "a": a, "b": b, "index": True, "only": "index"}]
        # one frame, one commit: the writer's lifetime is then atomic (a writer that commits several times and fails
        # half-way has taken partial effect although it "reported failure")
        B = [{"op": "write", "g": 1, "start": s0, "n": n, "step": step, "chunks": 1, "commits": "end", "only": "data"}]
        if rng.random() < 0.5:
            A, B = B, A
        return {"mode": "inject", "level": "cesium", "persist": rng.choice(["always", "lazy"]), "groups": 1,
                "filecap": 0, "procs": 4, "gc": False, "setup": setup2, "threads": [A, B], "kind": kind}
    return {"mode": "inject", "level": "cesium", "persist": rng.choice(["always", "lazy"]), "groups": 1,
            "filecap": rng.choice([0, 0, 160, 80]), "procs": 4, "gc": False, "setup": setup + pre, "threads": [A, B], "kind": kind}


def gen_inject_cases(rng, nscen, per):
    out = []
    for _ in range(nscen):
        sc = gen_inject_scenario(rng)
        base = per
        if sc["kind"].startswith("gc_") or sc["kind"] in CONFLICT_KINDS:
            per = base * 5 // 2      # a GC pass has ~45 I/O points at the cesium level
        off = rng.random() / per
        for j in range(per):
            c = json.loads(json.dumps(sc))
            c["kfrac"] = min(0.999, j / per + off)
            out.append(c)
        per = base
    return out


INJECT = {"quick": (40, 8), "thorough": (500, 20)}
# free-running repetitions of domain-level scenarios (windows that contain no I/O point, e.g. between releasing the
# index lock and writing the encoded index to index.domain): (cases, repetitions per case)
STRESS = {"quick": (8, 8000), "thorough": (48, 60000)}


# I/O fault injection: (scenarios, points sampled per scenario). Thread A's k-th file-system call (or delete offset
# resolver) fails once; afterwards thread B runs, the content is read, the database is closed and reopened: nothing
# may hang on a lock leaked on the error path, nothing may panic.
FAULT = {"quick": (10, 6), "thorough": (120, 16)}


def gen_fault_cases(rng, nscen, per):
    out = []
    while len(out) < nscen * per:
        sc = gen_inject_scenario(rng)
        if sc["kind"] in CONFLICT_KINDS:
            continue
        sc["mode"] = "fault"
        # thread B: operations that need the locks thread A's failed operation may have leaked
        if sc["level"] == "domain":
            sc["threads"][1] = sc["threads"][1] + [_dwrite(900, 2, rng), {"op": "dread"}, {"op": "ddelete", "a": 11, "b": 13}]
        else:
            sc["threads"][1] = sc["threads"][1] + [
                {"op": "write", "g": 1, "start": 200000, "n": 2, "step": 1, "chunks": 1, "commits": "end"},
                {"op": "read", "g": 1, "a": 0, "b": 10 ** 9}]
        off = rng.random() / per
        for j in range(per):
            c = json.loads(json.dumps(sc))
            c["kfrac"] = min(0.999, j / per + off)
            out.append(c)
    return out


def gen_stress_scenario(rng):
    """bare domain.DB: one delete of a non-empty range that cuts into existing domains, racing with 1-3 writers that
    commit new domains at free spots outside the deleted range (pairwise independent; every op must succeed)"""
    nd = rng.randrange(3, 7)
    doms = [(10 + 20 * i, rng.randrange(5, 11)) for i in range(nd)]
    setup = [_dwrite(s, n, rng) for s, n in doms]
    i = rng.randrange(nd)
    j = rng.randrange(i, nd)
    a = doms[i][0] + rng.randrange(1, doms[i][1] - 1)
    b = doms[j][0] + rng.randrange(2, doms[j][1])
    if b <= a:
        b = a + 1
    free = [1, 4] + [s + n + 1 for s, n in doms if n <= 8] + [10 + 20 * nd + 5, 10 + 20 * nd + 12]
    free = [f for f in free if f + 2 <= a - 1 and f < doms[i][0] or f > doms[j][0] + doms[j][1]]
    rng.shuffle(free)
    threads = []
    if rng.random() < 0.85:
        threads.append([{"op": "ddelete", "a": a, "b": b}])
    for f in free[:rng.randrange(1, 4)]:
        threads.append([{"op": "dwrite", "start": f, "n": rng.choice([1, 2]), "chunks": 1, "commits": "end",
                         "noend": rng.random() < 0.5}])
        if rng.random() < 0.4:
            # a second, later domain by the same thread: open (look-up of the next domain) races the others' commits
            threads[-1].append({"op": "dwrite", "start": f + 2, "n": 1, "chunks": 1, "commits": "end", "noend": True})
    if len(threads) < 2:
        threads.append([{"op": "dread"}])
    return {"mode": "stress", "level": "domain", "persist": rng.choice(["always", "lazy"]), "groups": 0,
            "kind": "del_vs_writers" if threads[0][0]["op"] == "ddelete" else "writers", "gc": False, "filecap": 0,
            "setup": setup, "threads": threads, "kfrac": 0.0}


def gen_stress_cases(rng, ncases, iters):
    out = []
    while len(out) < ncases:
        sc = gen_stress_scenario(rng)
        sc["iters"] = iters
        sc["procs"] = [4, 8, 2][len(out) % 3]
        out.append(sc)
    return out


def gen_rollover_case(rng):
    """writers whose LAST commit lands on the file-size cap (the commit that rolls the writer over to the next file),
    under lazy or always index persistence, nobody touching the channel afterwards: what a successful Close
    acknowledged must be readable after close + reopen"""
    T = rng.choice([2, 3, 4])
    cap = rng.choice([32, 64, 128])
    per = cap // 8
    threads = []
    for t in range(T):
        g = t + 1
        ops = []
        nxt = 100000
        for _ in range(rng.randrange(1, 4)):
            n = rng.choice([per, per, per + 1, 2 * per, max(1, per - 1), rng.randrange(1, 2 * per + 2)])
            chunks = rng.choice([1, 1, 2, n])
            ops.append({"op": "write", "g": g, "start": nxt, "n": n, "step": 1, "chunks": max(1, chunks),
                        "commits": rng.choice(["auto", "auto", "auto", "each", "end"])})
            nxt += n + rng.choice([0, 1, 1000])
            if rng.random() < 0.3:
                ops.append({"op": "read", "g": rng.randrange(1, T + 1), "a": 0, "b": 10 ** 9})
        threads.append(ops)
    return {"procs": rng.choice([1, 2, 4, 8]), "persist": rng.choice(["lazy", "lazy", "always"]),
            "gc": rng.random() < 0.3, "filecap": cap, "groups": T, "setup": [], "threads": threads}


def gen_cases(rng, tier, n):
    free = [gen_rollover_case(rng) if i % 12 == 5 else gen_case(rng) for i in range(n)]
    ns, per = INJECT.get(tier, (24, 8))
    if n < COUNTS.get(tier, n):      # scaled-down batches (search phase)
        ns = max(4, ns * n // COUNTS[tier])
    sn, si = STRESS.get(tier, (4, 4000))
    if n < COUNTS.get(tier, n):
        sn = max(2, sn * n // COUNTS[tier])
    fn, fp = FAULT.get(tier, (4, 4))
    if n < COUNTS.get(tier, n):
        fn = max(2, fn * n // COUNTS[tier])
    return free + gen_inject_cases(rng, ns, per) + gen_stress_cases(rng, sn, si) + gen_fault_cases(rng, fn, fp)


def c_action(o):
    k = o["op"]
    if k == "dwrite":
        return "PWrite 5000 %s" % clist([cZ(o["start"] + i) for i in range(o["n"])])
    if k == "ddelete":
        return "PDelete 5000 %s %s" % (cZ(o["a"]), cZ(o["b"]))
    if k == "write":
        st = [o["start"] + i * o["step"] for i in range(o["n"])]
        ctor = {"index": "WriteIdx", "data": "WriteData"}.get(o.get("only"), "Write")
        return "%s %s %s" % (ctor, cZ(o["g"]), clist([cZ(s) for s in st]))
    if k == "delete" and o.get("only") == "index":
        return "DeleteIdx %s %s %s" % (cZ(o["g"]), cZ(o["a"]), cZ(o["b"]))
    if k == "delete":
        return "Delete %s %s %s %s" % (cZ(o["g"]), cZ(o["a"]), cZ(o["b"]), cbool(o.get("index", False)))
    if k == "create":
        return "Create %s" % cZ(o["key"])
    if k == "pwrite":
        st = [o["start"] + i * o["step"] for i in range(o["n"])]
        return "PWrite %s %s" % (cZ(o["key"]), clist([cZ(s) for s in st]))
    if k == "delchan":
        return "DelChan %s" % cZ(o["key"])
    return "Noop"


def c_obs(chans):
    items = []
    for c in chans or []:
        rs = c.get("ranges") or []
        if rs and rs[0][0] == -1:
            items.append("(%s, None)" % cZ(c["key"]))
        else:
            items.append("(%s, Some %s)" % (cZ(c["key"]), clist([cZ(v) for v in (c.get("vals") or [])])))
    return clist(items)


def run_bad(o):
    if o.get("stall") or o.get("panic") or o.get("err"):
        return True
    for part in ("mem", "reopen"):
        if o.get(part) is None:
            return True
        for c in o.get(part) or []:
            rs = c.get("ranges") or []
            if rs and rs[0][0] == -2:
                return True
    return False


CONFLICT_KINDS = ("delidx_vs_write_inside", "delidxonly_vs_datawrite")


def to_coq(case, r):
    if case.get("mode") == "fault":
        # judged by the harness (stall / panic); an operation that REPORTED FAILURE may have taken partial effect, so the
        # content is not compared with a serial run of the successful operations
        return "(Case [] [] [] [] [] [] [] false true)"
    conc, ser = r["conc"], r["serial"]
    threads = []
    for ti, th in enumerate(case["threads"]):
        outs = (conc.get("outcomes") or [[]] * len(case["threads"]))[ti] if conc.get("outcomes") else []
        acts = [c_action(o) for oi, o in enumerate(th) if oi < len(outs) and outs[oi] == "ok"]
        threads.append(clist(acts))
    order = r.get("order") or list(range(len(threads)))
    if sorted(order) == list(range(len(threads))):
        threads = [threads[i] for i in order]
    bad = run_bad(conc) or run_bad(ser)
    # (an op that succeeded concurrently but fails in THIS serial order is not by itself a violation:
    #  the property asks for SOME serial order; only a difference in readable content is flagged)
    return "(Case %s %s %s %s %s %s %s %s %s)" % (
        clist([cZ(g) for g in range(1, case["groups"] + 1)]),
        clist((["Create 5000"] if case.get("level") == "domain" else []) +
              [c_action(o) for o, res in zip(case["setup"], conc.get("setup") or []) if res == "ok"]),
        clist(threads),
        c_obs(conc.get("mem")), c_obs(conc.get("reopen")), c_obs(ser.get("mem")), c_obs(ser.get("reopen")),
        cbool(bad), cbool(case.get("kind") not in CONFLICT_KINDS))


def nontrivial(case, r):
    outs = r["conc"].get("outcomes") or []
    if case.get("mode") == "fault":
        flat = [x for o in outs for x in o]
        return bool(flat) and any(x != "ok" for x in flat) and any(x == "ok" for x in flat)
    if case.get("mode") == "stress":
        return bool(outs) and all(any(x == "ok" for x in o) for o in outs) and (r.get("iters") or 0) > 0
    if case.get("mode") == "inject":
        # thread B was fired strictly inside thread A and both took effect
        ok = all(any(x == "ok" for x in o) for o in outs) if outs else False
        return bool(ok and (r.get("target") or 0) > 0 and (r.get("points") or 0) > 1)
    wr, dl = {}, {}
    for ti, th in enumerate(case["threads"]):
        for oi, o in enumerate(th):
            if ti < len(outs) and oi < len(outs[ti]) and outs[ti][oi] == "ok":
                if o["op"] == "write":
                    wr.setdefault(o["g"], set()).add(ti)
                if o["op"] == "delete":
                    dl.setdefault(o["g"], set()).add(ti)
    return any(g in dl and (dl[g] - wr[g]) for g in wr)


def histogram(case, r):
    if case.get("mode") == "fault":
        flat = [x for o in (r["conc"].get("outcomes") or []) for x in o]
        return ["fault:%s:%s" % (case["level"], case.get("kind")), "fault_hit_an_operation=%s" % any(x != "ok" for x in flat)]
    if case.get("mode") == "stress":
        return ["stress:%s" % case.get("kind"), "stress_repetitions=%s" % r.get("iters")]
    if case.get("mode") == "inject":
        return ["inject:%s:%s" % (case["level"], case.get("kind")), "inject_points=%s" % r.get("points")]
    ks = ["procs=%d" % case["procs"], "persist=" + case["persist"], "gc=%s" % case["gc"],
          "filecap=%d" % case["filecap"], "threads=%d" % len(case["threads"])]
    outs = r["conc"].get("outcomes") or []
    for ti, th in enumerate(case["threads"]):
        for oi, o in enumerate(th):
            res = outs[ti][oi] if ti < len(outs) and outs[ti] is not None and oi < len(outs[ti]) else "?"
            ks.append("op=%s:%s" % (o["op"], res))
    return ks


def neighbours(case, rng):
    out = []
    if case.get("mode") == "fault":
        for j in range(24):
            c = json.loads(json.dumps(case))
            c["kfrac"] = j / 24.0
            out.append(c)
        return out
    if case.get("mode") == "stress":
        for p in (2, 4, 8):
            c = json.loads(json.dumps(case))
            c["procs"] = p
            c["iters"] = max(case.get("iters", 0), 20000)
            out.append(c)
        return out
    if case.get("mode") == "inject":
        for j in range(24):
            c = json.loads(json.dumps(case))
            c["kfrac"] = j / 24.0
            out.append(c)
        return out
    for p in (1, 2, 8):
        c = json.loads(json.dumps(case))
        c["procs"] = p
        out.append(c)
    for pm in ("always", "lazy"):
        c = json.loads(json.dumps(case))
        c["persist"] = pm
        c["gc"] = True
        out.append(c)
    return out


def tags(case, r):
    t = set()
    if isinstance(r, dict) and r.get("race_files"):
        for f in r["race_files"]:
            t.add("race:" + f)
    return t


def harness_violation(case, r):
    for part in ("conc", "serial"):
        o = r.get(part) or {}
        if o.get("panic"):
            return "%s run panicked: %s" % (part, o["panic"])
        if o.get("stall"):
            return "%s run stalled (no completion within 40 s)" % part
    return None


def model_dump(case, r):
    return coq_print(PID, COQ_IMPORTS, "Eval vm_compute in model_dump %s." % to_coq(case, r))[-6000:]


def _race_one(binp, case):
    env = dict(os.environ)
    env["GORACE"] = "halt_on_error=1 exitcode=66"
    try:
        p = subprocess.run([binp], input=json.dumps(case) + "\n", capture_output=True, text=True, timeout=400, env=env)
    except subprocess.TimeoutExpired:
        return case, {"stall": True}, "timeout"
    return case, p.returncode, p.stderr


def extra(ctx):
    """race-detector phase: one process per case so a report is attributable"""
    import re
    chk = sys.modules.get("check") or sys.modules["__main__"]
    binp, blog = vlib.go_build(MODULE, PKG, BIN, race=True)
    if binp is None:
        ctx.notes.append("race build failed: " + blog[-500:])
        rp = chk.write_replay(ctx, "V2", "race harness does not build", {}, None, {"build_log": blog[-3000:]})
        ctx.violations.append({"kind": "V2", "what": "race harness build failed", "replay": rp, "found_input": False})
        return
    import random
    rng = random.Random(ctx.seed * 31 + 7)
    n = RACE_COUNTS[ctx.tier]
    cases = []
    for i in range(n):
        c = gen_case(rng)
        c["persist"] = "always" if i % 3 else "lazy"
        c["procs"] = [2, 4, 8, 1][i % 4]
        c["id"] = i
        cases.append(c)
    races, stalls, transient = 0, 0, 0
    reported = set()
    with cf.ThreadPoolExecutor(max_workers=6) as ex:
        for case, rc, err in ex.map(lambda c: _race_one(binp, c), cases):
            if rc == 66 or (isinstance(err, str) and "DATA RACE" in err):
                races += 1
                files = sorted(set(re.findall(r"/(cesium/[A-Za-z0-9_/]+\.go):\d+", err)) - {"cesium/verifh/c09/main.go"})
                key = tuple(files[:4])
                if key in reported:
                    continue
                reported.add(key)
                chk.report_case_violation(ctx, case, {"race": err[:6000], "race_files": files[:6]},
                                          "Go race detector reports a data race in cesium")
            elif rc == "timeout" or (isinstance(rc, dict) and rc.get("stall")) or (isinstance(err, str) and "STALL case" in err):
                # a stall under the race detector on a loaded machine may be slowness: it counts only if the same
                # case stalls again when re-run alone (a schedule-dependent deadlock may escape this, a false alarm may not)
                again = 0
                last_err = err if isinstance(err, str) else ""
                for _ in range(2):
                    _, rc2, err2 = _race_one(binp, case)
                    if rc2 == "timeout" or (isinstance(rc2, dict) and rc2.get("stall")) or (isinstance(err2, str) and "STALL case" in err2):
                        again += 1
                        last_err = err2 if isinstance(err2, str) else last_err
                if again >= 1:
                    stalls += 1
                    dump = os.path.join(vlib.BUILD, "c09_stall_%s.txt" % vlib.chash(case))
                    with open(dump, "w") as fh:
                        fh.write(last_err)
                    chk.report_case_violation(ctx, case, {"stall": True, "stderr": last_err[:6000], "full_dump": dump},
                                              "concurrent run stalled repeatedly (possible deadlock)")
                else:
                    transient += 1
    ctx.extra_cov["race_detector_cases"] = n
    ctx.extra_cov["race_reports"] = races
    ctx.extra_cov["stalls"] = stalls
    ctx.extra_cov["transient_stalls_not_reproduced"] = transient


READY = True
TECHNIQUE = "Coq proof (commutation of independent operations ⇒ every interleaving equals the serial composition; index inserts commute) + concurrent-vs-serial correspondence on the real DB with I/O-point schedule injection + race detector sampling"
DESIGN_REF = "DESIGN.md §8 C09, §13"
LEVEL_TEXT = ("Proved in Coq for all thread counts, lengths and schedules: operations that touch different channels, or "
              "disjoint stamps/regions of one channel group, or are reads/iterators/streamers/GC, commute "
              "(C09_independent_commute), hence every interleaving of cross-independent threads leaves exactly the "
              "content of running the threads one after another (C09_serialisable, via a generic interleaving theorem "
              "that also preserves per-step outputs). The content-level model is tied to /repo on every run: the real "
              "cesium.DB executes generated multi-thread scripts concurrently and serially; the model must predict the "
              "serial content, and the monitor demands concurrent content (in memory and after close+reopen) = serial "
              "content. Schedules are not only sampled: thread B is injected at every sampled I/O point of thread A (file-system calls, "
              "delete offset resolvers), at the cesium and at the domain level. Race and deadlock freedom are observed (-race, "
              "watchdog), not proved.")
LEVEL_NOTE = ("Partial by nature: the theorem is about the model's atomic steps; that the Go locks make them atomic, that "
              "no data race or deadlock exists, is sampled with the race detector over generated schedules at "
              "GOMAXPROCS 1/2/4/8 and enumerated at the I/O points of one thread. Found and fixed by this check: F3 (index.insert "
              "encoded pointers after releasing the lock), F70 (newReader opened the file before taking the lock GC holds), F71 "
              "(a delete straddling a GC file swap wrote back pre-compaction offsets), F72 (a reader used a pointer offset read "
              "before a GC pass it then waited for). Trusted: Coq kernel/vm_compute, model, harness, generator.")
