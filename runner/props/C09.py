"""C09 — concurrent cesium use is race-free and equivalent to a serial order."""
import json
import os
import subprocess
import sys
import concurrent.futures as cf

import vlib
from vlib import cZ, clist, cbool, coq_print

PID = "C09"
MODULE, PKG, BIN = "cesium", "./verifh/c09", "c09"
EXTRA_BUILDS = [("cesium", "./verifh/c09", "c09", True)]
COQ_IMPORTS = "From Synnax Require Import Common.Base Cesium.Serial Monitors.Mon_C09."
CASE_TYPE = "case_t"
COUNTS = {"quick": 120, "thorough": 3000}
RACE_COUNTS = {"quick": 24, "thorough": 600}
SHARD = 60
PROCS = 4
HARNESS_TIMEOUT = 900
RULE = ("each case: 1-3 channel groups (index+int64 data channel) pre-filled serially, then 2-4 threads run "
        "concurrently on ONE cesium.DB (GOMAXPROCS 1/2/4/8; always-persist or lazy index persistence; background GC "
        "every 3 ms at threshold 1e-4 in 60% of cases; file-size caps forcing rollover): a group's owner thread "
        "opens writers on fresh regions (commit each/end/auto), other threads DeleteTimeRange sub-ranges of older "
        "data (with/without the index channel), Read, iterate, open/close streamers, create/write/delete private "
        "channels. The same ops (those that reported success) are then run serially on a fresh DB. Non-trivial = "
        ">=2 threads with >=1 successful write and >=1 successful delete on the SAME group from different threads; "
        "distinct by hash. A second phase re-runs a subset under the Go race detector, one process per case.")
TRUSTED = ["cesium public API driven by hooks/cesium/verifh/c09 (no in-package hook needed)",
           "Go race detector and a 40 s watchdog (observation only)"]
ASSUMES = ["atomic steps of the model = cesium operations that reported success; the Go mutexes are assumed to make the "
           "modelled steps atomic (that assumption is what the race detector phase samples)"]
PARTIAL = ("Data-race freedom and absence of deadlock are properties of the Go memory model and scheduler: observed over "
           "sampled schedules with -race and a watchdog, not proved. The theorem covers serialisability of the "
           "content-level model for all interleavings of pairwise independent operations.")


def gen_case(rng):
    G = rng.choice([1, 1, 2, 2, 3])
    T = rng.choice([2, 3, 3, 4])
    setup = []
    old = {}
    for g in range(1, G + 1):
        doms = []
        for i in range(rng.randrange(2, 5)):
            start = 100 + 1000 * i
            n = rng.randrange(3, 11)
            step = rng.choice([1, 5, 10])
            setup.append({"op": "write", "g": g, "start": start, "n": n, "step": step,
                          "chunks": rng.choice([1, 1, 2, 3]), "commits": rng.choice(["each", "end", "auto"])})
            doms.append((start, n, step))
        old[g] = doms
    owner = {g: rng.randrange(T) for g in range(1, G + 1)}
    nxt = {g: 100000 for g in range(1, G + 1)}
    threads = []
    for t in range(T):
        ops = []
        priv = []
        for _ in range(rng.randrange(3, 9)):
            x = rng.random()
            g = rng.randrange(1, G + 1)
            if x < 0.35:
                own = [gg for gg in owner if owner[gg] == t]
                if not own:
                    x = 0.5
                else:
                    g = rng.choice(own)
                    n = rng.randrange(1, 9)
                    step = rng.choice([1, 2, 10])
                    ops.append({"op": "write", "g": g, "start": nxt[g], "n": n, "step": step,
                                "chunks": rng.choice([1, 2, 4]), "commits": rng.choice(["each", "end", "auto"])})
                    nxt[g] += rng.choice([n * step, n * step + 1, 1000])
                    continue
            if x < 0.6:
                s0, n, step = rng.choice(old[g])
                pts = [s0 + i * step for i in range(n)]
                a = rng.choice(pts + [s0 - 1, s0 + 1, 0]) + rng.choice([0, 0, 1, -1])
                b = max(a, rng.choice(pts + [pts[-1] + 1, pts[-1] + step * 3]) + rng.choice([0, 0, 1]))
                b = min(b, 99000)
                a = max(a, 0)
                ops.append({"op": "delete", "g": g, "a": a, "b": b, "index": rng.random() < 0.3 and a < b})
            elif x < 0.7:
                ops.append({"op": "read", "g": g, "a": 0, "b": 10 ** 9})
            elif x < 0.8:
                ops.append({"op": "iterate", "g": g, "a": 0, "b": 10 ** 9, "step": 10})
            elif x < 0.86:
                ops.append({"op": "stream", "g": g, "m": rng.choice([1, 3, 8])})
            else:
                if priv and rng.random() < 0.5:
                    k = priv.pop()
                    ops.append({"op": "delchan", "key": k})
                else:
                    k = 1000 + t * 10 + len([o for o in ops if o["op"] == "create"])
                    ops.append({"op": "create", "key": k})
                    ops.append({"op": "pwrite", "key": k, "start": rng.choice([5, 1000]), "n": rng.randrange(1, 5), "step": rng.choice([1, 7])})
                    priv.append(k)
        threads.append(ops)
    return {"procs": rng.choice([1, 2, 4, 8]), "persist": rng.choice(["always", "always", "lazy"]),
            "gc": rng.random() < 0.6, "filecap": rng.choice([0, 0, 160, 400]), "groups": G,
            "setup": setup, "threads": threads}


def gen_cases(rng, tier, n):
    return [gen_case(rng) for _ in range(n)]


def c_action(o):
    k = o["op"]
    if k == "write":
        st = [o["start"] + i * o["step"] for i in range(o["n"])]
        return "Write %s %s" % (cZ(o["g"]), clist([cZ(s) for s in st]))
    if k == "delete":
        return "Delete %s %s %s %s" % (cZ(o["g"]), cZ(o["a"]), cZ(o["b"]), cbool(o.get("index", False)))
    if k == "create":
        return "Create %s" % cZ(o["key"])
    if k == "pwrite":
        st = [o["start"] + i * o["step"] for i in range(o["n"])]
        return "PWrite %s %s" % (cZ(o["key"]), clist([cZ(s) for s in st]))
    if k == "delchan":
        return "DelChan %s" % cZ(o["key"])
    return "Noop"


def c_obs(chans):
    items = []
    for c in chans or []:
        rs = c.get("ranges") or []
        if rs and rs[0][0] == -1:
            items.append("(%s, None)" % cZ(c["key"]))
        else:
            items.append("(%s, Some %s)" % (cZ(c["key"]), clist([cZ(v) for v in (c.get("vals") or [])])))
    return clist(items)


def run_bad(o):
    if o.get("stall") or o.get("panic") or o.get("err"):
        return True
    if any(s != "ok" for s in (o.get("setup") or [])):
        return True
    for part in ("mem", "reopen"):
        if o.get(part) is None:
            return True
        for c in o.get(part) or []:
            rs = c.get("ranges") or []
            if rs and rs[0][0] == -2:
                return True
    return False


def to_coq(case, r):
    conc, ser = r["conc"], r["serial"]
    threads = []
    for ti, th in enumerate(case["threads"]):
        outs = (conc.get("outcomes") or [[]] * len(case["threads"]))[ti] if conc.get("outcomes") else []
        acts = [c_action(o) for oi, o in enumerate(th) if oi < len(outs) and outs[oi] == "ok"]
        threads.append(clist(acts))
    bad = run_bad(conc) or run_bad(ser)
    # (an op that succeeded concurrently but fails in THIS serial order is not by itself a violation:
    #  the property asks for SOME serial order; only a difference in readable content is flagged)
    return "(Case %s %s %s %s %s %s %s %s)" % (
        clist([cZ(g) for g in range(1, case["groups"] + 1)]),
        clist([c_action(o) for o in case["setup"]]),
        clist(threads),
        c_obs(conc.get("mem")), c_obs(conc.get("reopen")), c_obs(ser.get("mem")), c_obs(ser.get("reopen")),
        cbool(bad))


def nontrivial(case, r):
    outs = r["conc"].get("outcomes") or []
    wr, dl = {}, {}
    for ti, th in enumerate(case["threads"]):
        for oi, o in enumerate(th):
            if ti < len(outs) and oi < len(outs[ti]) and outs[ti][oi] == "ok":
                if o["op"] == "write":
                    wr.setdefault(o["g"], set()).add(ti)
                if o["op"] == "delete":
                    dl.setdefault(o["g"], set()).add(ti)
    return any(g in dl and (dl[g] - wr[g]) for g in wr)


def histogram(case, r):
    ks = ["procs=%d" % case["procs"], "persist=" + case["persist"], "gc=%s" % case["gc"],
          "filecap=%d" % case["filecap"], "threads=%d" % len(case["threads"])]
    outs = r["conc"].get("outcomes") or []
    for ti, th in enumerate(case["threads"]):
        for oi, o in enumerate(th):
            res = outs[ti][oi] if ti < len(outs) and oi < len(outs[ti]) else "?"
            ks.append("op=%s:%s" % (o["op"], res))
    return ks


def neighbours(case, rng):
    out = []
    for p in (1, 2, 8):
        c = json.loads(json.dumps(case))
        c["procs"] = p
        out.append(c)
    for pm in ("always", "lazy"):
        c = json.loads(json.dumps(case))
        c["persist"] = pm
        c["gc"] = True
        out.append(c)
    return out


def tags(case, r):
    t = set()
    if isinstance(r, dict) and r.get("race_files"):
        for f in r["race_files"]:
            t.add("race:" + f)
    return t


def harness_violation(case, r):
    for part in ("conc", "serial"):
        o = r.get(part) or {}
        if o.get("panic"):
            return "%s run panicked: %s" % (part, o["panic"])
        if o.get("stall"):
            return "%s run stalled (no completion within 40 s)" % part
    return None


def model_dump(case, r):
    return coq_print(PID, COQ_IMPORTS, "Eval vm_compute in model_dump %s." % to_coq(case, r))[-6000:]


def _race_one(binp, case):
    env = dict(os.environ)
    env["GORACE"] = "halt_on_error=1 exitcode=66"
    try:
        p = subprocess.run([binp], input=json.dumps(case) + "\n", capture_output=True, text=True, timeout=240, env=env)
    except subprocess.TimeoutExpired:
        return case, {"stall": True}, "timeout"
    return case, p.returncode, p.stderr


def extra(ctx):
    """race-detector phase: one process per case so a report is attributable"""
    import re
    chk = sys.modules.get("check") or sys.modules["__main__"]
    binp, blog = vlib.go_build(MODULE, PKG, BIN, race=True)
    if binp is None:
        ctx.notes.append("race build failed: " + blog[-500:])
        rp = chk.write_replay(ctx, "V2", "race harness does not build", {}, None, {"build_log": blog[-3000:]})
        ctx.violations.append({"kind": "V2", "what": "race harness build failed", "replay": rp, "found_input": False})
        return
    import random
    rng = random.Random(ctx.seed * 31 + 7)
    n = RACE_COUNTS[ctx.tier]
    cases = []
    for i in range(n):
        c = gen_case(rng)
        c["persist"] = "always" if i % 3 else "lazy"
        c["procs"] = [2, 4, 8, 1][i % 4]
        c["id"] = i
        cases.append(c)
    races, stalls = 0, 0
    reported = set()
    with cf.ThreadPoolExecutor(max_workers=6) as ex:
        for case, rc, err in ex.map(lambda c: _race_one(binp, c), cases):
            if rc == 66 or (isinstance(err, str) and "DATA RACE" in err):
                races += 1
                files = sorted(set(re.findall(r"/(cesium/[A-Za-z0-9_/]+\.go):\d+", err)) - {"cesium/verifh/c09/main.go"})
                key = tuple(files[:4])
                if key in reported:
                    continue
                reported.add(key)
                chk.report_case_violation(ctx, case, {"race": err[:6000], "race_files": files[:6]},
                                          "Go race detector reports a data race in cesium")
            elif rc == "timeout" or (isinstance(rc, dict) and rc.get("stall")) or (isinstance(err, str) and "STALL case" in err):
                stalls += 1
                chk.report_case_violation(ctx, case, {"stall": True, "stderr": (err or "")[:6000] if isinstance(err, str) else ""},
                                          "concurrent run stalled (possible deadlock)")
    ctx.extra_cov["race_detector_cases"] = n
    ctx.extra_cov["race_reports"] = races
    ctx.extra_cov["stalls"] = stalls


READY = True
TECHNIQUE = "Coq proof (commutation of independent operations ⇒ every interleaving equals the serial composition) + concurrent-vs-serial correspondence on the real DB + race detector sampling"
DESIGN_REF = "DESIGN.md §8 C09, §13"
LEVEL_TEXT = ("Proved in Coq for all thread counts, lengths and schedules: operations that touch different channels, or "
              "disjoint stamps/regions of one channel group, or are reads/iterators/streamers/GC, commute "
              "(C09_independent_commute), hence every interleaving of cross-independent threads leaves exactly the "
              "content of running the threads one after another (C09_serialisable, via a generic interleaving theorem "
              "that also preserves per-step outputs). The content-level model is tied to /repo on every run: the real "
              "cesium.DB executes generated multi-thread scripts concurrently and serially; the model must predict the "
              "serial content, and the monitor demands concurrent content (in memory and after close+reopen) = serial "
              "content. Race and deadlock freedom are observed (-race, watchdog), not proved.")
LEVEL_NOTE = ("Partial by nature: the theorem is about the model's atomic steps; that the Go locks make them atomic, that "
              "no data race or deadlock exists, is sampled with the race detector over generated schedules at "
              "GOMAXPROCS 1/2/4/8. Found and fixed: F3 (index.insert encoded pointers after releasing the lock — "
              "race with DeleteTimeRange on the same channel). Trusted: Coq kernel/vm_compute, model, harness, generator.")
