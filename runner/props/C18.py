"""C18 — access is granted exactly when a role's policy covers every object."""
import json
from vlib import clist, cpair, cbytes, cbool, coq_print

PID = "C18"
MODULE, PKG, BIN = "core", "./verifh/c18", "c18"
COQ_IMPORTS = "From Synnax Require Import Common.Base Core.Ontology Core.Rbac Monitors.Mon_C18."
CASE_TYPE = "case_t"
COUNTS = {"quick": 360, "thorough": 4000}
SHARD = 30
HARNESS_TIMEOUT = 1500

SUBJECTS = [("user", "u1"), ("user", "u2"), ("user", "u10"), ("user", "u1x")]
OBJECTS = [("channel", "1"), ("channel", "10"), ("channel", "2"), ("channel", ""), ("rack", "1"), ("rack", ""),
           ("range", "r"), ("", ""), ("", "1"), ("chan", "1"), ("chan", "")]
ACTIONS = ["retrieve", "create", "delete", "update", "x"]
NROLES, NPOLS = 3, 4

RULE = ("histories of 8-30 ops over 1-3 subjects (user:u1, u2, u10, u1x; some never defined), 1-3 roles, 1-4 policies "
        "(0-3 objects each — none = absent (nil) or empty field —, type-level (key '') and instance-level, over types channel/chan/rack/range and the zero "
        "id; 0-3 actions): create/delete role and policy (also delete-then-recreate with the same key), SetOnRole, "
        "Assign/Unassign, define/delete subject, making the Users group a parent of subjects / policies (non-role "
        "parents must grant nothing), begin/commit/abort, object lists re-checked through one reused slice (other subjects, before/after assign/unassign; a list "
        "rewritten by Enforce is reported), refused deletes of internal roles followed by a check, one-transaction role replacement (unassign then re-assign the same role, checked on the "
        "committed view after commit) (30% of the histories on an ontology whose relationship indexes failed to populate at "
        "open, i.e. on the raw-scan fallback of the parents traversal), interleaved with Enforce requests (0-3 objects "
        "mixing covered and uncovered ones, through the open transaction and against the committed view) so that a "
        "check follows directly on a change. Non-trivial = at least one Allow and one Deny verdict and a revocation "
        "(unassign / delete role / delete policy / delete subject / abort) after an Allow; distinct by hash.")
TRUSTED = ["hook core/pkg/service/access/rbac/export_verif.go (VerifService: rbac.Service assembled from opened policy "
           "and role services without provisioning built-ins); hook ontology/export_verif.go (VerifScan)",
           "ontology, group, search, policy and role services over gorp.Wrap(memkv.New()) run for real; the random "
           "key of the 'Users' group and the UUID keys of the case alphabet are renamed to short aliases (users-group, "
           "k<n>) in the dumps — an injective renaming that preserves all prefix/suffix relations between keys"]
ASSUMES = ["one transaction open at a time", "role / policy keys are UUIDs, subject and object identifiers contain no "
           "'->' and their types are not extensions of 'role' / 'policy' (theorem guards)"]
PARTIAL = None


def uk(n):
    # the harness reports the UUID 00000000-0000-0000-0000-<n> under the alias "k<n>"
    return "k%d" % n


def mkid(tk):
    return {"t": tk[0], "k": tk[1]}


def gen_policy(rng, k):
    # policies without objects and / or without actions (field absent = nil, or present but empty) cover nothing
    objs = [mkid(rng.choice(OBJECTS)) for _ in range(rng.choice([0, 1, 1, 1, 2, 2, 3]))]
    acts = rng.sample(ACTIONS, rng.choice([0, 1, 1, 1, 2, 3]))
    return {"op": "policy", "k": k, "objs": objs, "acts": acts, "internal": rng.random() < 0.08,
            "allow": rng.random() < 0.9, "objs_empty": rng.random() < 0.4, "acts_empty": rng.random() < 0.4}


def gen_enforce(rng, subs, pols, in_tx):
    s = rng.choice(subs) if rng.random() < 0.9 else rng.choice(SUBJECTS)
    objs = []
    for _ in range(rng.choice([0, 1, 1, 1, 2, 2, 3])):
        x = rng.random()
        withobjs = [p for p in pols if p["objs"]]
        if withobjs and x < 0.6:
            po = rng.choice(rng.choice(withobjs)["objs"])
            if po["k"] == "" and rng.random() < 0.7:
                objs.append({"t": po["t"], "k": rng.choice(["1", "10", "zz"])})
            else:
                objs.append(dict(po))
        else:
            objs.append(mkid(rng.choice(OBJECTS)))
    withacts = [p for p in pols if p["acts"]]
    if withacts and rng.random() < 0.75:
        act = rng.choice(rng.choice(withacts)["acts"])
    else:
        act = rng.choice(ACTIONS)
    return {"op": "enforce", "s": mkid(s), "act": act, "objs": objs,
            "committed": in_tx and rng.random() < 0.3}


def gen_case(rng):
    subs = rng.sample(SUBJECTS, rng.choice([1, 2, 2, 3]))
    nr = rng.choice([1, 2, 2, 3])
    np_ = rng.choice([1, 2, 3, 3, 4])
    ops = []
    in_tx = False
    pols = []
    if rng.random() < 0.25:
        ops.append({"op": "begin"})
        in_tx = True
    for s in subs:
        if rng.random() < 0.9:
            ops.append({"op": "subject", "s": mkid(s)})
    for r in range(1, nr + 1):
        if rng.random() < 0.92:
            ops.append({"op": "role", "k": r, "internal": rng.random() < 0.1, "allow": rng.random() < 0.9})
    for p in range(1, np_ + 1):
        if rng.random() < 0.92:
            o = gen_policy(rng, p)
            pols.append(o)
            ops.append(o)
    for r in range(1, nr + 1):
        ks = [p for p in range(1, np_ + 1) if rng.random() < 0.5]
        if ks:
            ops.append({"op": "seton", "r": r, "ks": ks})
    for s in subs:
        for r in range(1, nr + 1):
            if rng.random() < 0.5:
                ops.append({"op": "assign", "s": mkid(s), "r": r})
    if rng.random() < 0.3:
        # the real layout: users are children of the Users group; sometimes a policy is moved there too
        for s in subs:
            if rng.random() < 0.7:
                ops.append({"op": "gadd", "s": mkid(s)})
        for p in range(1, np_ + 1):
            if rng.random() < 0.4:
                ops.append({"op": "gadd", "k": p, "s": mkid(("", ""))})
    if rng.random() < 0.35:
        # "replace the subject's roles" inside ONE transaction: unassign and re-assign (or assign / unassign /
        # assign) the SAME role, commit, then check against the committed view
        if in_tx:
            ops.append({"op": rng.choice(["commit", "commit", "abort"])})
        s, r = mkid(rng.choice(subs)), rng.randrange(1, nr + 1)
        ops.append({"op": "begin"})
        for k in rng.choice([["unassign", "assign"], ["unassign", "assign"], ["assign", "unassign", "assign"],
                             ["unassign", "assign", "unassign"], ["assign", "unassign"]]):
            ops.append({"op": k, "s": s, "r": r})
            if rng.random() < 0.3:
                ops.append(gen_enforce(rng, subs, pols, True))
        ops.append({"op": "commit" if rng.random() < 0.9 else "abort"})
        in_tx = False
        for _ in range(rng.choice([1, 2])):
            e = gen_enforce(rng, subs, pols, False)
            e["s"] = s
            ops.append(e)
    if rng.random() < 0.25:
        # one role carrying a populated policy next to policies whose Objects or Actions are absent, in both key
        # orders (policies are loaded in key order): no single policy grants the second action on the object
        s, r = mkid(rng.choice(subs)), rng.randrange(1, nr + 1)
        ka, kb, kc = rng.sample(range(1, 6), 3)
        t = rng.choice(["channel", "rack", "chan"])
        a1, a2 = rng.sample(ACTIONS, 2)
        full = {"op": "policy", "k": ka, "objs": [mkid((t, rng.choice(["", "1"])))], "acts": [a1],
                "internal": False, "allow": True}
        noobj = {"op": "policy", "k": kb, "objs": [], "acts": [a2], "internal": False, "allow": True,
                 "objs_empty": rng.random() < 0.3}
        noact = {"op": "policy", "k": kc, "objs": [mkid((t, ""))], "acts": [], "internal": False, "allow": True,
                 "acts_empty": rng.random() < 0.3}
        chosen = [full] + rng.sample([noobj, noact], rng.choice([1, 2]))
        rng.shuffle(chosen)
        pols += [c for c in chosen if c["objs"] and c["acts"]]
        ops += chosen + [{"op": "role", "k": r, "internal": False, "allow": True},
                         {"op": "seton", "r": r, "ks": [c["k"] for c in chosen]}, {"op": "assign", "s": s, "r": r}]
        for act in (a2, a1, rng.choice(ACTIONS)):
            ops.append({"op": "enforce", "s": s, "act": act, "objs": [mkid((t, "1"))], "committed": False})
    if rng.random() < 0.3 and pols:
        # one object list (a covered object first, an uncovered one behind it, ...) checked several times through
        # the SAME slice: for different subjects and before / after an assign or unassign
        base = gen_enforce(rng, subs, pols, in_tx)
        po = rng.choice(rng.choice([p for p in pols if p["objs"]] or [{"objs": [mkid(("channel", "1"))]}])["objs"])
        cov = {"t": po["t"], "k": po["k"] or "1"}
        base["objs"] = [cov] + [mkid(rng.choice(OBJECTS)) for _ in range(rng.choice([1, 1, 2]))]
        if rng.random() < 0.3:
            rng.shuffle(base["objs"])
        ops.append(base)
        for _ in range(rng.choice([1, 2, 3])):
            if rng.random() < 0.5:
                ops.append({"op": rng.choice(["assign", "unassign"]), "s": mkid(rng.choice(subs)),
                            "r": rng.randrange(1, nr + 1)})
            e = dict(base)
            e["reuse"] = True
            e["s"] = mkid(rng.choice(subs))
            if rng.random() < 0.3:
                e["act"] = rng.choice(ACTIONS)
            e["committed"] = in_tx and rng.random() < 0.3
            ops.append(e)
    if rng.random() < 0.15:
        # a delete of an internal role through a writer without allowInternal is refused: a failed mutation must
        # not change any later verdict
        s, r = mkid(rng.choice(subs)), nr + 1
        pk = rng.randrange(1, np_ + 1)
        ops += [{"op": "role", "k": r, "internal": True, "allow": True}, {"op": "seton", "r": r, "ks": [pk]},
                {"op": "assign", "s": s, "r": r}]
        e = gen_enforce(rng, subs, pols, in_tx)
        e["s"] = s
        ops += [e, {"op": "delrole", "k": r, "allow": False}, dict(e)]
    for _ in range(rng.randrange(4, 16)):
        x = rng.random()
        if x < 0.45:
            ops.append(gen_enforce(rng, subs, pols, in_tx))
            continue
        if x < 0.52:
            ops.append({"op": "unassign", "s": mkid(rng.choice(subs)), "r": rng.randrange(1, nr + 1)})
        elif x < 0.58:
            ops.append({"op": "assign", "s": mkid(rng.choice(subs)), "r": rng.randrange(1, nr + 2)})
        elif x < 0.64:
            ops.append({"op": "delrole", "k": rng.randrange(1, nr + 1), "allow": rng.random() < 0.9})
        elif x < 0.70:
            ops.append({"op": "delpolicy", "ks": rng.sample(range(1, np_ + 1), rng.choice([1, 1, min(2, np_)]))})
        elif x < 0.76:
            o = gen_policy(rng, rng.randrange(1, np_ + 1))
            pols.append(o)
            ops.append(o)
        elif x < 0.80:
            ops.append({"op": "role", "k": rng.randrange(1, nr + 1), "internal": False, "allow": True})
        elif x < 0.85:
            ops.append({"op": "seton", "r": rng.randrange(1, nr + 1),
                        "ks": rng.sample(range(1, np_ + 2), rng.choice([1, 2]))})
        elif x < 0.88:
            ops.append({"op": rng.choice(["delsubject", "subject"]), "s": mkid(rng.choice(subs))})
        elif x < 0.93:
            # the Users group becomes (or stops being) a parent of a subject / of a policy: parents that are
            # not roles must not grant anything
            if rng.random() < 0.5:
                ops.append({"op": rng.choice(["gadd", "gadd", "gremove"]), "s": mkid(rng.choice(subs))})
            else:
                ops.append({"op": rng.choice(["gadd", "gadd", "gremove"]), "k": rng.randrange(1, np_ + 1),
                            "s": mkid(("", ""))})
        elif in_tx:
            ops.append({"op": rng.choice(["commit", "commit", "abort"])})
            in_tx = False
        else:
            ops.append({"op": "begin"})
            in_tx = True
        # the very next check
        if rng.random() < 0.8:
            ops.append(gen_enforce(rng, subs, pols, in_tx))
    # flavour: the relationship indexes failed to populate at open, ParentsTraverser runs on its raw scan
    return {"subjects": [mkid(s) for s in subs], "ops": ops, "scan": rng.random() < 0.3}


def gen_cases(rng, tier, n):
    return [gen_case(rng) for _ in range(n)]


ERR = {"ok": "EOk", "notfound": "ENotFound", "cyclic": "ECyclic", "validation": "EValidation"}


def c_str(s):
    return cbytes(s.encode("utf-8")) if s else "[]"


WORDS = sorted({w for tk in SUBJECTS + OBJECTS for w in tk} | set(ACTIONS) |
               {"role", "policy", "group", "users-group", "builtin", "root", "parent", "10", "zz"})
WIX = {w: n for n, w in enumerate(WORDS)}
COQ_EXTRA = "\n".join(
    ["Definition w%d : str := %s." % (n, c_str(w)) for w, n in WIX.items()] +
    ["Definition u%d : str := %s." % (n, c_str(uk(n))) for n in range(0, 8)] +
    ["Definition ii (t k : str) : id := Id t k.",
     "Definition rr (a : raw_id) (t : str) (b : raw_id) : raw_rel := (a, t, b).",
     "Definition pp (k : str) (o : list raw_id) (a : list str) (i : bool) : raw_pol := (k, (o, a, i))."])
UIX = {uk(n): "u%d" % n for n in range(0, 8)}


def c_word(s):
    if s in UIX:
        return UIX[s]
    n = WIX.get(s)
    return "w%d" % n if n is not None else c_str(s)


def c_raw_id(p):
    return cpair(c_word(p[0]), c_word(p[1]))


def c_id(i):
    return "(ii %s %s)" % (c_word(i["t"]), c_word(i["k"]))


def c_key(n):
    return c_word(uk(n))


def c_op(o):
    k = o["op"]
    if k == "role":
        return "RCreateRole %s %s %s" % (c_key(o["k"]), cbool(o.get("internal")), cbool(o.get("allow")))
    if k == "delrole":
        return "RDeleteRole %s %s" % (c_key(o["k"]), cbool(o.get("allow")))
    if k == "policy":
        return "RCreatePolicy %s (Pol %s %s %s) %s" % (
            c_key(o["k"]), clist([c_id(x) for x in o.get("objs") or []]),
            clist([c_word(a) for a in o.get("acts") or []]), cbool(o.get("internal")), cbool(o.get("allow")))
    if k == "delpolicy":
        return "RDeletePolicies %s" % clist([c_key(x) for x in o.get("ks") or []])
    if k == "seton":
        return "RSetOnRole %s %s" % (c_key(o["r"]), clist([c_key(x) for x in o.get("ks") or []]))
    if k == "assign":
        return "RAssign %s %s" % (c_id(o["s"]), c_key(o["r"]))
    if k == "unassign":
        return "RUnassign %s %s" % (c_id(o["s"]), c_key(o["r"]))
    if k == "subject":
        return "RSubject %s" % c_id(o["s"])
    if k == "delsubject":
        return "RDelSubject %s" % c_id(o["s"])
    if k in ("gadd", "gremove"):
        tgt = "(policy_id %s)" % c_key(o["k"]) if o.get("k") else c_id(o["s"])
        return "%s %s" % ("RGroupAdd" if k == "gadd" else "RGroupRemove", tgt)
    if k == "enforce":
        return "REnforce %s %s %s %s" % (c_id(o["s"]), c_word(o["act"]), clist([c_id(x) for x in o.get("objs") or []]),
                                         cbool(o.get("committed")))
    return {"begin": "RBegin", "commit": "RCommit", "abort": "RAbort"}[k]


def c_view(v):
    return cpair(clist([c_raw_id(r) for r in v.get("res") or []]),
                 clist(["rr %s %s %s" % (c_raw_id(r[0:2]), c_word(r[2]), c_raw_id(r[3:5])) for r in v.get("rels") or []]),
                 clist(["pp %s %s %s %s" % (c_word(p["k"]), clist([c_raw_id(x) for x in p["objs"] or []]),
                                            clist([c_word(a) for a in p["acts"] or []]), cbool(p["internal"]))
                        for p in v.get("pols") or []]),
                 clist([cpair(c_word(r["k"]), cbool(r["internal"])) for r in v.get("roles") or []]))


def c_outcome(o, e):
    if o["op"] == "enforce":
        if e == "ok":
            return "OVerdict Allow"
        if e == "denied":
            return "OVerdict Deny"
        return "OVerdict (Fail %s)" % ERR[e]
    return "OErr %s" % ERR[e]


def harness_violation(case, r):
    if r.get("panic"):
        return "panic: " + r["panic"]
    for k, (o, s) in enumerate(zip(case["ops"], r.get("steps") or [])):
        if s.get("mutated"):
            return ("Enforce (op #%d) rewrote the caller's object list %s into %s: a later check of the same list "
                    "no longer decides about the requested objects"
                    % (k, [x["t"] + ":" + x["k"] for x in o.get("objs") or []],
                       [a + ":" + b for a, b in s.get("mutated_to") or []]))
    for o, s in zip(case["ops"], r.get("steps") or []):
        e = s["err"]
        if e not in ERR and not (o["op"] == "enforce" and e == "denied"):
            return "unexpected error from %s: %s" % (o["op"], e[:200])
        for rp in s.get("rp") or []:
            if rp["e"] not in ERR:
                return "unexpected error from RetrievePoliciesForSubject: " + rp["e"][:200]
    if len(r.get("steps") or []) != len(case["ops"]):
        return "harness returned %d steps for %d ops" % (len(r.get("steps") or []), len(case["ops"]))
    return None


def to_coq(case, r):
    steps = []
    for o, s in zip(case["ops"], r["steps"]):
        ob = cpair(c_outcome(o, s["err"]), c_view(s["v"]), "None" if s["cv"] == s["v"] else "(Some %s)" % c_view(s["cv"]),
                   clist([cpair(ERR[x["e"]], clist([c_word(k) for k in x["k"] or []])) for x in s["rp"] or []]))
        steps.append(cpair(c_op(o), ob))
    return cpair(clist([c_raw_id((i["t"], i["k"])) for i in case["subjects"]]), c_view(r["init"]), clist(steps))


REVOKE = ("unassign", "delrole", "delpolicy", "delsubject", "abort")


def nontrivial(case, r):
    allow = deny = 0
    rev_after_allow = False
    for o, s in zip(case["ops"], r["steps"]):
        if o["op"] == "enforce":
            if s["err"] == "ok":
                allow += 1
            elif s["err"] == "denied":
                deny += 1
        elif o["op"] in REVOKE and allow:
            rev_after_allow = True
    return allow >= 1 and deny >= 1 and rev_after_allow


def fixup(case):
    """after shrinking: a reuse flag only makes sense behind an Enforce over the same object list"""
    last = None
    for o in case["ops"]:
        if o["op"] == "enforce":
            if o.get("reuse") and (last is None or last != o.get("objs")):
                o["reuse"] = False
            last = o.get("objs")
    return case


def histogram(case, r):
    ks = ["subjects=%d" % len(case["subjects"]), "ops=%d" % (len(case["ops"]) // 5 * 5),
          "flavour=%s" % ("scan-fallback" if case.get("scan") else "indexed")]
    prev = None
    for o, s in zip(case["ops"], r.get("steps") or []):
        e = s["err"] if (s["err"] in ERR or s["err"] == "denied") else "other"
        ks.append("op=%s/%s" % (o["op"], e))
        if o["op"] == "enforce":
            ks.append("enforce_objs=%d" % len(o.get("objs") or []))
            if prev and prev != "enforce":
                ks.append("next_check_after=%s/%s" % (prev, e))
            if o.get("committed"):
                ks.append("enforce_committed_view_in_tx")
            if o.get("reuse"):
                ks.append("enforce_reuses_previous_object_slice")
        prev = o["op"]
    return ks


def tags(case, r):
    return set()


def neighbours(case, rng):
    out = []
    for i in range(len(case["ops"])):
        c = json.loads(json.dumps(case))
        del c["ops"][i]
        out.append(c)
    for i, o in enumerate(case["ops"]):
        if o["op"] != "enforce":
            for s in case["subjects"]:
                for act in ("retrieve", "delete"):
                    for ob in (("channel", "1"), ("channel", "10"), ("rack", "1")):
                        c = json.loads(json.dumps(case))
                        c["ops"].insert(i + 1, {"op": "enforce", "s": s, "act": act, "objs": [mkid(ob)],
                                                "committed": False})
                        out.append(c)
    return out[:400]


def model_dump(case, r):
    t = to_coq(case, r)
    return coq_print(PID, COQ_IMPORTS, COQ_EXTRA + "\nEval vm_compute in model_dump (%s)." % t)[-8000:]


READY = True
TECHNIQUE = ("Coq proof (allowRequest = forall-exists formula; Enforce = formula over ontology edges via the C16 "
             "traversal theorems; forward simulation between the model and a set-based reference configuration over "
             "all histories) + model/impl correspondence by vm_compute")
DESIGN_REF = "DESIGN.md §8 C18"
LEVEL_TEXT = ("Machine-checked Coq theorems over an executable Gallina copy of the RBAC stack built on the C16 ontology "
              "model (ResolveSubjects as subject -> parents filtered by the 'role' key prefix -> children filtered by "
              "the 'policy' prefix and by the policy service lookup; retrievePolicies; allowRequest; role / policy "
              "writers; copy-on-write transactions): allowRequest is exactly the property's forall-object "
              "exists-policy formula (C18_allow_request_spec); on every well-formed configuration Enforce allows iff "
              "the subject exists and every object is covered by a live policy attached to a role assigned to the "
              "subject, otherwise Deny, or NotFound for an unknown subject (C18_enforce_iff); and for EVERY history of "
              "create/delete role and policy, SetOnRole, assign/unassign, define/delete subject inside committed and "
              "aborted transactions, every request at every point gets Allow iff the formula holds of the set-based "
              "reference configuration the history builds, in the transaction's view and in the committed view "
              "(C18_history_enforce_iff, C18_history_all_checks) — which contains the 'very next check' clause. The "
              "model is tied to /repo on every run by driving the real policy/role services and the rbac Enforcer "
              "over ontology+memkv through generated histories, comparing all four tables in both views, "
              "RetrievePoliciesForSubject of every subject and every Enforce verdict inside Coq; the monitor evaluates "
              "the reference configuration on the implementation's own outcomes and yields the replay.")
LEVEL_NOTE = ("Trusted: Coq kernel/vm_compute; hand-written model (tied by correspondence); harness + hooks "
              "(VerifService assembles rbac.Service without provisioning built-ins; VerifScan); UUID keys and the "
              "Users-group key are reported under short aliases; generator. Theorems closed under the global context. "
              "F12 (role.Delete left the ontology resource: deleted role's policies still granted) and F26 "
              "(policy.Delete left the ontology resource and role->policy edges: a policy re-created under the same "
              "key was attached to its former roles at once) were reproduced by this check and repaired by fix: "
              "commits; C18_f12_role_delete_refuted / C18_f26_policy_delete_refuted keep the witnesses. Guards: role / "
              "policy keys and subjects are good identifiers (no '->', see C16 F20), subject types do not extend "
              "'role' / 'policy' (WhereTypes is a key-prefix test). Not modelled: built-in provisioning and legacy "
              "migrations, Internal-flag semantics beyond the writer guards, interleaved transactions.")
