"""C03 — cesium never stores overlapping data; conflicting writes fail cleanly."""
import json
from vlib import cN, cZ, clist, cpair, coq_print

PID = "C03"
MODULE, PKG, BIN = "cesium", "./verifh/c03", "c03"
COQ_IMPORTS = "From Synnax Require Import Common.Base Common.Telem Cesium.Domain Monitors.Mon_C03."
CASE_TYPE = "case_t"
COUNTS = {"quick": 1500, "thorough": 40000}
SHARD = 250
MAXTS = 2 ** 63 - 1

RULE = ("histories of 4-20 ops over up to 5 concurrently open domain writers on ONE channel of a fresh in-memory "
        "domain.DB: open(w,start,end?) / write(w,1-6 bytes) / commit(w,end) / close(w) / delete(a,b); stamps from a "
        "14-point alphabet {0,1,5,10,12,15,20,21,25,30,40,50,MAX-1,MAX} (+-1 jitter 10%) so adjacency, zero-length "
        "commits, preset ends and gap filling by another writer are frequent; file size cap drawn from "
        "{default,5,10,16,40} bytes so file roll-over happens in ~half of the cases; ~75% of ops are chosen legal, the "
        "rest are conflicting opens/commits, backwards commits, commits past a preset end, ops on closed or unknown "
        "writers, inverted preset ends, deletes not gated by open writers (6%). Non-trivial = at least one rejected "
        "op (validation/conflict) and at least 2 surviving domains at the end; distinct by hash.")
TRUSTED = ["hook cesium/internal/domain/export_verif_c03.go (read-only copies of the index pointers, the two "
           "file-size limits, and a writer's file key)",
           "harness drives the real domain.DB/Writer/Iterator/Delete on x/io/fs MemFS with linear offset resolvers "
           "(1 byte per tick); error classes by errors.Is against ErrWriteConflict/ErrValidation/ErrNotFound/ErrClosed"]
ASSUMES = ["time stamps lie in [TimeStampMin, TimeStampMax] = [0, 2^63-1] (TimeRange.Span cannot wrap)",
           "every data file stays below 2^32 bytes (pointer offsets/sizes are uint32 in the Go code) and fewer than "
           "65536 files",
           "deletes are issued only at or before the start of every open writer (unary.DB.delete holds an absolute "
           "control gate over the range); the model covers ungated deletes too, the monitor makes no demand on "
           "writers they reach",
           "sequential histories (races are C09)"]
PARTIAL = None

ALPHA = [0, 1, 5, 10, 12, 15, 20, 21, 25, 30, 40, 50, MAXTS - 1, MAXTS]


def stamp(rng, lo=None):
    xs = ALPHA if lo is None else [x for x in ALPHA if x > lo] or [MAXTS]
    t = rng.choice(xs)
    if rng.random() < 0.10:
        t = min(MAXTS, max(0, t + rng.choice([-1, 1])))
    return t


def gen_case(rng):
    fsz = rng.choice([0, 0, 5, 10, 10, 16, 40])
    nops = rng.randrange(4, 21)
    ops = []
    live = {}      # w -> dict(start, end, prev)
    dead = []
    nextw = 1
    ctr = rng.randrange(0, 200)
    domains = []   # rough list of committed (s, e) for biasing only
    for _ in range(nops):
        x = rng.random()
        if not live or (x < 0.22 and len(live) < 5):
            start = stamp(rng)
            y = rng.random()
            if y < 0.68:
                end = 0
            elif y < 0.93:
                end = stamp(rng, start)
            elif y < 0.97:
                end = start
            else:
                end = max(1, start - rng.choice([1, 3, 5]))   # inverted preset end (malformed)
            if domains and rng.random() < 0.25:
                s, e = rng.choice(domains)
                start = rng.choice([s, e, max(s, e - 1), (s + e) // 2])
                if end != 0 and rng.random() < 0.5:
                    end = min(MAXTS, max(1, start + rng.choice([-5, -1, 0, 1, 5, 30])))
            w = nextw
            nextw += 1
            ops.append({"op": "open", "w": w, "start": start, "end": end})
            live[w] = {"start": start, "end": end, "prev": None}
            continue
        if x < 0.50:
            w = rng.choice(list(live))
            n = rng.randrange(1, 7)
            data = [(ctr + i) % 251 for i in range(n)]
            ctr += n
            ops.append({"op": "write", "w": w, "data": data})
        elif x < 0.80:
            w = rng.choice(list(live))
            st = live[w]
            y = rng.random()
            if y < 0.62:
                end = stamp(rng, st["prev"] if st["prev"] is not None else st["start"])
            elif y < 0.72 and domains:
                s, e = rng.choice(domains)
                end = min(MAXTS, rng.choice([s, e, s + 1]))
            elif y < 0.80:
                end = min(MAXTS, st["start"] + rng.randrange(1, 7))      # about one tick per byte
            elif y < 0.90:
                end = stamp(rng)                              # anything, often backwards
            elif y < 0.95:
                end = st["start"]                             # zero-length commit
            else:
                end = (st["prev"] or st["start"]) - 1 if (st["prev"] or st["start"]) > 0 else 0
            ops.append({"op": "commit", "w": w, "end": end})
            st["prev"] = end
            if end > st["start"]:
                domains.append((st["start"], end if st["end"] == 0 else st["end"]))
        elif x < 0.88:
            w = rng.choice(list(live))
            ops.append({"op": "close", "w": w})
            dead.append(w)
            del live[w]
        elif x < 0.96:
            y = rng.random()
            lim = min([v["start"] for v in live.values()] or [MAXTS])
            if y < 0.75:
                cands = [t for t in ALPHA if t <= lim] or [0]
                b = rng.choice(cands)
                a = rng.choice([t for t in ALPHA if t <= b])
                if domains and rng.random() < 0.5:
                    s, e = rng.choice(domains)
                    a = max(0, min(b, rng.choice([s, s + 1, (s + e) // 2, e])))
            else:
                a, b = stamp(rng), stamp(rng)
                if a > b and rng.random() < 0.7:
                    a, b = b, a
            ops.append({"op": "delete", "a": a, "b": b})
        else:
            # malformed: op on a closed / unknown writer, or re-open of an existing id
            y = rng.random()
            w = rng.choice(dead) if dead and y < 0.6 else rng.choice([nextw + 3, 1])
            k = rng.choice(["write", "commit", "close", "open"])
            if k == "write":
                ops.append({"op": "write", "w": w, "data": [7]})
            elif k == "commit":
                ops.append({"op": "commit", "w": w, "end": stamp(rng)})
            elif k == "close":
                ops.append({"op": "close", "w": w})
            else:
                ops.append({"op": "open", "w": w, "start": stamp(rng), "end": 0})
                if w not in live and w not in dead:
                    live[w] = {"start": ops[-1]["start"], "end": 0, "prev": None}
                    nextw = max(nextw, w + 1)
    return {"file_size": fsz, "ops": ops}


def gen_cases(rng, tier, n):
    return [gen_case(rng) for _ in range(n)]


RES = {"ok": "ROk", "conflict": "(RErr EConflict)", "validation": "(RErr EValidation)",
       "notfound": "(RErr ENotFound)", "closed": "(RErr EClosed)", "other": "(RErr EOther)",
       "panic": "(RErr EPanic)", "badop": "RBadOp"}


def c_op(o, key):
    k = o["op"]
    if k == "open":
        return "Open %s %s %s %s" % (cN(o["w"]), cZ(o["start"]), cZ(o["end"]), cN(key))
    if k == "write":
        return "Write %s %s" % (cN(o["w"]), clist([cN(b) for b in o["data"]]))
    if k == "commit":
        return "Commit %s %s %s" % (cN(o["w"]), cZ(o["end"]), cN(key))
    if k == "close":
        return "Close %s" % cN(o["w"])
    return "Delete %s %s" % (cZ(o["a"]), cZ(o["b"]))


def c_obs(s):
    if s["cls"] == "panic":
        return "None"
    it = clist([cpair(cZ(r[0]), cZ(r[1]), cN(r[2]), clist([cN(b) for b in r[3]])) for r in s["iter"]])
    ps = clist([cpair(cZ(p[0]), cZ(p[1]), cN(p[2]), cN(p[3]), cN(p[4])) for p in s["ptrs"]])
    fs = clist([cpair(cN(f[0]), cN(f[1])) for f in s["files"]])
    return "(Some %s)" % cpair(it, ps, fs)


def harness_violation(case, r):
    if r.get("fatal"):
        return "harness: " + r["fatal"]
    return None


def to_coq(case, r):
    steps = []
    for o, s in zip(case["ops"], r["steps"]):
        ob = cpair(RES[s["cls"]], cpair(cN(s["key"]), cZ(s["wstart"]), cZ(s["wend"])), c_obs(s))
        steps.append(cpair(c_op(o, s["key"]), ob))
    return cpair(cpair(cN(r["nominal"]), cN(r["cap"])), clist(steps))


def nontrivial(case, r):
    st = r["steps"]
    if not st or st[-1]["cls"] == "panic":
        return False
    rejected = sum(1 for s in st if s["cls"] in ("validation", "conflict"))
    return rejected >= 1 and len(st[-1]["ptrs"]) >= 2


def histogram(case, r):
    ks = ["file_size=%d" % case["file_size"]]
    prev_files = 0
    for o, s in zip(case["ops"], r["steps"]):
        ks.append("op=%s/%s" % (o["op"], s["cls"]))
        if o["op"] == "commit" and s["cls"] == "ok" and s.get("wstart") == o["end"] and s.get("ptrs"):
            ks.append("rollover")
        if o["op"] == "open" and o["end"] != 0:
            ks.append("preset_end")
    ks.append("final_domains=%d" % min(len(r["steps"][-1].get("ptrs") or []), 6) if r["steps"] else "empty")
    ps = (r["steps"][-1].get("ptrs") or []) if r["steps"] else []
    if any(ps[i][1] == ps[i + 1][0] for i in range(len(ps) - 1)):
        ks.append("adjacent_domains")
    return ks


def neighbours(case, rng):
    out = []
    for i in range(len(case["ops"])):
        c = json.loads(json.dumps(case))
        del c["ops"][i]
        out.append(c)
    for i, o in enumerate(case["ops"]):
        for f in ("start", "end", "a", "b"):
            if f in o and o["op"] in ("open", "commit", "delete"):
                for d in (-1, 1):
                    c = json.loads(json.dumps(case))
                    v = c["ops"][i][f] + d
                    if 0 <= v <= MAXTS:
                        c["ops"][i][f] = v
                        out.append(c)
    return out


def tags(case, r):
    return set()


def model_dump(case, r):
    t = to_coq(case, r)
    return coq_print(PID, COQ_IMPORTS, "Eval vm_compute in model_dump (%s)." % t)[-8000:]


READY = False
TECHNIQUE = "Coq proof (invariant over operation lists, binary-search specification) + model/impl correspondence by vm_compute"
DESIGN_REF = "DESIGN.md §8 C03"
LEVEL_TEXT = "TODO"
LEVEL_NOTE = "TODO"
