"""C03 — cesium never stores overlapping data; conflicting writes fail cleanly."""
import json
from vlib import cN, cZ, clist, cpair, coq_print

PID = "C03"
MODULE, PKG, BIN = "cesium", "./verifh/c03", "c03"
COQ_IMPORTS = "From Synnax Require Import Common.Base Common.Telem Cesium.Domain Monitors.Mon_C03."
CASE_TYPE = "case_t"
COUNTS = {"quick": 1000, "thorough": 15000}
SHARD = 125
MAXTS = 2 ** 63 - 1

RULE = ("histories of 6-30 ops (35% preceded by a prefix that commits 2-5 disjoint or adjacent domains through "
        "short-lived writers) over up to 5 concurrently open domain writers on ONE channel of a fresh in-memory "
        "domain.DB: open(w,start,end?) / write(w,1-6 bytes) / commit(w,end) / close(w) / delete(a,b); stamps from a "
        "14-point alphabet {0,1,5,10,12,15,20,21,25,30,40,50,MAX-1,MAX} (+-1 jitter 8%) so adjacency, zero-length "
        "commits, preset ends and gap filling by another writer are frequent; a generator-side sketch of the database "
        "steers ~78% of the choices to legal ones (open in a gap or at a domain end, commit up to the next domain "
        "start, delete bounds at domain starts/ends/byte ends/mid points), the rest are conflicting opens/commits, "
        "backwards and zero-length commits, commits past a preset end, inverted preset ends, ops on closed or unknown "
        "writers, deletes not gated by the open writers (~1.5% of ops); 40% of the deletes (when data exists) are "
        "deletes DURING which fresh writers open/write/commit/close inside the start- and/or end-offset resolver "
        "(before the start domain, in gaps inside the range, after it), bounds mostly inside domains so that the "
        "resolvers run and several domains are spanned; 45% of the writers persist the index lazily (on close only), "
        "deletes of domains lying after the open writers' domains, and restarts (reopen = close all writers, close the "
        "DB, open it again on the same in-memory FS; ~3% of ops and at the end of 30% of the histories, half of those "
        "followed by an open inside/next to surviving data) so that the index a restarted database LOADS is judged by "
        "every clause; file size cap from {default,5,10,16,40} bytes "
        "so file roll-over happens in about half of the cases. Plus, once per run, all 9^4 quadruples of "
        "{MinInt64,-5,0,1,5,10,11,MAX-1,MAX} through telem.TimeRange OverlapsWith/ContainsRange/BoundBy/"
        "ContainsStamp/Valid/MakeValid against Common/Telem.v. Non-trivial = at least one rejected op "
        "(validation/conflict) and at least 2 surviving domains at the end; distinct by hash.")
TRUSTED = ["hook cesium/internal/domain/export_verif_c03.go (read-only copies of the index pointers, the two "
           "file-size limits, and a writer's file key)",
           "harness drives the real domain.DB/Writer/Iterator/Delete on x/io/fs MemFS with linear offset resolvers "
           "(1 byte per tick); error classes by errors.Is against ErrWriteConflict/ErrValidation/ErrNotFound/ErrClosed"]
ASSUMES = ["time stamps lie in [TimeStampMin, TimeStampMax] = [0, 2^63-1] (TimeRange.Span cannot wrap)",
           "every data file stays below 2^32 bytes (pointer offsets/sizes are uint32 in the Go code) and fewer than "
           "65536 files",
           "deletes are issued only at or before the start of every open writer (unary.DB.delete holds an absolute "
           "control gate over the range); the model covers ungated deletes too, the monitor makes no demand on "
           "writers they reach",
           "sequential histories, plus writer operations that run while DB.Delete executes its offset resolvers "
           "(the window its position re-resolution exists for); other races are C09",
           "writers acting during a delete do not update the two domains the delete has captured (start/end domain): "
           "the control gate of unary.DB.delete keeps writers of the deleted range out; the generator uses fresh "
           "writers"]
PARTIAL = None

ALPHA = [0, 1, 5, 10, 12, 15, 20, 21, 25, 30, 40, 50, MAXTS - 1, MAXTS]
LOW = ALPHA[:-2]


def stamp(rng, lo=None, hi=None):
    """a stamp from the alphabet (the two MAX values rarely), optionally in (lo, hi]"""
    xs = [x for x in ALPHA if (lo is None or x > lo) and (hi is None or x <= hi)]
    if not xs:
        return hi if hi is not None else MAXTS
    low = [x for x in xs if x < MAXTS - 1]
    t = rng.choice(low) if low and rng.random() < 0.9 else rng.choice(xs)
    if rng.random() < 0.08:
        t2 = t + rng.choice([-1, 1])
        if 0 <= t2 <= MAXTS and (lo is None or t2 > lo) and (hi is None or t2 <= hi):
            t = t2
    return t


class Sim:
    """rough generator-side picture of the database, used only to steer the choice of
    mostly-legal operations (it need not be exact)"""

    def __init__(self, cap):
        self.dom = []          # [s, e] sorted
        self.w = {}            # id -> dict(start, pe, prev, pend, fs, own)
        self.dead = []
        self.cap = cap if cap else 10 ** 9

    def inside(self, t):
        return any(s <= t < e for s, e in self.dom)

    def next_start(self, t, own=None):
        xs = [s for s, e in self.dom if s >= t and [s, e] != own]
        return min(xs) if xs else MAXTS

    def overlaps(self, a, b, own=None):
        return any(s < b and a < e for s, e in self.dom if [s, e] != own)


def gen_case(rng):
    fsz = rng.choice([0, 0, 5, 10, 10, 16, 40])
    cap = {0: 0, 5: 5, 10: 10, 16: 16, 40: 40}[fsz]
    sim = Sim(cap)
    nops = rng.randrange(6, 31)
    ops = []
    nextw = 1
    ctr = rng.randrange(0, 200)
    if rng.random() < 0.35:
        # prefix: 2-5 disjoint domains written by short-lived writers, in random order
        pts = sorted(rng.sample(LOW + [7, 17, 33, 45], rng.randrange(4, 11)))
        pairs = [(pts[i], pts[i + 1]) for i in range(0, len(pts) - 1, 2)]
        if rng.random() < 0.5:
            pairs = [(pts[i], pts[i + 1]) for i in range(len(pts) - 1) if rng.random() < 0.7]   # adjacency
        rng.shuffle(pairs)
        for (s0, e0) in pairs[:5]:
            n = rng.choice([1, 2, 3, e0 - s0 if e0 - s0 <= 8 else 4])
            data = [(ctr + i) % 251 for i in range(n)]
            ctr += n
            w = nextw
            nextw += 1
            ops += [{"op": "open", "w": w, "start": s0, "end": rng.choice([0, 0, e0])},
                    {"op": "write", "w": w, "data": data},
                    {"op": "commit", "w": w, "end": e0},
                    {"op": "close", "w": w}]
            sim.dom.append([s0, e0])
            sim.dom.sort()
            sim.dead.append(w)
        nops += len(ops)
    while len(ops) < nops:
        live = [w for w in sim.w]
        x = rng.random()
        legal = rng.random() < 0.78
        if not live or (x < 0.20 and len(live) < 5):
            # ---- open
            if legal:
                cands = [t for t in LOW if not sim.inside(t)] + [e for s, e in sim.dom if not sim.inside(e)]
                start = rng.choice(cands) if cands else stamp(rng)
                if rng.random() < 0.04:
                    start = rng.choice([MAXTS - 1, MAXTS])
            else:
                if sim.dom and rng.random() < 0.8:
                    s, e = rng.choice(sim.dom)
                    start = rng.choice([s, max(s, e - 1), (s + e) // 2, s + 1 if s + 1 < e else s])
                else:
                    start = stamp(rng)
            y = rng.random()
            if y < 0.66:
                end = 0
            elif y < 0.92:
                nxt = sim.next_start(start)
                end = stamp(rng, start, nxt if legal and nxt > start else None)
            elif y < 0.96:
                end = start
            else:
                end = max(1, start - rng.choice([1, 3, 5]))   # inverted preset end (malformed)
            w = nextw
            nextw += 1
            ops.append({"op": "open", "w": w, "start": start, "end": end})
            if rng.random() < 0.45:
                ops[-1]["lazy"] = True        # index persisted on close only
            ok = not sim.inside(start) and not (end != 0 and end < start) and \
                not (end > start and sim.overlaps(start, end))
            if ok:
                sim.w[w] = {"start": start, "pe": end, "prev": None, "pend": 0, "fs": 0, "own": None}
            continue
        if x < 0.46:
            # ---- write
            w = rng.choice(live)
            n = rng.randrange(1, 7)
            data = [(ctr + i) % 251 for i in range(n)]
            ctr += n
            ops.append({"op": "write", "w": w, "data": data})
            sim.w[w]["pend"] += n
            sim.w[w]["fs"] += n
        elif x < 0.80:
            # ---- commit
            pending = [w for w in live if sim.w[w]["pend"] > 0]
            w = rng.choice(pending) if pending and rng.random() < 0.9 else rng.choice(live)
            st = sim.w[w]
            lo = st["prev"] - 1 if st["prev"] is not None else st["start"]
            nxt = sim.next_start(st["start"], st["own"])
            if legal:
                y = rng.random()
                if st["pe"]:
                    end = rng.choice([st["pe"], st["pe"], stamp(rng, lo, st["pe"])])
                elif y < 0.25 and nxt < MAXTS and nxt > lo:
                    end = nxt                                   # adjacency: end == next start
                elif y < 0.45 and lo < st["start"] + st["pend"] <= nxt:
                    end = st["start"] + st["pend"]              # one tick per byte
                else:
                    near = [t for t in ALPHA if lo < t <= nxt][:3]
                    end = rng.choice(near) if near and rng.random() < 0.75 else stamp(rng, lo, nxt)
            else:
                y = rng.random()
                if y < 0.35 and sim.dom:
                    s, e = rng.choice(sim.dom)
                    end = min(MAXTS, rng.choice([s + 1, e, (s + e) // 2 + 1]))
                elif y < 0.55:
                    end = st["start"]                           # zero-length commit
                elif y < 0.80 and st["prev"]:
                    end = max(0, st["prev"] - rng.choice([1, 2, 5]))   # backwards
                elif y < 0.90 and st["pe"]:
                    end = min(MAXTS, st["pe"] + rng.choice([1, 5]))    # past the preset end
                else:
                    end = stamp(rng)
            ops.append({"op": "commit", "w": w, "end": end})
            # rough effect
            if st["pend"] > 0 and not (st["pe"] and end > st["pe"]):
                sw = st["fs"] >= sim.cap
                ce = end if (sw or not st["pe"]) else st["pe"]
                back = st["prev"] is not None and ce < st["prev"] and not (sw and st["pe"])
                if ce > st["start"] and not back and not sim.overlaps(st["start"], ce, st["own"]):
                    if st["own"] in sim.dom:
                        sim.dom.remove(st["own"])
                    d = [st["start"], ce]
                    sim.dom.append(d)
                    sim.dom.sort()
                    if sw:
                        st.update(start=ce, prev=None, pend=0, fs=0, own=None)
                    else:
                        st.update(prev=ce, own=d)
        elif x < 0.87:
            w = rng.choice(live)
            ops.append({"op": "close", "w": w})
            sim.dead.append(w)
            del sim.w[w]
        elif x < 0.885:
            # ---- restart: close everything, reopen the database on the same files
            ops.append({"op": "reopen"})
            sim.dead += list(sim.w)
            sim.w = {}
        elif x < 0.90 and sim.w and sim.dom:
            # ---- delete (part of) a domain that lies AFTER the domains of the open writers
            hi = max([v["own"][1] if v["own"] else v["start"] for v in sim.w.values()])
            later = [d for d in sim.dom if d[0] >= hi]
            if later:
                s0, e0 = rng.choice(later)
                a, b = rng.choice([(s0, e0), ((s0 + e0) // 2, e0), (s0, (s0 + e0) // 2 + 1), (s0 + 1, max(s0 + 1, e0 - 1))])
                ops.append({"op": "delete", "a": a, "b": b})
                nd = []
                for s_, e_ in sim.dom:
                    if [s_, e_] != [s0, e0]:
                        nd.append([s_, e_])
                        continue
                    if s_ < a:
                        nd.append([s_, a])
                    if b < e_:
                        nd.append([b, e_])
                sim.dom = sorted(nd)
        elif x < 0.96:
            # ---- delete
            lim = min([v["start"] for v in sim.w.values()] or [MAXTS])
            if rng.random() < 0.85:
                cands = [t for t in ALPHA if t <= lim] or [0]
                b = rng.choice(cands)
                if sim.dom and rng.random() < 0.6:
                    s, e = rng.choice(sim.dom)
                    b = min(lim, rng.choice([e, (s + e) // 2 + 1, s + 2, e + 1 if e < MAXTS else e]))
                a = rng.choice([t for t in ALPHA if t <= b] or [0])
                if sim.dom and rng.random() < 0.6:
                    s, e = rng.choice(sim.dom)
                    a = max(0, min(b, rng.choice([s, s + 1, s + 2, s + 3, s + 5, (s + e) // 2, e - 1, e])))
                if sim.dom and rng.random() < 0.35:
                    # from inside (or the byte end of) one domain up to the start of a later one
                    i = rng.randrange(len(sim.dom))
                    j = rng.randrange(i, len(sim.dom))
                    s, e = sim.dom[i]
                    a = rng.choice([s + 1, s + 2, s + 3, s + 4, e - 1, e])
                    b = min(lim, rng.choice([sim.dom[j][0], sim.dom[j][0] + 1, sim.dom[j][1]]))
                    a = max(0, min(a, MAXTS))
                if rng.random() < 0.05:
                    a, b = b, a
            else:
                a, b = stamp(rng), stamp(rng)          # not gated by the open writers
                if a > b and rng.random() < 0.7:
                    a, b = b, a
            dop = {"op": "delete", "a": a, "b": b}
            if sim.dom and rng.random() < 0.40:
                # a delete during which other writers commit (inside its offset resolvers):
                # bounds mostly inside domains so that the resolvers are called
                if rng.random() < 0.8:
                    i = rng.randrange(len(sim.dom))
                    j = rng.randrange(i, len(sim.dom))
                    s0, e0 = sim.dom[i]
                    s1, e1 = sim.dom[j]
                    a = rng.choice([s0, s0 + 1, (s0 + e0) // 2, max(s0, e0 - 1)])
                    b = rng.choice([s1, s1 + 1, (s1 + e1) // 2 + 1, max(s1, e1 - 1)])
                    if rng.random() < 0.15:
                        b = rng.choice([e1, min(MAXTS, e1 + 1)])
                    if rng.random() < 0.15:
                        a = max(0, s0 - 1)
                a, b = max(0, min(a, MAXTS)), max(0, min(b, MAXTS))
                dop = {"op": "deletec", "a": a, "b": b, "sops": [], "eops": []}
                phases = rng.choice([["e"], ["e"], ["s"], ["s", "e"], ["e", "e"]])
                before_only = False
                if len(sim.dom) >= 2 and rng.random() < 0.45:
                    # several domains spanned, end strictly inside the last one, and the concurrent
                    # commit lands BEFORE the start domain (every captured position shifts)
                    i = rng.randrange(len(sim.dom) - 1)
                    j = rng.randrange(i + 1, len(sim.dom))
                    s0, e0 = sim.dom[i]
                    s1, e1 = sim.dom[j]
                    a = rng.choice([s0, s0 + 1, (s0 + e0) // 2])
                    b = rng.choice([s1 + 1, (s1 + e1) // 2, max(s1, e1 - 1)])
                    a, b = max(0, min(a, MAXTS)), max(0, min(b, MAXTS))
                    dop["a"], dop["b"] = a, b
                    before_only = True
                    phases = rng.choice([["e"], ["e"], ["s"], ["s", "e"]])
                pool = [0, 1, 2, 3, 6, 7, 8, 11, 13, 16, 17, 18, 22, 23, 26, 27, 28, 31, 33, 35, 41, 42, 45, 46, 48, 51,
                        52, 55, 58, 61, 65, 70]
                for ph in phases:
                    free = [t for t in pool if not sim.inside(t)]
                    if before_only:
                        free = [t for t in free if t < dop["a"] and sim.next_start(t) <= dop["a"]] or free
                    if not free:
                        break
                    t = rng.choice(free)
                    nx = sim.next_start(t)
                    if nx <= t:
                        continue
                    e_ = min(nx, t + rng.choice([1, 2, 4, 9]))
                    n = rng.randrange(1, 5)
                    data = [(ctr + i) % 251 for i in range(n)]
                    ctr += n
                    w = nextw
                    nextw += 1
                    nops_ = [{"op": "open", "w": w, "start": t, "end": rng.choice([0, 0, e_])},
                             {"op": "write", "w": w, "data": data},
                             {"op": "commit", "w": w, "end": e_}]
                    if rng.random() < 0.8:
                        nops_.append({"op": "close", "w": w})
                        sim.dead.append(w)
                    else:
                        sim.w[w] = {"start": t, "pe": 0, "prev": e_, "pend": n, "fs": n, "own": [t, e_]}
                    dop["sops" if ph == "s" else "eops"] += nops_
                    sim.dom.append([t, e_])
                    sim.dom.sort()
            ops.append(dop)
            nd = []
            for s, e in sim.dom:
                if a <= s and e <= b:
                    continue
                if s < a < e:
                    nd.append([s, a])
                if s < b < e:
                    nd.append([b, e])
                if not (s < a < e) and not (s < b < e):
                    nd.append([s, e])
            if a <= b:
                sim.dom = sorted(nd)
        else:
            # ---- malformed: op on a closed / unknown writer, or re-open of an existing id
            w = rng.choice(sim.dead) if sim.dead and rng.random() < 0.6 else rng.choice([nextw + 3, 1])
            k = rng.choice(["write", "commit", "close", "open"])
            if k == "write":
                ops.append({"op": "write", "w": w, "data": [7]})
            elif k == "commit":
                ops.append({"op": "commit", "w": w, "end": stamp(rng)})
            elif k == "close":
                ops.append({"op": "close", "w": w})
                if w in sim.w:
                    sim.dead.append(w)
                    del sim.w[w]
            elif w not in sim.w and w not in sim.dead:
                ops.append({"op": "open", "w": w, "start": stamp(rng), "end": 0})
                nextw = max(nextw, w + 1)
                if not sim.inside(ops[-1]["start"]):
                    sim.w[w] = {"start": ops[-1]["start"], "pe": 0, "prev": None, "pend": 0, "fs": 0, "own": None}
            else:
                ops.append({"op": "open", "w": w, "start": stamp(rng), "end": 0})
    if sim.dom and rng.random() < 0.18:
        # an unflushed commit below a later delete, then a restart: a lazily persisting writer
        # commits a new domain into a gap before an existing domain and stays open, a delete
        # hits that later domain, (the writer closes,) the database is reopened
        pool = [0, 1, 2, 3, 6, 7, 8, 11, 13, 16, 17, 18, 22, 23, 26, 27, 28, 31, 33, 35, 41, 42, 45, 46, 48]
        cands = []
        for d in sim.dom:
            for t in pool:
                if t < d[0] and not sim.inside(t) and t < sim.next_start(t) <= d[0]:
                    cands.append((t, d))
        if cands:
            t, d = rng.choice(cands)
            e_ = min(sim.next_start(t), t + rng.choice([1, 2, 4, 9]))
            n = rng.randrange(1, 6)
            data = [(ctr + i) % 251 for i in range(n)]
            ctr += n
            w = nextw
            nextw += 1
            ops += [{"op": "open", "w": w, "start": t, "end": rng.choice([0, 0, e_]), "lazy": rng.random() < 0.85},
                    {"op": "write", "w": w, "data": data},
                    {"op": "commit", "w": w, "end": e_}]
            s0, e0 = d
            a, b = rng.choice([(s0, e0), ((s0 + e0) // 2, e0), (s0, (s0 + e0) // 2 + 1), (s0 + 1, max(s0 + 1, e0 - 1)),
                               ((s0 + e0) // 2, min(MAXTS, e0 + 3))])
            ops.append({"op": "delete", "a": a, "b": b})
            if rng.random() < 0.3:
                ops += [{"op": "write", "w": w, "data": [(ctr) % 251]}, {"op": "commit", "w": w, "end": e_}]
                ctr += 1
            if rng.random() < 0.5:
                ops.append({"op": "close", "w": w})
            ops.append({"op": "reopen"})
            if rng.random() < 0.6:
                ops.append({"op": "open", "w": nextw, "start": rng.choice([t, s0, (s0 + e0) // 2, max(s0, e0 - 1), e_]), "end": 0})
                nextw += 1
            return {"file_size": fsz, "ops": ops}
    if rng.random() < 0.30:
        ops.append({"op": "reopen"})
        if rng.random() < 0.5:
            # after the restart: a writer starting inside / next to what should be there
            if sim.dom:
                s0, e0 = rng.choice(sim.dom)
                st_ = rng.choice([s0, (s0 + e0) // 2, max(s0, e0 - 1), e0])
            else:
                st_ = stamp(rng)
            ops.append({"op": "open", "w": nextw, "start": st_, "end": 0})
    return {"file_size": fsz, "ops": ops}


def gen_cases(rng, tier, n):
    return [gen_case(rng) for _ in range(n)]


RES = {"ok": "ROk", "conflict": "(RErr EConflict)", "validation": "(RErr EValidation)",
       "notfound": "(RErr ENotFound)", "closed": "(RErr EClosed)", "other": "(RErr EOther)",
       "panic": "(RErr EPanic)", "badop": "RBadOp"}


def c_op(o, key):
    k = o["op"]
    if k == "open":
        return "Open %s %s %s %s" % (cN(o["w"]), cZ(o["start"]), cZ(o["end"]), cN(key))
    if k == "write":
        return "Write %s %s" % (cN(o["w"]), clist([cN(b) for b in o["data"]]))
    if k == "commit":
        return "Commit %s %s %s" % (cN(o["w"]), cZ(o["end"]), cN(key))
    if k == "close":
        return "Close %s" % cN(o["w"])
    if k == "reopen":
        return "Reopen"
    if k == "deletec":
        keys = key if isinstance(key, dict) else {}
        return "DeleteC %s %s %s %s" % (
            cZ(o["a"]), cZ(o["b"]),
            clist([c_wop(x, keys.get(("s", i), 0)) for i, x in enumerate(o.get("sops") or [])]),
            clist([c_wop(x, keys.get(("e", i), 0)) for i, x in enumerate(o.get("eops") or [])]))
    return "Delete %s %s" % (cZ(o["a"]), cZ(o["b"]))


def c_wop(o, key):
    k = o["op"]
    if k == "open":
        return "WOpen %s %s %s %s" % (cN(o["w"]), cZ(o["start"]), cZ(o["end"]), cN(key))
    if k == "write":
        return "WWrite %s %s" % (cN(o["w"]), clist([cN(b) for b in o["data"]]))
    if k == "commit":
        return "WCommit %s %s %s" % (cN(o["w"]), cZ(o["end"]), cN(key))
    return "WClose %s" % cN(o["w"])


def c_sobs(s):
    return cpair(RES[s["cls"]], cpair(cN(s["key"]), cZ(s["wstart"]), cZ(s["wend"])), c_obs(s))


def c_obs(s):
    if s["cls"] == "panic":
        return "None"
    it = clist([cpair(cZ(r[0]), cZ(r[1]), cN(r[2]), clist([cN(b) for b in r[3]])) for r in s["iter"]])
    ps = clist([cpair(cZ(p[0]), cZ(p[1]), cN(p[2]), cN(p[3]), cN(p[4])) for p in s["ptrs"]])
    fs = clist([cpair(cN(f[0]), cN(f[1])) for f in s["files"]])
    return "(Some %s)" % cpair(it, ps, fs)


def harness_violation(case, r):
    if r.get("fatal"):
        return "harness: " + r["fatal"]
    return None


def to_coq(case, r):
    steps = []
    for o, s in zip(case["ops"], r["steps"]):
        nested = s.get("nested") or []
        if o["op"] == "deletec":
            keys = {(n["phase"], n["idx"]): n["key"] for n in nested}
            nl = []
            for n in nested:
                x = (o.get("sops") if n["phase"] == "s" else o.get("eops"))[n["idx"]]
                nl.append(cpair(c_wop(x, n["key"]), c_sobs(n)))
            steps.append(cpair(c_op(o, keys), c_sobs(s), clist(nl)))
        else:
            steps.append(cpair(c_op(o, s["key"]), c_sobs(s), "[]"))
    return cpair(cpair(cN(r["nominal"]), cN(r["cap"])), clist(steps))


def nontrivial(case, r):
    st = r["steps"]
    if not st or st[-1]["cls"] == "panic":
        return False
    rejected = sum(1 for s in st if s["cls"] in ("validation", "conflict"))
    return rejected >= 1 and len(st[-1]["ptrs"]) >= 2


def histogram(case, r):
    ks = ["file_size=%d" % case["file_size"]]
    prev_files = 0
    for o, s in zip(case["ops"], r["steps"]):
        ks.append("op=%s/%s" % (o["op"], s["cls"]))
        if o["op"] == "commit" and s["cls"] == "ok" and s.get("wstart") == o["end"] and s.get("ptrs"):
            ks.append("rollover")
        if o["op"] == "open" and o["end"] != 0:
            ks.append("preset_end")
        if o["op"] == "deletec":
            nested = s.get("nested") or []
            ph = sorted(set(n["phase"] for n in nested))
            ks.append("deletec_nested_ran=%s" % ("+".join(ph) or "none"))
            if any(n["cls"] == "ok" and (o.get("sops") if n["phase"] == "s" else o.get("eops"))[n["idx"]]["op"] == "commit"
                   for n in nested):
                ks.append("commit_during_delete")
    ks.append("final_domains=%d" % min(len(r["steps"][-1].get("ptrs") or []), 6) if r["steps"] else "empty")
    ps = (r["steps"][-1].get("ptrs") or []) if r["steps"] else []
    if any(ps[i][1] == ps[i + 1][0] for i in range(len(ps) - 1)):
        ks.append("adjacent_domains")
    return ks


def neighbours(case, rng):
    out = []
    for i in range(len(case["ops"])):
        c = json.loads(json.dumps(case))
        del c["ops"][i]
        out.append(c)
    for i, o in enumerate(case["ops"]):
        if o["op"] == "deletec":
            # move the nested ops to the other resolver / drop them
            c = json.loads(json.dumps(case))
            c["ops"][i]["sops"], c["ops"][i]["eops"] = o.get("eops") or [], o.get("sops") or []
            out.append(c)
            c = json.loads(json.dumps(case))
            c["ops"][i] = {"op": "delete", "a": o["a"], "b": o["b"]}
            out.append(c)
        for f in ("start", "end", "a", "b"):
            if f in o and o["op"] in ("open", "commit", "delete", "deletec"):
                for d in (-1, 1):
                    c = json.loads(json.dumps(case))
                    v = c["ops"][i][f] + d
                    if 0 <= v <= MAXTS:
                        c["ops"][i][f] = v
                        out.append(c)
    return out


def tags(case, r):
    return set()


TELEM_ALPHA = [-2 ** 63, -5, 0, 1, 5, 10, 11, MAXTS - 1, MAXTS]


def extra(ctx):
    """function-level differential test of Common/Telem.v against x/go/telem: OverlapsWith,
    ContainsRange, BoundBy, ContainsStamp, Valid, MakeValid on every quadruple of a 9-value
    alphabet that includes the int64 extremes (so the Span wrap-around is exercised)"""
    import re
    import vlib
    import check
    quads = [[a, b, c, d] for a in TELEM_ALPHA for b in TELEM_ALPHA for c in TELEM_ALPHA for d in TELEM_ALPHA]
    case = {"id": 0, "telem": quads}
    res = vlib.run_harness(ctx.bin, [case], procs=1).get(0)
    bad = None
    if not res or len(res.get("telem") or []) != len(quads):
        bad = "harness returned no telem results"
    else:
        cb = lambda x: "true" if x else "false"
        terms = []
        for q, o in zip(quads, res["telem"]):
            terms.append(cpair(cpair(*[cZ(x) for x in q]),
                               cpair(cb(o[0]), cb(o[1]), cpair(cZ(o[2]), cZ(o[3])), cb(o[4]), cb(o[5]),
                                     cpair(cZ(o[6]), cZ(o[7])))))
        out = coq_print(PID + "_telem", COQ_IMPORTS,
                        "Definition tc : list telem_case := %s.\nDefinition TM := Eval vm_compute in telem_mismatches tc.\nPrint TM." % clist(terms),
                        timeout=600)
        m = re.search(r"TM\s*=\s*(\[[^\]]*\])", out.replace("\n", " "))
        if not m:
            bad = "cannot evaluate telem cases: " + out[-600:]
        elif m.group(1).strip() != "[]":
            idx = [int(x.replace("%nat", "")) for x in m.group(1).strip()[1:-1].split(";") if x.strip()]
            bad = "telem.TimeRange differs from Common/Telem.v on %d quadruples, first %s -> %s" % (
                len(idx), quads[idx[0]], res["telem"][idx[0]])
    ctx.extra_cov["telem_function_cases"] = len(quads)
    if bad:
        rp = check.write_replay(ctx, "V2", bad, {"telem": quads[:0]}, None, {"correspondence": "corr:C03/telem"})
        ctx.violations.append({"kind": "V2", "what": bad, "replay": rp, "found_input": False})


def model_dump(case, r):
    t = to_coq(case, r)
    return coq_print(PID, COQ_IMPORTS, "Eval vm_compute in model_dump (%s)." % t)[-8000:]


SRC_SPECS = ["telem"]     # translator/specs/telem.json -> Generated/Src_Telem.v (regenerated on every run)
READY = True
TECHNIQUE = ("Coq proof (inductive invariant over operation lists, binary-search specification, refinement of the "
             "fast paths to the search result) + model/impl correspondence by vm_compute")
DESIGN_REF = "DESIGN.md §8 C03"
LEVEL_TEXT = ("Machine-checked Coq theorems over an executable Gallina copy of cesium/internal/domain (index search / "
              "insert with its append and prepend fast paths / update with the neighbour check, OpenWriter, Write, "
              "commit with preset ends, file roll-over and validateCommitRange, Close, Delete with pointer split, the "
              "iterator) and of telem.TimeRange.OverlapsWith/ContainsStamp: for every history of opens, writes, "
              "commits, closes and deletes over any number of concurrently open writers the committed ranges stay "
              "time-ordered, pairwise non-overlapping, non-empty and inside their files (C03_inv_reachable, "
              "C03_no_overlap_within_files); a failed operation changes nothing (C03_fail_atomic); a writer whose "
              "start lies inside data cannot open (C03_open_inside_fails); an overlapping or backwards commit fails "
              "with a validation error (C03_commit_overlap_fails, C03_commit_backwards_fails); the binary search meets "
              "its specification (C03_search_spec, C03_search_complete); everything committed is enumerated by the "
              "iterator (C03_committed_is_readable); commits that land while Delete resolves its offsets keep the "
              "invariant because both captured positions are re-resolved (C03_delete_during_commits_inv, "
              "C03_repechage_finds), and the monitor's invariant clause accepts every model state "
              "(C03_monitor_invariant_sound); a restart keeps every committed domain (C03_reopen; the harness really closes and "
              "reopens the database, with lazily persisting writers, and the loaded index is compared and judged). The model is tied to /repo on every run by driving the real "
              "domain.DB on generated histories and comparing, after every operation, error class, iterator "
              "enumeration with bytes read, raw index pointers, file sizes and writer Start/End/file key inside Coq; "
              "a decidable monitor states the property on the implementation's observations and yields the replay.")
LEVEL_NOTE = ("Trusted: Coq kernel/vm_compute; hand-written model (tied by correspondence, not translation); harness + "
              "read-only hook export_verif_c03.go; generator. Assumes stamps in [0, 2^63-1], data files < 2^32 bytes, "
              "database starting empty, restarts modelled as the identity on the index (GC and descriptor-limit paths not modelled), sequential histories plus commits inside Delete's resolvers; Go map iteration order "
              "in acquireWriter is an oracle argument taken from the implementation's choice. Not modelled: index "
              "persistence (C02), garbage collection (C04), races (C09). All theorems closed under the global context. "
              "Two defects found by this check were repaired by fix: commits (F18 backwards commit accepted on a file "
              "switch, F19 WriterConfig.Validate returned nil); C03_upstream_*_refuted keep the witnesses. The commit "
              "theorems about the writer's own pointer hold for histories whose deletes respect the unary control gate "
              "(C03_own_pointer_present); C03_ungated_delete_panics_refuted shows the domain package alone panics "
              "otherwise (not reachable through unary/cesium). The equality of a delete-with-concurrent-commits with a "
              "serial order (insert;delete for domains landing between the start and end domain, delete;insert "
              "otherwise) is not proved; only invariant preservation, clean failure and the re-resolution are.")
