"""C20 — streamers see an ordered, filtered, duplicate-free view of writes."""
import json
import re
from vlib import cN, cnat, clist, cpair, cbool, coq_print

PID = "C20"
MODULE, PKG, BIN = "cesium", "./verifh/c20", "c20"
COQ_IMPORTS = "From Synnax Require Import Common.Base Cesium.Relay Monitors.Mon_C20."
CASE_TYPE = "case_t"
COUNTS = {"quick": 700, "thorough": 3000}
SHARD = 20
RACE = True
PROCS = 4
HARNESS_TIMEOUT = 900
HARNESS_ENV = {"C20_WORKERS": "4"}
OPS_KEY = "ops"

VIRT = [1, 2, 3]
IDX, DATA = 4, 5
AUTHS = [255, 255, 200, 100, 100, 50, 0]


# --------------------------------------------------------------------------- generator
def gen_case(rng, tier, flavour=None):
    persisted = rng.random() < 0.4
    pausing = rng.random() < 0.15
    chans = [{"k": k, "kind": "v"} for k in VIRT]
    if persisted:
        chans += [{"k": IDX, "kind": "i"}, {"k": DATA, "kind": "d", "idx": IDX}]
    allkeys = [c["k"] for c in chans]
    cfg = {"buf": rng.choice([1, 2, 2, 3, 8, 1000]), "timeout_ms": 1500 if pausing else 5000,
           "out_buf": rng.choice([0, 0, 1, 4]), "chans": chans}
    ops = []
    writers = {}      # id -> {"chans": [...], "open": bool, "mode":}
    strs = {}         # id -> {"open": bool, "paused": bool}
    nw = ns = 0
    bg_active = set()
    bg_budget = 0
    closed = False
    paused_writes = 0
    n = rng.randrange(10, 34 if tier == "quick" else 45)
    malformed = rng.random() < 0.3    # this script may contain malformed steps
    will_close_db = rng.random() < 0.12

    def rand_keys(pool, lo=0):
        k = rng.randrange(lo, len(pool) + 1)
        return sorted(rng.sample(pool, k)) if rng.random() < 0.8 else rng.sample(pool, k)

    def open_writer():
        nonlocal nw
        nw += 1
        vs = rand_keys(VIRT, 1 if not persisted else 0)
        if len(vs) < 2 and rng.random() < 0.6:
            vs = sorted(set(vs) | {rng.choice(VIRT), rng.choice(VIRT)})
        cs = list(vs)
        if persisted and (rng.random() < 0.55 or not cs):
            cs += [IDX, DATA] if rng.random() < 0.7 else [DATA, IDX]
        if malformed and rng.random() < 0.08:
            cs = cs + [77]                                 # unknown channel
        if rng.random() < 0.45:
            auths = [rng.choice(AUTHS)]
        else:
            auths = [rng.choice(AUTHS) for _ in cs]
            auths[rng.randrange(len(auths))] = 255      # usually in control of something
            if malformed and rng.random() < 0.1 and len(auths) > 2:
                auths = auths[:-1]                        # wrong authority count
        mode = rng.choice(["ps", "ps", "ps", "so", "so", "so", "po"])
        ops.append({"op": "open_writer", "w": nw, "mode": mode, "chans": cs, "auths": auths})
        writers[nw] = {"chans": cs, "open": True, "mode": mode}

    def write():
        live = [w for w, d in writers.items() if d["open"] and w not in bg_active]
        if not live:
            return None if bg_active else open_writer()
        w = rng.choice(live)
        quiet = bool(bg_active)     # a background writer is active: nothing that closes a writer
        cs = writers[w]["chans"]
        vs = [k for k in cs if k in VIRT]
        ks = rand_keys(vs, 0)
        if IDX in cs and DATA in cs and rng.random() < 0.6:
            grp = [IDX, DATA] if rng.random() < 0.7 else [DATA, IDX]
            ks = ks + grp if rng.random() < 0.5 else grp + ks
        if not ks and rng.random() < 0.8:
            ks = [rng.choice(vs)] if vs else ([IDX, DATA] if IDX in cs and DATA in cs else [])
        bad = False
        if malformed:
            x = rng.random()
            if x < 0.12:
                others = [k for k in allkeys if k not in cs and k in VIRT]
                if others:
                    ks = ks + [rng.choice(others)]        # key the writer never opened
            elif x < 0.16 and vs:
                ks = ks + [rng.choice(vs)]                # duplicate virtual key
            elif x < 0.19 and IDX in cs and DATA in cs and not quiet:
                ks = [k for k in ks if k != DATA] or [IDX]  # partial index group
            elif x < 0.22 and ks and ks[0] in VIRT and not quiet:
                bad = True                                # wrong data type
        if vs and rng.random() < 0.02:
            # boundary: the frame mask of telem.Frame handles up to 128 entries
            m = rng.choice([126, 127, 128, 129, 130])
            ks = [vs[i % len(vs)] for i in range(m)]
        o = {"op": "write", "w": w, "keys": ks}
        if bad:
            o["bad"] = True
        ops.append(o)

    def open_streamer():
        nonlocal ns
        ns += 1
        pool = allkeys + ([77] if malformed else [])
        ks = rand_keys(pool, 0)
        if rng.random() < 0.6:
            ks = list(allkeys)
        o = {"op": "open_streamer", "s": ns, "keys": ks}
        if strs and rng.random() < 0.35:
            # the caller re-uses one key slice: open from the very slice streamer j was opened from
            j = rng.choice(sorted(strs))
            o["keys"], o["share"] = list(strs[j]["keys"]), j
        ops.append(o)
        strs[ns] = {"open": True, "paused": False, "keys": list(o["keys"])}

    def any_paused_now():
        return any(d["paused"] for d in strs.values() if d["open"])

    open_writer()
    if rng.random() < 0.6:
        open_writer()
    if rng.random() < 0.85:
        open_streamer()
    while len(ops) < n:
        live_w = [w for w, d in writers.items() if d["open"]]
        live_s = [s for s, d in strs.items() if d["open"]]
        any_paused = any(d["paused"] for d in strs.values() if d["open"])
        x = rng.random()
        bg_live = [w for w in bg_active if writers[w]["open"]]
        if not closed and not any(o["op"] == "sync" for o in ops[-9:]) and len(ops) >= 9 and not any_paused_now():
            # bound the window in which hidden relay / streamer steps can be pending (the checker
            # explores every interleaving of them)
            ops.append({"op": "sync"})
            continue
        if closed:
            # after DB.Close: writers keep writing (nothing is delivered any more), plus a few
            # other operations that must fail or be no-ops
            if x < 0.35 and live_w:
                write()
            elif x < 0.45 and live_w and not bg_live:
                w = rng.choice(live_w)
                ops.append({"op": "close_writer", "w": w})
                writers[w]["open"] = False
            elif x < 0.5 and bg_live:
                w = rng.choice(bg_live)
                ops.append({"op": "join", "w": w})
                bg_active.discard(w)
            elif x < 0.6:
                open_streamer()
                strs[ns]["open"] = False
            elif x < 0.7 and not bg_live:
                open_writer()
                writers[nw]["open"] = False
            elif x < 0.85 and live_s:
                ops.append({"op": rng.choice(["resub", "close_streamer"]), "s": rng.choice(live_s), "keys": [1]})
            else:
                break
            continue
        if bg_live and (x < 0.12 or bg_budget <= 0):
            # bounded concurrency: the checker explores every interleaving of the background
            # writes with what the driver does meanwhile
            w = rng.choice(bg_live)
            ops.append({"op": "join", "w": w})
            bg_active.discard(w)
            continue
        if bg_live:
            bg_budget -= 1
        if not pausing and x > 0.955 and live_w and not bg_live:
            cand = [w for w in live_w if w not in bg_active and any(k in VIRT for k in writers[w]["chans"])]
            if cand:
                w = rng.choice(cand)
                vs = [k for k in writers[w]["chans"] if k in VIRT]
                kss = []
                for _ in range(rng.randrange(2, 5)):
                    ks = rand_keys(vs, 1)
                    if malformed and rng.random() < 0.1:
                        others = [k for k in VIRT if k not in writers[w]["chans"]]
                        if others:
                            ks = ks + [rng.choice(others)]
                    kss.append(ks)
                if ops and ops[-1]["op"] != "sync":
                    ops.append({"op": "sync"})      # background writes start from a quiescent relay
                ops.append({"op": "bg_writes", "w": w, "kss": kss})
                bg_active.add(w)
                bg_budget = rng.randrange(1, 5)
                continue
        if x < 0.42:
            if any_paused:
                if paused_writes >= 2:
                    continue
                paused_writes += 1
            write()
        elif x < 0.50 and len(live_w) < 4 and not bg_live:
            open_writer()
        elif x < 0.58 and len(live_s) < 3:
            open_streamer()
        elif x < 0.66 and live_s:
            s = rng.choice(live_s)
            pool = allkeys + ([77] if malformed else [])
            ops.append({"op": "resub", "s": s, "keys": rand_keys(pool, 0)})
        elif x < 0.71 and live_s:
            s = rng.choice(live_s)
            ops.append({"op": "close_streamer", "s": s})
            strs[s]["open"] = False
        elif x < 0.84:
            ops.append({"op": "sync"})
        elif x < 0.89 and live_w and not bg_live:
            w = rng.choice(live_w)
            ops.append({"op": "close_writer", "w": w})
            writers[w]["open"] = False
        elif x < 0.94 and live_w and not bg_live:
            ops.append({"op": "set_auth", "w": rng.choice(live_w), "auth": rng.choice(AUTHS)})
        elif pausing and live_s:
            s = rng.choice(live_s)
            if strs[s]["paused"]:
                ops.append({"op": "resume", "s": s})
                strs[s]["paused"] = False
            elif not any_paused:
                ops.append({"op": "pause", "s": s})
                strs[s]["paused"] = True
        if will_close_db and not closed and len(ops) >= n - rng.randrange(1, 5):
            ops.append({"op": "close_db"})
            closed = True
            n += rng.randrange(0, 6)
    return {"cfg": cfg, "ops": ops}


def gen_stall_case(rng):
    """two consumers stalled at the same time next to an always-ready one: the relay must time out
    on each of them for every frame and still serve the ready streamer"""
    chans = [{"k": k, "kind": "v"} for k in VIRT]
    cfg = {"buf": rng.choice([2, 3, 8]), "timeout_ms": 1000, "out_buf": 0, "chans": chans}
    ops = [{"op": "open_writer", "w": 1, "mode": rng.choice(["so", "ps"]), "chans": list(VIRT), "auths": [255]}]
    if rng.random() < 0.5:
        ops.append({"op": "open_writer", "w": 2, "mode": "so", "chans": rand_subset(rng, VIRT, 1),
                    "auths": [rng.choice(AUTHS)]})
    sids = [1, 2, 3]
    for s in sids:
        ks = list(VIRT) if rng.random() < 0.7 else rand_subset(rng, VIRT, 1)
        o = {"op": "open_streamer", "s": s, "keys": ks}
        if s > 1 and rng.random() < 0.3:
            o["keys"], o["share"] = list(ops[-1]["keys"]), s - 1
        ops.append(o)
    ops.append({"op": "sync"})

    def some_write():
        w = 2 if (len([o for o in ops if o["op"] == "open_writer"]) == 2 and rng.random() < 0.3) else 1
        pool = VIRT if w == 1 else next(o["chans"] for o in ops if o["op"] == "open_writer" and o["w"] == 2)
        return {"op": "write", "w": w, "keys": rand_subset(rng, pool, 1)}
    for _ in range(rng.randrange(0, 3)):
        ops.append(some_write())
    stalled = rng.sample(sids, 2 if rng.random() < 0.8 else 1)
    for s in stalled:
        ops.append({"op": "pause", "s": s})
    # the first frames after the pause are still taken (consumer in flight, streamer's hand);
    # from then on the relay has to time out on every stalled streamer for every frame
    ops += [{"op": "sync"}, {"op": "write", "w": 1, "keys": list(VIRT)}, {"op": "write", "w": 1, "keys": list(VIRT)}]
    if rng.random() < 0.4:
        ops.append({"op": "resub", "s": rng.choice(sids), "keys": rand_subset(rng, VIRT, 0)})
    ops.append({"op": "sync"})
    rng.shuffle(stalled)
    for s in stalled:
        ops.append({"op": "resume", "s": s})
    for _ in range(rng.randrange(1, 4)):
        ops.append(some_write())
    if rng.random() < 0.3:
        ops.append({"op": "close_streamer", "s": rng.choice(sids)})
    ops.append({"op": "sync"})
    return {"cfg": cfg, "ops": ops}


def rand_subset(rng, pool, lo=0):
    k = rng.randrange(lo, len(pool) + 1)
    return sorted(rng.sample(list(pool), k))


def gen_indexless_case(rng):
    """a writer that opened a data channel WITHOUT its index (it writes against index samples
    another writer persisted), next to the index's own writer and virtual-only writers; its
    frames sometimes carry the index key (or other foreign keys) anyway"""
    chans = [{"k": k, "kind": "v"} for k in VIRT] + [{"k": IDX, "kind": "i"}, {"k": DATA, "kind": "d", "idx": IDX}]
    allkeys = VIRT + [IDX, DATA]
    cfg = {"buf": rng.choice([2, 3, 8, 1000]), "timeout_ms": 5000, "out_buf": rng.choice([0, 1, 4]), "chans": chans}
    va = rand_subset(rng, VIRT, 0)
    ops = [{"op": "open_writer", "w": 1, "mode": "ps", "chans": [IDX] + va, "auths": [255]}]
    ns = 0
    for _ in range(rng.randrange(1, 3)):
        ns += 1
        ops.append({"op": "open_streamer", "s": ns, "keys": list(allkeys) if rng.random() < 0.7 else rand_subset(rng, allkeys, 1)})
    n_idx = 0
    for _ in range(rng.randrange(2, 6)):
        ops.append({"op": "write", "w": 1, "keys": [IDX] + rand_subset(rng, va, 0)})
        n_idx += 1
    if rng.random() < 0.5:
        ops.append({"op": "sync"})
    vb = rand_subset(rng, VIRT, 0)
    cb = [DATA] + vb
    ops.append({"op": "open_writer", "w": 2, "mode": rng.choice(["ps", "so", "ps"]), "chans": cb,
                "auths": [rng.choice([255, 200, 100])] if rng.random() < 0.6 else [rng.choice(AUTHS) if k != DATA else 255 for k in cb]})
    if rng.random() < 0.5:
        ops.append({"op": "open_writer", "w": 3, "mode": "so", "chans": rand_subset(rng, VIRT, 1), "auths": [rng.choice(AUTHS)]})
    n_data = 0
    for _ in range(rng.randrange(3, 12)):
        x = rng.random()
        if x < 0.45 and n_data < n_idx:
            ks = [DATA]
            y = rng.random()
            if y < 0.45:
                ks = [IDX, DATA] if rng.random() < 0.5 else [DATA, IDX]      # the index it never opened
            elif y < 0.6:
                others = [k for k in VIRT if k not in vb]
                if others:
                    ks = ks + [rng.choice(others)]                            # another foreign key
            ks = ks + rand_subset(rng, vb, 0)
            ops.append({"op": "write", "w": 2, "keys": ks})
            n_data += 1
        elif x < 0.6:
            ops.append({"op": "write", "w": 1, "keys": [IDX] + rand_subset(rng, va, 0)})
            n_idx += 1
        elif x < 0.7 and any(o["op"] == "open_writer" and o["w"] == 3 for o in ops):
            w3 = next(o for o in ops if o["op"] == "open_writer" and o["w"] == 3)
            ops.append({"op": "write", "w": 3, "keys": rand_subset(rng, w3["chans"], 1)})
        elif x < 0.8:
            ops.append({"op": "resub", "s": rng.randrange(1, ns + 1), "keys": rand_subset(rng, allkeys, 0)})
        elif x < 0.9:
            ops.append({"op": "sync"})
        elif ns < 3:
            ns += 1
            ops.append({"op": "open_streamer", "s": ns, "keys": rand_subset(rng, allkeys, 1)})
    ops.append({"op": "sync"})
    return {"cfg": cfg, "ops": ops}


def gen_autoindex_case(rng):
    """auto-index writers (cesium generates the index series of every frame) written in bursts
    while a consumer reads only afterwards; streamers subscribed to the index, the data, both"""
    chans = [{"k": k, "kind": "v"} for k in VIRT] + [{"k": IDX, "kind": "i"}, {"k": DATA, "kind": "d", "idx": IDX}]
    allkeys = VIRT + [IDX, DATA]
    out_buf = rng.choice([4, 8])
    cfg = {"buf": rng.choice([3, 8, 1000]), "timeout_ms": 5000, "out_buf": out_buf, "chans": chans}
    ops = []
    writers = {}

    def open_auto(w):
        vs = rand_subset(rng, VIRT, 0)
        cs = [DATA] + vs if rng.random() < 0.7 else vs + [DATA]
        au = [rng.choice([255, 255, 200, 100])] if rng.random() < 0.6 else [rng.choice(AUTHS) for _ in cs]
        ops.append({"op": "open_writer", "w": w, "mode": rng.choice(["ps", "ps", "so"]), "chans": cs, "auths": au, "auto": True})
        writers[w] = cs
    open_auto(1)
    ns = 0

    def open_s():
        nonlocal ns
        ns += 1
        ks = rng.choice([[IDX], [IDX, DATA], list(allkeys), [DATA], rand_subset(rng, allkeys, 1)])
        o = {"op": "open_streamer", "s": ns, "keys": list(ks)}
        prev = [x for x in ops if x["op"] == "open_streamer"]
        if prev and rng.random() < 0.3:
            j = rng.choice(prev)
            o["keys"], o["share"] = list(j["keys"]), j["s"]
        ops.append(o)
    open_s()
    if rng.random() < 0.7:
        open_s()
    if rng.random() < 0.35:
        open_auto(2)
    elif rng.random() < 0.4:
        ops.append({"op": "open_writer", "w": 2, "mode": "so", "chans": rand_subset(rng, VIRT, 1), "auths": [rng.choice(AUTHS)]})
        writers[2] = ops[-1]["chans"]

    def write():
        w = rng.choice(sorted(writers))
        cs = writers[w]
        ks = rand_subset(rng, [k for k in cs if k != DATA], 0)
        if DATA in cs and rng.random() < 0.85:
            ks = ks + [DATA] if rng.random() < 0.5 else [DATA] + ks
        if not ks:
            ks = [cs[0]]
        ops.append({"op": "write", "w": w, "keys": ks})
    for _ in range(rng.randrange(2, 5)):
        x = rng.random()
        if x < 0.45:
            # burst: a consumer stops reading, several frames are written, then it reads
            s = rng.randrange(1, ns + 1)
            ops.append({"op": "pause", "s": s})
            for _ in range(rng.randrange(2, out_buf)):
                write()
            ops.append({"op": "resume", "s": s})
        elif x < 0.8:
            for _ in range(rng.randrange(2, 7)):
                write()
        elif x < 0.9:
            ops.append({"op": "resub", "s": rng.randrange(1, ns + 1), "keys": rng.choice([[IDX], [IDX, DATA], list(allkeys), rand_subset(rng, allkeys, 0)])})
        elif ns < 3:
            open_s()
        if rng.random() < 0.5:
            ops.append({"op": "sync"})
        if rng.random() < 0.1 and len(writers) > 1:
            w = rng.choice(sorted(writers))
            ops.append({"op": rng.choice(["close_writer", "set_auth"]), "w": w, "auth": rng.choice(AUTHS)})
            if ops[-1]["op"] == "close_writer":
                del writers[w]
    ops.append({"op": "sync"})
    return {"cfg": cfg, "ops": ops}


def flood_case(buf=2):
    """known finding: writes after DB.Close fill the dead relay inlet and block"""
    ops = [{"op": "open_writer", "w": 1, "mode": "so", "chans": [1], "auths": [255]},
           {"op": "close_db"}]
    ops += [{"op": "write", "w": 1, "keys": [1]} for _ in range(buf + 1)]
    return {"cfg": {"buf": buf, "timeout_ms": 5000, "out_buf": 1,
                    "chans": [{"k": k, "kind": "v"} for k in VIRT]}, "ops": ops}


def gen_cases(rng, tier, n):
    out = []
    for _ in range(n):
        x = rng.random()
        if x < 0.04:
            out.append(gen_stall_case(rng))
        elif x < 0.14:
            out.append(gen_indexless_case(rng))
        elif x < 0.22:
            out.append(gen_autoindex_case(rng))
        else:
            out.append(gen_case(rng, tier))
    return out


# --------------------------------------------------------------------------- printing
def c_kind(c):
    return {"v": "KV", "i": "KI"}.get(c["kind"]) or "(KD %s)" % cN(c["idx"])


def c_keys(ks):
    return clist([cN(k) for k in (ks or [])])


def c_op(o):
    k = o["op"]
    if k == "open_writer":
        return "OpenW %s %s %s %s" % (cN(o["w"]), {"ps": "PS", "so": "SO", "po": "PO"}[o.get("mode") or "ps"],
                                      c_keys(o.get("chans")), c_keys(o.get("auths")))
    if k == "close_writer":
        return "CloseW %s" % cN(o["w"])
    if k == "set_auth":
        return "SetAuth %s %s" % (cN(o["w"]), cN(o["auth"]))
    if k == "write":
        return "Write %s %s %s" % (cN(o["w"]), c_keys(o.get("keys")), cbool(bool(o.get("bad"))))
    if k == "open_streamer":
        return "OpenS %s %s" % (cN(o["s"]), c_keys(o.get("keys")))
    if k == "resub":
        return "Resub %s %s" % (cN(o["s"]), c_keys(o.get("keys")))
    if k == "close_streamer":
        return "CloseS %s" % cN(o["s"])
    if k == "pause":
        return "Pause %s" % cN(o["s"])
    if k == "resume":
        return "Resume %s" % cN(o["s"])
    if k == "sync":
        return "Sync"
    if k == "bg_writes":
        return "BgWrites %s %s" % (cN(o["w"]), clist([c_keys(ks) for ks in (o.get("kss") or [])]))
    if k == "join":
        return "Join %s" % cN(o["w"])
    if k == "close_db":
        return "CloseDB"
    raise ValueError(k)


def c_out(o, r):
    e = r.get("e", "")
    if o["op"] == "close_db" and e == "err":
        e = ""
    if e == "skip":
        return "OSkip"
    if e:
        return "OErr"
    return "(OOk %s)" % cbool(bool(r.get("a")))


def full_script(case, r):
    ops = list(case["ops"]) + list(r.get("tear_ops") or [])
    outs = r.get("ops") or []
    pairs = [(o, x) for o, x in zip(ops, outs) if o["op"] != "settle"]   # settle: timing only
    return [o for o, _ in pairs], [x for _, x in pairs]


def expand_auto(case, ops):
    """An auto-index writer (open_writer with auto=true) is, for the model, a writer that opened
    the index of its data channels too (cesium opens it implicitly, with the highest authority of
    the data channels that reference it) and whose frames carry the index series (cesium appends
    the generated series at the end of every frame that has data of the group but no index)."""
    idx_of = {c["k"]: c["idx"] for c in case["cfg"]["chans"] if c["kind"] == "d"}
    autos = {}
    out = []

    def stamp(w, ks):
        ks = list(ks or [])
        for i in autos.get(w, []):
            if i not in ks and any(idx_of.get(k) == i for k in ks):
                ks.append(i)
        return ks
    for o in ops:
        o = dict(o)
        if o["op"] == "open_writer" and o.get("auto"):
            cs, au = list(o.get("chans") or []), list(o.get("auths") or [])
            implicit = []
            for k in cs:
                i = idx_of.get(k)
                if i is not None and i not in cs and i not in implicit:
                    implicit.append(i)
            if len(au) == len(cs) and len(au) != 1:
                au = au + [max(a for k, a in zip(cs, au) if idx_of.get(k) == i) for i in implicit]
            o["chans"], o["auths"] = cs + implicit, au
            autos.setdefault(o["w"], implicit)
        elif o["op"] == "write" and o.get("w") in autos:
            o["keys"] = stamp(o["w"], o.get("keys"))
        elif o["op"] == "bg_writes" and o.get("w") in autos:
            o["kss"] = [stamp(o["w"], ks) for ks in (o.get("kss") or [])]
        out.append(o)
    return out


def to_coq(case, r):
    cfg = case["cfg"]
    chans = clist([cpair(cN(c["k"]), c_kind(c)) for c in cfg["chans"]])
    ops, outs = full_script(case, r)
    ops = expand_auto(case, ops)
    script = clist([cpair(c_op(o), c_out(o, x)) for o, x in zip(ops, outs)])
    obs = clist([cpair(cN(s["s"]), clist([cpair(cN(i["w"]), cN(i["seq"]), c_keys(i["keys"])) for i in s["items"]]))
                 for s in (r.get("streams") or [])])
    buf = cfg.get("buf") or 1000
    return cpair(chans, cnat(buf), cN(cfg.get("timeout_ms") or 5000), script, obs)


# --------------------------------------------------------------------------- verdicts
def harness_violation(case, r):
    if r.get("panic"):
        return "panic: " + r["panic"]
    if r.get("hang"):
        return "blocked: " + r["hang"]
    if r.get("anomaly"):
        return "anomaly: " + r["anomaly"]
    return None


def _kinds(case, r):
    out = coq_print(PID, COQ_IMPORTS, "Definition K := Eval vm_compute in violation_kinds (%s).\nPrint K." % to_coq(case, r))
    m = re.search(r"K\s*=\s*\[([^\]]*)\]", out.replace("\n", " "))
    if not m:
        return None
    return sorted(int(x.replace("%N", "").strip()) for x in m.group(1).split(";") if x.strip())


def tags(case, r):
    t = set()
    if r is None:
        return t
    if r.get("hang") and "Writer.Write blocked" in r["hang"]:
        # signature of the known finding: a stream-enabled Write after DB.Close, and the
        # number of pushes since the last barrier before the close exceeds the capacity
        ops = case["ops"]
        m = re.match(r"op (\d+) ", r["hang"])
        if m:
            i = int(m.group(1))
            if any(o["op"] == "close_db" for o in ops[:i]) and i < len(ops) and ops[i]["op"] == "write":
                t.add("write_blocks_after_db_close")
        return t
    if harness_violation(case, r):
        return t
    ks = _kinds(case, r)
    if ks == [6]:
        t.add("unowned_key_relayed")
    return t


def nontrivial(case, r):
    if not r or r.get("hang") or r.get("panic"):
        return False
    ws = set()
    mx = 0
    for s in r.get("streams") or []:
        mx = max(mx, len(s["items"]))
        for i in s["items"]:
            ws.add(i["w"])
    ops, outs = full_script(case, r)
    excl = any(o["op"] == "write" and x.get("e") == "" and not x.get("a") for o, x in zip(ops, outs))
    dyn = any(o["op"] in ("resub", "close_streamer", "close_db", "pause") and x.get("e") != "skip"
              for o, x in zip(ops, outs))
    return len(ws) >= 2 and mx >= 3 and excl and dyn


def histogram(case, r):
    ks = ["buf=%s" % case["cfg"]["buf"], "timeout_ms=%s" % case["cfg"]["timeout_ms"],
          "persisted=%s" % any(c["kind"] != "v" for c in case["cfg"]["chans"])]
    ops, outs = full_script(case, r or {})
    for o, x in zip(ops, outs):
        ks.append("op=" + o["op"])
        if o["op"] == "write" and len(o.get("keys") or []) > 100:
            ks.append("wide_frame(>=126 entries)")
        if o["op"] == "write":
            ks.append("write:" + ("err" if x.get("e") not in ("", "skip") else "skip" if x.get("e") else
                                  ("authorized" if x.get("a") else "partly-unauthorized")))
        if o["op"] == "open_streamer" and o.get("share"):
            ks.append("streamer_opened_from_shared_key_slice")
        if o["op"] == "open_writer" and o.get("auto"):
            ks.append("auto_index_writer")
        if o["op"] == "open_writer":
            ks.append("mode=" + (o.get("mode") or "ps"))
            if x.get("e"):
                ks.append("open_writer:err")
    n = sum(len(s["items"]) for s in (r or {}).get("streams") or [])
    ks.append("received=%s" % ("0" if n == 0 else "1-5" if n <= 5 else "6-15" if n <= 15 else ">15"))
    if r:
        m = r.get("max_ms", 0)
        ks.append("slowest_call=%s" % ("<10ms" if m < 10 else "<100ms" if m < 100 else "<1s" if m < 1000 else "<5s" if m < 5000 else ">=5s"))
        ks.append("probe_rounds=%s" % ("<=3" if r.get("syncs", 0) <= 3 else "4-10" if r.get("syncs", 0) <= 10 else ">10"))
    return ks


def neighbours(case, rng):
    out = []
    for i in range(len(case["ops"])):
        c = json.loads(json.dumps(case))
        del c["ops"][i]
        out.append(c)
    for i in range(len(case["ops"]) + 1):
        c = json.loads(json.dumps(case))
        c["ops"].insert(i, {"op": "sync"})
        out.append(c)
    for b in (1, 2, 1000):
        c = json.loads(json.dumps(case))
        c["cfg"]["buf"] = b
        out.append(c)
    return out[:120]


def fixup(case):
    seen = {}
    for o in case.get("ops", []):
        if o.get("op") == "open_streamer":
            j = o.get("share")
            if j and (j not in seen or seen[j] != list(o.get("keys") or [])):
                o.pop("share", None)
            seen.setdefault(o["s"], list(o.get("keys") or []))
    return case


def model_dump(case, r):
    return coq_print(PID, COQ_IMPORTS, "Eval vm_compute in model_dump (%s)." % to_coq(case, r))[-8000:]


RULE = ("seeded sequential driver scripts of 10-34 operations (real relay / streamer / writer goroutines run concurrently "
        "with the driver) over 3 virtual channels (+ an index/data pair in 40%): 1-4 writers (persist+stream, stream-only, "
        "persist-only; single or per-channel authorities from {255,200,100,50,0}, so several writers contend per channel), "
        "0-3 streamers with arbitrary key sets (also empty, also unknown keys; 35% of the later ones opened from the very key "
        "slice an earlier streamer was opened from); operations: open/close writer, write (subset of "
        "held keys, index groups whole; 30% of scripts carry malformed steps: never-opened key, duplicate key, partial index "
        "group, wrong data type, unknown channel, wrong authority count), set-authority, open / re-subscribe / close streamer, "
        "pause / resume consumer (15% of scripts, slow-consumer timeout 1.5 s there, 5 s otherwise), barrier, background writer "
        "(a goroutine issuing 2-4 Writes concurrently with the next 1-4 driver operations — writes of other writers, streamer "
        "open / re-subscribe / close, DB close — then join; ~40% of scripts), DB close (12%, "
        "followed by further writes and operations); relay capacity from {1,2,3,8,1000}, streamer outlet buffer from {0,1,4}. "
        "Two further flavours: 4% 'double stall' scripts (three streamers, two consumers stalled at the same time next to an "
        "always-ready one while frames are written; timeout 1 s) and 10% 'index-less writer' scripts (an index-only writer plus a "
        "writer that opened the data channel without its index and whose frames carry the index key or other foreign keys), "
        "and 8% 'auto-index' scripts (writers with AutoIndex: cesium generates the index series of every frame; frames written in "
        "bursts while a consumer reads only afterwards; streamers subscribed to the index only / data only / both). "
        "Non-trivial = frames of >=2 writers received, some streamer received >=3 frames, some write had keys excluded as "
        "unauthorized, and a re-subscribe / streamer close / pause / DB close took effect; distinct by hash.")
TRUSTED = ["hook cesium/export_verif_c20.go (WithVerifStreamingConfig: relay capacity and slow-consumer timeout, otherwise unexported)",
           "harness hooks/cesium/verifh/c20 (built with -race): real cesium.DB on an in-memory FS, real writers / streamers / relay; "
           "a unique (writer, sequence) tag in every sample; an always-ready consumer goroutine per streamer; key slices shared between "
           "streamers and checked unmodified once all their streamers exited; barriers by probe "
           "frames on two dedicated virtual channels (probe key alternates with every re-subscribe so a received probe shows the "
           "active subscription generation) + a sentinel streamer; a 20 s watchdog on every call",
           "content checks in the harness beyond the tags: every received frame is kept uncopied and re-read at the end (must read as "
           "when received); an auto-generated index series is the same for every streamer, unique per write, increasing per writer, "
           "and a sample of the persisted index channel; an all-channel streamer of the harness attributes index-only frames",
           "the monitor computes 'authorized' from the script with the control rule of C05 (highest authority, earliest open; "
           "virtual channels shared, unary channels exclusive)"]
ASSUMES = ["a consumer that is never paused is 'always ready': it takes a frame within the slow-consumer timeout (>= 1.5 s in every case)",
           "writers are opened in Sync mode, so a returned Write has pushed its frame into the relay inlet (asynchronous writers are not modelled); concurrency between writers is exercised by background goroutines whose Writes interleave arbitrarily with the driver's operations (hidden model steps)",
           "index groups are opened and written whole; authorities < 256; writer / streamer ids are not reused",
           "delivery of one frame to all connected streamers is one atomic model step (the relay goroutine serves them sequentially "
           "and accepts no connect / disconnect meanwhile)"]
PARTIAL = ("'never blocks writers indefinitely' is proved as absence of deadlock states of the model (C20_no_writer_deadlock_partial, "
           "C20_streamer_close_progress_partial, C20_hidden_steps_terminate, C20_other_operations_never_block) and OBSERVED on the real "
           "code with a 20 s watchdog on every Write / Close / Flow / DB.Close call of every case; Go data races (observed with -race), "
           "timer behaviour and real scheduling are not modelled. Completeness is proved per delivery step (every dequeued frame is "
           "handed to every connected ready streamer; frames leave the inlet only by delivery or DB close), not as one closed formula "
           "over whole runs.")
READY = True
TECHNIQUE = ("Coq proof: invariants over a labelled transition system (all interleavings of driver operations with hidden relay / "
             "streamer steps) + trace inclusion of the implementation in the LTS decided by an executable checker (subset "
             "construction over hidden states, proved sound and complete) evaluated by vm_compute on every case")
DESIGN_REF = "DESIGN.md §8 C20"
LEVEL_TEXT = ("Machine-checked Coq theorems over an executable LTS copying cesium's streaming pipeline (streamWriter.write incl. exclusion "
              "of unauthorized keys and the index-group rule, control gates, relay inlet FIFO with capacity, DynamicDeltaMultiplier "
              "fan-out with timeout-drop only for a not-ready consumer, streamer filter / re-subscribe / disconnect, DB.Close): for every "
              "reachable state of every interleaving, each inbox is a tag-subsequence of the pushed frames in push order without "
              "duplicates and in each writer's order (C20_subsequence_in_order); items come only from stream-enabled writers' pushed "
              "frames and never carry an unauthorized key (C20_received_from_streaming_writes, C20_pushes_only_authorized_series); every "
              "receive step filters by the subscription held at that step (C20_filtered_by_current_subscription); every dequeued frame "
              "reaches every connected ready streamer and frames leave the inlet only by delivery or DB close (C20_complete_if_ready, "
              "C20_fifo_discipline); no deadlock state for writers / streamer close (…_partial). The model is tied to /repo on every run: "
              "the real DB is driven through generated scripts, and an executable checker — proved to accept exactly the observations of "
              "LTS runs (C20_every_run_accepted, C20_accepted_is_a_run) — decides inside Coq whether what every streamer received, and "
              "every operation's outcome, is allowed by the model; a decidable monitor states the property's clauses directly on the "
              "implementation's observations and yields the replay.")
LEVEL_NOTE = ("Trusted: Coq kernel / vm_compute; hand-written model (tied by correspondence, not translation); harness, hook "
              "WithVerifStreamingConfig, probe-frame barriers, generator. Partial: the real 'never blocks indefinitely' is observed with a "
              "20 s watchdog, proved only as deadlock freedom of the model; data races observed with -race, not proved; completeness "
              "stated per delivery step. Not modelled: asynchronous (non-Sync) writers, auto-index writers, control digests, real timers. "
              "All theorems closed under the global context. Findings F60 (series of never-opened channels relayed) and F61 (Write blocks "
              "forever on the dead relay inlet after DB.Close) were found by this check and repaired by fix: commits; "
              "C20_unowned_series_refuted / C20_dead_inlet_refuted keep the witnesses.")
