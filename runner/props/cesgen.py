"""Shared generator / Coq printers for the cesium read-write model (C10, C01).

A *setup* is {"cap", "channels":[{"key","index","dt"}], "script":[op...]} as understood by the Go
package verifh/cesh; the Coq side is Cesium/UnaryWrite.v (wop) and Cesium/Read.v.
"""
MAXTS = 2 ** 63 - 1
KINDS = {"timestamp": 0, "int64": 0, "uint8": 1, "float32": 2, "string": 3, "json": 4}
SPACINGS = [1, 2, 7, 1000]


def z(n):
    n = int(n)
    return "(%d)" % n if n < 0 else "%d" % n


def zl(xs):
    return "[" + ";".join(z(x) for x in xs) + "]"


def c_tr(a, b):
    return "(TR %s %s)" % (z(a), z(b))


def c_chans(chs):
    return "[" + ";".join("(%d,%d,%d)" % (c["key"], c["index"], KINDS[c["dt"]]) for c in chs) + "]"


def c_wop(o):
    k = o["op"]
    if k == "open":
        return "WOpen %s %s %s" % (zl(o["keys"]), z(o["start"]), "true" if o["auto"] else "false")
    if k == "write":
        fr = "[" + ";".join("(%d,%s)" % (kv["k"], zl(kv["v"])) for kv in o["frame"]) + "]"
        if o.get("fault"):
            return "WWriteFault %s %d %s" % (fr, o["fault"]["k"], z(o["fault"]["j"]))
        return "WWrite " + fr
    return {"commit": "WCommit", "close": "WClose", "reopen": "WReopen"}[k]


def c_script(ops):
    return "[" + ";".join(c_wop(o) for o in ops) + "]"


def c_sres(rs):
    return "[" + ";".join("(%d,%s)" % (r["err"], z(r.get("end", 0))) for r in rs) + "]"


def c_series(s):
    return "Ser %s %s" % (c_tr(s["s"], s["e"]), zl(s["d"]))


# ------------------------------------------------------------------ layouts
def gen_channels(rng, max_idx=3, max_data=3, min_data=0):
    """1-3 index channels x 0-3 data channels each."""
    chans = []
    key = 1
    nidx = rng.choice([1, 1, 1, 2, 2, 3][:max(1, max_idx * 2)])
    for _ in range(nidx):
        ik = key
        chans.append({"key": ik, "index": 0, "dt": "timestamp"})
        key += 1
        for _ in range(rng.randrange(min_data, max_data + 1)):
            chans.append({"key": key, "index": ik,
                          "dt": rng.choice(["int64", "int64", "uint8", "float32", "string", "string", "json"])})
            key += 1
    return chans


def groups_of(chans):
    g = {}
    for c in chans:
        ik = c["key"] if c["index"] == 0 else c["index"]
        g.setdefault(ik, []).append(c["key"])
    return g


class ValueSrc:
    """distinct small sample values per data channel (uint8 stays below 256).  On the
    variable-length types (string, json) the value 0 is the ZERO-LENGTH sample (a record that is
    a length prefix only); it is placed preferably at the end of a frame, i.e. where a commit may
    end a domain, so that offset tables rebuilt from the file see a prefix-only last record."""

    def __init__(self, chans, rng=None):
        self.next = {c["key"]: (c["key"] % 7) * 3 + 1 for c in chans}
        self.var = {c["key"] for c in chans if c["dt"] in ("string", "json")}
        self.rng = rng

    def take(self, key, n):
        v = self.next[key]
        self.next[key] = v + n
        out = list(range(v, v + n))
        if self.rng is not None and key in self.var and n > 0:
            if self.rng.random() < 0.4:
                out[-1] = 0
            if self.rng.random() < 0.12:
                out[self.rng.randrange(n)] = 0
        return out


def gen_region_stamps(rng, t0, nframes, spacing_choices=SPACINGS):
    """frames of 1-8 samples with strictly increasing stamps starting at t0"""
    frames = []
    t = t0
    for _ in range(nframes):
        n = rng.choice([1, 1, 2, 3, 4, 5, 8])
        sp = rng.choice(spacing_choices)
        st = []
        for _ in range(n):
            st.append(t)
            t += rng.choice([sp, sp, sp, rng.choice(spacing_choices)])
        frames.append(st)
    return frames, t


def gen_rollover_setup(rng):
    """Layouts where the index file rolls over several times inside one writer session while a
    narrower data channel keeps one domain (and vice versa for strings): many committed frames
    under a tiny file-size cap."""
    chans = [{"key": 1, "index": 0, "dt": "timestamp"}]
    for k in range(2, 2 + rng.choice([1, 1, 2])):
        chans.append({"key": k, "index": 1, "dt": rng.choice(["uint8", "uint8", "float32", "int64", "string"])})
    vals = ValueSrc(chans, rng)
    cap = rng.choice([40, 40, 64, 100])
    script = []
    t = rng.choice([0, 3, 1000])
    for _ in range(rng.choice([1, 1, 2])):
        lead = rng.choice([0, 0, 1])
        frames, tend = gen_region_stamps(rng, t + lead, rng.randrange(3, 8))
        keys = [c["key"] for c in chans]
        rng.shuffle(keys)
        auto = rng.random() < 0.5
        script.append({"op": "open", "keys": keys, "start": t, "auto": auto})
        for st in frames:
            script.append({"op": "write", "frame": [
                {"k": k, "v": list(st) if k == 1 else vals.take(k, len(st))} for k in keys]})
            if not auto and rng.random() < 0.8:
                script.append({"op": "commit"})
        if not auto:
            script.append({"op": "commit"})
        script.append({"op": "close"})
        t = frames[-1][-1] + 1 + rng.choice([0, 1, 1000])
    return {"cap": cap, "channels": chans, "script": script}


def gen_setup(rng, malformed=False, max_idx=3, max_data=3, min_data=0, allow_reopen=True):
    if not malformed and rng.random() < 0.2:
        return gen_rollover_setup(rng)
    """A mostly legal write script: several writer sessions at disjoint times (one may lie
    before existing data, one may be contiguous with the previous one), explicit commits or
    auto-commit, small file-size caps forcing rollover, groups that do not write their index."""
    chans = gen_channels(rng, max_idx, max_data, min_data)
    groups = groups_of(chans)
    vals = ValueSrc(chans, rng)
    cap = rng.choice([0, 0, 0, 40, 64, 100, 100, 200, 1000])
    nsess = rng.choice([1, 2, 2, 3, 3, 4])
    # plan disjoint regions on one time line shared by all index groups
    regions = []
    t = rng.choice([0, 0, 3, 10, 1000])
    for _ in range(nsess):
        lead = rng.choice([0, 0, 0, 1, 5])          # writer start before the first stamp
        nframes = rng.choice([1, 2, 2, 3, 4])
        frames, tend = gen_region_stamps(rng, t + lead, nframes)
        regions.append({"start": t, "frames": frames, "end": frames[-1][-1] + 1})
        t = regions[-1]["end"] + rng.choice([0, 0, 1, 2, 7, 1000, 10 ** 6])   # 0: contiguous writers
    order = list(range(nsess))
    if nsess > 1 and rng.random() < 0.35:
        rng.shuffle(order)                           # some sessions write before existing data
    script = []
    skipped_data = {}                               # region -> data keys left for a data-only writer
    for ri in order:
        reg = regions[ri]
        idx_keys = sorted(groups)
        use_idx = [k for k in idx_keys if rng.random() < 0.8] or [rng.choice(idx_keys)]
        keys = []
        left = []
        for ik in use_idx:
            ks = list(groups[ik])
            if len(ks) > 1 and rng.random() < 0.2:
                drop = rng.choice(ks[1:])
                ks.remove(drop)
                left.append((ik, drop))
            keys += ks
        rng.shuffle(keys)
        auto = rng.random() < 0.4
        script.append({"op": "open", "keys": keys, "start": reg["start"], "auto": auto})
        written = 0
        for fi, st in enumerate(reg["frames"]):
            fr = []
            for k in keys:
                c = next(c for c in chans if c["key"] == k)
                fr.append({"k": k, "v": list(st) if c["index"] == 0 else vals.take(k, len(st))})
            script.append({"op": "write", "frame": fr})
            written += len(st)
            if not auto and (fi == len(reg["frames"]) - 1 or rng.random() < 0.5):
                script.append({"op": "commit"})
        if rng.random() < 0.12 and not auto:
            # trailing write that is never committed (only grows the file)
            st = [reg["end"] + j for j in range(rng.choice([1, 2, 5]))]
            fr = []
            for k in keys:
                c = next(c for c in chans if c["key"] == k)
                fr.append({"k": k, "v": list(st) if c["index"] == 0 else vals.take(k, len(st))})
            script.append({"op": "write", "frame": fr})
        script.append({"op": "close"})
        if left and reg["frames"][0][0] == reg["start"] and rng.random() < 0.8:
            # a later writer fills a data channel without writing the index
            allst = [s for f in reg["frames"] for s in f]
            for ik, dk in left:
                n = rng.randrange(1, len(allst) + 1)
                script.append({"op": "open", "keys": [dk], "start": reg["start"], "auto": rng.random() < 0.3})
                pos = 0
                while pos < n:
                    m = min(n - pos, rng.choice([1, 2, 3, 8]))
                    script.append({"op": "write", "frame": [{"k": dk, "v": vals.take(dk, m)}]})
                    pos += m
                script.append({"op": "commit"})
                script.append({"op": "close"})
        if allow_reopen and rng.random() < 0.15:
            script.append({"op": "reopen"})
    if malformed:
        script = mutate_script(rng, chans, script, regions)
    return {"cap": cap, "channels": chans, "script": script}


def gen_gc_setup(rng):
    """Layouts on which a garbage-collection pass has work to do and must MOVE domains: 2-4 small
    committed sessions written in descending (70%) or shuffled time order under a file-size cap
    of {100,200,1000} B, so that they share domain files out of time order, plus one session
    whose write is never committed and is large enough (>= 20% of the nominal file size on the
    8-byte channels) to make the file worth compacting; Close+Open at the end (the collector
    skips files that still have a pooled writer handle). The caller appends the GC pass."""
    chans = gen_channels(rng, max_idx=2, max_data=2, min_data=1)
    groups = groups_of(chans)
    vals = ValueSrc(chans, rng)
    cap = rng.choice([100, 200, 200, 1000])
    nsess = rng.choice([2, 2, 3, 4])
    regions = []
    t = rng.choice([0, 3, 10, 1000])
    for _ in range(nsess + 1):
        frames, _ = gen_region_stamps(rng, t, rng.choice([1, 1, 2]), spacing_choices=[1, 2, 7])
        frames = [f[:rng.choice([2, 3, 4])] for f in frames]
        regions.append({"start": t, "frames": frames, "end": frames[-1][-1] + 1})
        t = regions[-1]["end"] + rng.choice([0, 1, 7, 1000])
    garbage = rng.randrange(nsess + 1)               # which region is never committed
    g = -(-(cap * 16) // 800) + rng.choice([0, 1, 3])   # ceil(0.2 * 0.8 * cap / 8 B) samples
    t0 = regions[garbage]["start"]
    sp = 1 if garbage < nsess else rng.choice([1, 2])
    room = (regions[garbage + 1]["start"] - t0) if garbage < nsess else g * sp
    if room < g:                                     # keep the regions disjoint: shift the later ones
        for r in regions[garbage + 1:]:
            d = g - room
            r["start"] += d
            r["frames"] = [[x + d for x in f] for f in r["frames"]]
            r["end"] += d
    regions[garbage]["frames"] = [[t0 + j * sp for j in range(g)]]
    regions[garbage]["end"] = t0 + (g - 1) * sp + 1
    order = list(range(nsess + 1))
    if rng.random() < 0.7:
        order.reverse()
        if rng.random() < 0.5:                       # garbage first / last in writing order
            order.remove(garbage)
            order.insert(rng.choice([0, len(order)]), garbage)
    else:
        rng.shuffle(order)
    script = []
    for ri in order:
        reg = regions[ri]
        keys = [k for ik in sorted(groups) for k in groups[ik]]
        rng.shuffle(keys)
        script.append({"op": "open", "keys": keys, "start": reg["start"], "auto": False})
        for fi, st in enumerate(reg["frames"]):
            fr = []
            for k in keys:
                c = next(c for c in chans if c["key"] == k)
                fr.append({"k": k, "v": list(st) if c["index"] == 0 else vals.take(k, len(st))})
            script.append({"op": "write", "frame": fr})
            if ri != garbage and (fi == len(reg["frames"]) - 1 or rng.random() < 0.5):
                script.append({"op": "commit"})
        script.append({"op": "close"})
        if rng.random() < 0.1:
            script.append({"op": "reopen"})
    script.append({"op": "reopen"})
    return {"cap": cap, "channels": chans, "script": script}


def mutate_script(rng, chans, script, regions):
    """turn one step into an illegal one"""
    script = [dict(o) for o in script]
    kind = rng.choice(["overlap_open", "drop_series", "commit_empty", "dataonly_between", "run_into_next",
                       "write_closed", "unknown_key"])
    groups = groups_of(chans)
    if kind == "overlap_open":
        r = rng.choice(regions)
        st = [s for f in r["frames"] for s in f]
        keys = list(groups[sorted(groups)[0]])
        script += [{"op": "open", "keys": keys, "start": rng.choice(st), "auto": False}, {"op": "close"}]
    elif kind == "drop_series":
        ws = [i for i, o in enumerate(script) if o["op"] == "write" and len(o["frame"]) > 1]
        if ws:
            i = rng.choice(ws)
            opens = [j for j in range(i) if script[j]["op"] == "open"]
            keys = script[opens[-1]]["keys"]
            gks = set(k for ik, ks in groups.items() for k in ks if ik in groups)
            single_group = len({(c["key"] if c["index"] == 0 else c["index"]) for c in chans if c["key"] in keys}) == 1
            if single_group:
                fr = list(script[i]["frame"])
                fr.pop(rng.randrange(len(fr)))
                script[i] = {"op": "write", "frame": fr}
    elif kind == "commit_empty":
        os_ = [i for i, o in enumerate(script) if o["op"] == "open"]
        i = rng.choice(os_)
        script.insert(i + 1, {"op": "commit"})
    elif kind == "dataonly_between":
        dks = [c["key"] for c in chans if c["index"] != 0]
        if dks:
            r = rng.choice(regions)
            script += [{"op": "open", "keys": [rng.choice(dks)], "start": r["end"] + 3, "auto": False},
                       {"op": "write", "frame": [{"k": dks[0], "v": [200]}]}, {"op": "commit"}, {"op": "close"}]
    elif kind == "run_into_next":
        if len(regions) > 1:
            r0 = regions[0]
            ik = sorted(groups)[0]
            keys = list(groups[ik])
            s0 = max(0, r0["start"] - 50)
            if s0 < r0["start"]:
                fr = [{"k": k, "v": [s0, r0["start"] + 1] if k == ik else [250, 251]} for k in keys]
                script += [{"op": "open", "keys": keys, "start": s0, "auto": False},
                           {"op": "write", "frame": fr}, {"op": "commit"}, {"op": "close"}]
    elif kind == "write_closed":
        script += [{"op": "close"}, {"op": "commit"}]
    elif kind == "unknown_key":
        script += [{"op": "open", "keys": [77], "start": 5, "auto": False}]
    return script


def sample_stamps(setup, key=None):
    """all index stamps written in the script (for the channel's index group if key given)"""
    chans = {c["key"]: c for c in setup["channels"]}
    ik = None
    if key is not None:
        c = chans[key]
        ik = key if c["index"] == 0 else c["index"]
    out = set()
    starts = set()
    for o in setup["script"]:
        if o["op"] == "open":
            starts.add(o["start"])
        if o["op"] == "write":
            for kv in o["frame"]:
                c = chans.get(kv["k"])
                if c and c["index"] == 0 and (ik is None or kv["k"] == ik):
                    out.update(kv["v"])
    return sorted(out), sorted(starts)


def positions(setup, key=None):
    st, starts = sample_stamps(setup, key)
    ps = {0, MAXTS}
    for s in st:
        ps.update([s, s - 1, s + 1])
    for s in starts:
        ps.update([s, s - 1, s + 1])
    return sorted(p for p in ps if 0 <= p <= MAXTS), st


def commit_edges(setup_or_ops):
    """possible domain edges: every frame's last index stamp + 1 (a commit end, hence a possible
    file-rollover boundary) and every writer start"""
    ops = setup_or_ops["script"] if isinstance(setup_or_ops, dict) else setup_or_ops
    out = set()
    for o in ops:
        if o["op"] == "open":
            out.add(o["start"])
        if o["op"] == "write":
            for kv in o["frame"]:
                if kv["v"]:
                    out.add(kv["v"][-1] + 1)
    return sorted(x for x in out if 0 <= x <= MAXTS)


def add_short_write(rng, setup):
    """Script ONE short write: a data-file Write of one channel of a frame stores only a prefix
    of the series and fails (disk full half way).  Only on writers whose channels share one index
    (the order in which cesium serves several index groups is not determined).  The session is
    closed by the failure; the later sessions of the script reuse the channel's files."""
    chans = {c["key"]: c for c in setup["channels"]}
    script = setup["script"]
    cand = []
    cur = None
    for i, o in enumerate(script):
        if o["op"] == "open":
            idx = {(chans[k]["key"] if chans[k]["index"] == 0 else chans[k]["index"]) for k in o["keys"] if k in chans}
            cur = i if len(idx) == 1 and all(k in chans for k in o["keys"]) else None
        elif o["op"] in ("close", "reopen"):
            cur = None
        elif o["op"] == "write" and cur is not None:
            ks = [kv["k"] for kv in o["frame"] if kv["k"] in chans and
                  (chans[kv["k"]]["dt"] != "uint8" or len(kv["v"]) >= 2) and len(kv["v"]) >= 1]
            if ks:
                cand.append((i, ks))
    if not cand:
        return False
    # prefer an early session so that later writers run on the same files
    i, ks = rng.choice(cand[:max(1, len(cand) // 2)] if rng.random() < 0.7 else cand)
    script[i] = dict(script[i])
    script[i]["fault"] = {"k": rng.choice(ks), "j": rng.randrange(0, 1000)}
    return True
