(* Codec/FrameCodecNorm.v — the normal form put on the wire (KeepKeys, stable sort by
   (key, alignment), merging of alignment-contiguous series): it is a permutation / a
   concatenation of the input that keeps every channel's bytes, it keeps validity, and the
   round trip of a valid frame follows from FrameCodecProofs.decode_encode_wire. *)
From Coq Require Import List NArith Bool Lia PeanoNat Permutation.
Import ListNotations.
From Synnax Require Import Common.Bytes Common.BytesProofs Generated.Consts_C08 Codec.FrameCodec
  Codec.FrameCodecProofs.
Local Open Scope N_scope.

(* ------------------------------------------------------------------ sort *)
Lemma insK_perm x l : Permutation (insK x l) (x :: l).
Proof.
  induction l as [|y r IH]; [reflexivity|]. cbn [insK]. destruct (kle x y); [reflexivity|].
  rewrite IH. apply perm_swap.
Qed.

Lemma sortK_perm l : Permutation (sortK l) l.
Proof.
  induction l as [|x r IH]; [reflexivity|]. cbn [sortK fold_right]. fold (sortK r).
  rewrite insK_perm. now constructor.
Qed.

Lemma sortK_Forall (P : N * series -> Prop) l : Forall P l -> Forall P (sortK l).
Proof. intros H. eapply Permutation_Forall; [|exact H]. symmetry. apply sortK_perm. Qed.

Lemma sortK_In x l : In x (sortK l) <-> In x l.
Proof. split; apply Permutation_in; [|symmetry]; apply sortK_perm. Qed.

(* sortedness for the order of sorter.Less *)
Fixpoint sortedK (l : frame) : Prop :=
  match l with
  | [] => True
  | x :: r => match r with [] => True | y :: _ => kle x y = true end /\ sortedK r
  end.

Lemma kle_total a b : kle a b = false -> kle b a = true.
Proof.
  unfold kle. intros H. apply orb_false_iff in H as [H1 H2].
  apply N.ltb_ge in H1. destruct (fst a =? fst b) eqn:E.
  - apply N.eqb_eq in E. cbn [andb] in H2. apply N.leb_gt in H2.
    rewrite E, N.eqb_refl. cbn [andb]. replace (fst b <? fst b) with false by (symmetry; apply N.ltb_irrefl).
    cbn [orb]. apply N.leb_le. lia.
  - apply N.eqb_neq in E. assert (fst b < fst a) by lia.
    apply orb_true_iff. left. now apply N.ltb_lt.
Qed.

Lemma insK_sorted x l : sortedK l -> sortedK (insK x l).
Proof.
  induction l as [|y r IH]; intros H; [cbn; auto|].
  cbn [insK]. destruct (kle x y) eqn:E.
  - cbn [sortedK]. split; [exact E|exact H].
  - destruct H as [H1 H2]. specialize (IH H2). cbn [sortedK]. split; [|exact IH].
    destruct r as [|z r']; cbn [insK].
    + now apply kle_total.
    + destruct (kle x z); [now apply kle_total|exact H1].
Qed.

Lemma sortK_sorted l : sortedK (sortK l).
Proof.
  induction l as [|x r IH]; [exact I|]. cbn [sortK fold_right]. fold (sortK r). now apply insK_sorted.
Qed.

(* sorting an already sorted list changes nothing *)
Lemma insK_sorted_id x l : sortedK (x :: l) -> insK x l = x :: l.
Proof.
  destruct l as [|y r]; [reflexivity|]. intros [H _]. cbn [insK]. now rewrite H.
Qed.

Lemma sortK_id l : sortedK l -> sortK l = l.
Proof.
  induction l as [|x r IH]; intros H; [reflexivity|].
  cbn [sortK fold_right]. fold (sortK r). destruct H as [H1 H2]. rewrite (IH H2).
  apply insK_sorted_id. split; assumption.
Qed.

(* stability: entries with the same key and alignment keep their relative order; more
   generally, filtering by any predicate that is compatible with the order's ties *)
Definition same_ka (a b : N * series) : bool :=
  (fst a =? fst b) && (s_al (snd a) =? s_al (snd b)).

Lemma insK_filter_eq x l (a : N * series) :
  same_ka a x = true ->
  filter (same_ka a) (insK x l) = x :: filter (same_ka a) l.
Proof.
  intros Hx. induction l as [|y r IH]; cbn [insK filter]; [now rewrite Hx|].
  destruct (kle x y) eqn:E.
  - cbn [filter]. now rewrite Hx.
  - cbn [filter]. destruct (same_ka a y) eqn:Ey.
    + (* y ties with x: then kle x y would hold *)
      exfalso. unfold same_ka in *. apply andb_prop in Hx as [H1 H2]. apply andb_prop in Ey as [H3 H4].
      apply N.eqb_eq in H1, H2, H3, H4. unfold kle in E. apply orb_false_iff in E as [_ E].
      rewrite <- H1, H3, N.eqb_refl in E. cbn [andb] in E. apply N.leb_gt in E. lia.
    + exact IH.
Qed.

Lemma insK_filter_neq x l (a : N * series) :
  same_ka a x = false -> filter (same_ka a) (insK x l) = filter (same_ka a) l.
Proof.
  intros Hx. induction l as [|y r IH]; cbn [insK filter]; [now rewrite Hx|].
  destruct (kle x y); cbn [filter]; [now rewrite Hx|]. now rewrite IH.
Qed.

Lemma sortK_stable l a : filter (same_ka a) (sortK l) = filter (same_ka a) l.
Proof.
  induction l as [|x r IH]; [reflexivity|]. cbn [sortK fold_right filter]. fold (sortK r).
  destruct (same_ka a x) eqn:E.
  - rewrite insK_filter_eq by assumption. now rewrite IH.
  - rewrite insK_filter_neq by assumption. exact IH.
Qed.

(* ------------------------------------------------------------------ merge *)
Lemma chan_data_cons k k' s l :
  chan_data k ((k', s) :: l) = (if k' =? k then s_data s else []) ++ chan_data k l.
Proof. unfold chan_data. cbn [filter fst]. destruct (k' =? k); reflexivity. Qed.

Lemma merge_go_chan_data c k m p l :
  chan_data c (merge_go k m p l) = (if k =? c then s_data m else []) ++ chan_data c l.
Proof.
  revert k m p. induction l as [|[k' s] r IH]; intros k m p.
  - cbn [merge_go]. rewrite chan_data_cons. reflexivity.
  - cbn [merge_go]. destruct ((k' =? k) && (al_upper p =? s_al s)) eqn:E.
    + apply andb_prop in E as [E _]. apply N.eqb_eq in E. subst k'.
      rewrite IH. rewrite chan_data_cons. cbn [extend s_data].
      destruct (k =? c); [now rewrite <- app_assoc|reflexivity].
    + rewrite chan_data_cons. rewrite IH. rewrite chan_data_cons. reflexivity.
Qed.

(* merging concatenates, per channel, exactly the bytes that were there, in order *)
Lemma merge_chan_data c l : chan_data c (merge l) = chan_data c l.
Proof.
  destruct l as [|[k s] r]; [reflexivity|]. cbn [merge]. rewrite merge_go_chan_data.
  now rewrite chan_data_cons.
Qed.

Lemma merge_go_keys k m p l x : In x (map fst (merge_go k m p l)) -> x = k \/ In x (map fst l).
Proof.
  revert k m p. induction l as [|[k' s] r IH]; intros k m p H.
  - cbn in H. destruct H as [H|[]]. now left.
  - cbn [merge_go] in H. destruct ((k' =? k) && (al_upper p =? s_al s)) eqn:E.
    + apply IH in H as [H|H]; [now left|]. right. now right.
    + cbn [map fst In] in H. destruct H as [H|H]; [now left|].
      apply IH in H as [H|H]; right; [now left|now right].
Qed.

(* the alignment of a run is the alignment of its first series, its time range the hull *)
Lemma total_size_cons ks l : total_size (ks :: l) = lenN (s_data (snd ks)) + total_size l.
Proof. reflexivity. Qed.

Lemma merge_go_total k m p l :
  total_size (merge_go k m p l) = lenN (s_data m) + total_size l.
Proof.
  revert k m p. induction l as [|[k' s] r IH]; intros k m p.
  - reflexivity.
  - cbn [merge_go]. destruct ((k' =? k) && (al_upper p =? s_al s)).
    + rewrite IH. cbn [extend s_data]. rewrite lenN_app, total_size_cons. cbn [snd]. lia.
    + rewrite total_size_cons, IH, total_size_cons. cbn [snd]. lia.
Qed.

Lemma merge_total l : total_size (merge l) = total_size l.
Proof. destruct l as [|[k s] r]; [reflexivity|]. cbn [merge]. now rewrite merge_go_total. Qed.

Lemma total_size_perm l l' : Permutation l l' -> total_size l = total_size l'.
Proof.
  induction 1; [reflexivity| | |congruence].
  - rewrite !total_size_cons. lia.
  - rewrite !total_size_cons. lia.
Qed.

Lemma total_size_In ks l : In ks l -> lenN (s_data (snd ks)) <= total_size l.
Proof.
  induction l as [|x r IH]; [intros []|]. intros [->|H]; rewrite total_size_cons; [lia|].
  specialize (IH H). lia.
Qed.

(* ------------------------------------------------------------------ validity through the pipeline *)
(* ser_ok without the size bound (sizes are handled through total_size) *)
Record ser_pre (st : cstate) (ks : N * series) : Prop := mk_pre {
  pre_key : fst ks < two32;
  pre_dt : exists dt, lookup (fst ks) (st_dts st) = Some dt /\ compat dt (s_dt (snd ks));
  pre_fixed : is_variable (s_dt (snd ks)) = false ->
              density (s_dt (snd ks)) <> 0 /\ lenN (s_data (snd ks)) mod density (s_dt (snd ks)) = 0;
  pre_ts : s_ts (snd ks) < two64;
  pre_te : s_te (snd ks) < two64;
  pre_al : s_al (snd ks) < two64 }.

Lemma ser_pre_ok st ks : ser_pre st ks -> lenN (s_data (snd ks)) < two32 -> ser_ok st ks.
Proof. intros [] H. constructor; assumption. Qed.

Lemma extend_pre st k m s : ser_pre st (k, m) -> ser_pre st (k, s) -> ser_pre st (k, extend m s).
Proof.
  intros [Hk [dt [Hl Hc]] Hf Hts Hte Hal] [_ [dt' [Hl' Hc']] Hf' Hts' Hte' Hal'].
  cbn [fst snd] in *. rewrite Hl in Hl'. inversion Hl'; subst dt'.
  destruct (compat_class _ _ Hc) as [Hv Hd]. destruct (compat_class _ _ Hc') as [Hv' Hd'].
  constructor; cbn [fst snd extend s_dt s_ts s_te s_al s_data].
  - exact Hk.
  - exists dt. split; assumption.
  - intros E. destruct (Hf E) as [Hn Hm]. split; [exact Hn|].
    assert (E' : is_variable (s_dt s) = false) by congruence.
    destruct (Hf' E') as [_ Hm']. rewrite lenN_app.
    rewrite <- Hd' in Hm'. rewrite Hd in Hm'.
    rewrite N.add_mod by assumption. rewrite Hm, Hm'. rewrite N.add_0_l. now apply N.mod_0_l.
  - destruct (slt (s_ts s) (s_ts m)); assumption.
  - destruct (slt (s_te m) (s_te s)); assumption.
  - exact Hal.
Qed.

Lemma merge_go_pre st k m p l :
  ser_pre st (k, m) -> Forall (ser_pre st) l -> Forall (ser_pre st) (merge_go k m p l).
Proof.
  revert k m p. induction l as [|[k' s] r IH]; intros k m p Hm Hl.
  - cbn [merge_go]. now constructor.
  - inversion Hl as [|? ? Hs Hr]; subst. cbn [merge_go].
    destruct ((k' =? k) && (al_upper p =? s_al s)) eqn:E.
    + apply andb_prop in E as [E _]. apply N.eqb_eq in E. subst k'.
      apply IH; [|assumption]. now apply extend_pre.
    + constructor; [assumption|]. now apply IH.
Qed.

Lemma merge_pre st l : Forall (ser_pre st) l -> Forall (ser_pre st) (merge l).
Proof.
  destruct l as [|[k s] r]; [constructor|]. intros H. inversion H; subst. cbn [merge].
  now apply merge_go_pre.
Qed.

Lemma lookup_In k m v : lookup k m = Some v -> In (k, v) m.
Proof.
  induction m as [|[k' v'] r IH]; [discriminate|]. cbn [lookup].
  destruct (k' =? k) eqn:E.
  - apply N.eqb_eq in E. intros H; inversion H; subst. now left.
  - intros H. right. now apply IH.
Qed.

Lemma memN_In k l : memN k l = true <-> In k l.
Proof.
  unfold memN. rewrite existsb_exists. split.
  - intros [x [H E]]. apply N.eqb_eq in E. now subst.
  - intros H. exists k. split; [assumption|apply N.eqb_refl].
Qed.

Lemma keep_In st f ks : In ks (keep st f) <-> In ks f /\ In (fst ks) (st_keys st).
Proof. unfold keep. rewrite filter_In. now rewrite memN_In. Qed.

(* a valid frame: every kept series satisfies ser_pre *)
Lemma frame_valid_pre st f : frame_valid st f = true ->
  Forall (ser_pre st) (keep st f) /\ total_size (keep st f) < two32 /\
  validate st (keep st f) = None /\ state_known st = true.
Proof.
  unfold frame_valid. intros H. apply andb_prop in H as [H Hsz]. apply andb_prop in H as [H Hval].
  apply andb_prop in H as [Hst Hser]. apply N.ltb_lt in Hsz.
  destruct (validate st (keep st f)) eqn:Ev; [discriminate|].
  split; [|repeat split; assumption].
  pose proof (validate_compat st _ Ev) as Hc. rewrite forallb_forall in Hser.
  rewrite Forall_forall in *. intros ks Hin. specialize (Hc ks Hin). specialize (Hser ks Hin).
  unfold series_valid in Hser. apply andb_prop in Hser as [Hser Hal]. apply andb_prop in Hser as [Hser Hte].
  apply andb_prop in Hser as [Hwf Hts]. apply N.ltb_lt in Hal, Hte, Hts.
  constructor; try assumption.
  - apply keep_In in Hin as [_ Hk]. unfold state_known in Hst. apply andb_prop in Hst as [_ Hst].
    rewrite forallb_forall in Hst. apply N.ltb_lt. now apply Hst.
  - intros E. unfold data_wf in Hwf. rewrite E in Hwf. apply andb_prop in Hwf as [H1 H2].
    apply negb_true_iff in H1. apply N.eqb_neq in H1. apply N.eqb_eq in H2. split; assumption.
Qed.

Lemma wire_series_pre compress st f : frame_valid st f = true ->
  Forall (ser_ok st) (wire_series compress st f).
Proof.
  intros H. destruct (frame_valid_pre st f H) as (Hpre & Hsz & _ & _).
  assert (Hs : Forall (ser_pre st) (sortK (keep st f))) by now apply sortK_Forall.
  assert (Hsz' : total_size (sortK (keep st f)) < two32).
  { now rewrite (total_size_perm _ _ (sortK_perm (keep st f))). }
  unfold wire_series. destruct compress.
  - pose proof (merge_pre st _ Hs) as Hm. rewrite Forall_forall in *. intros ks Hin.
    apply ser_pre_ok; [now apply Hm|].
    pose proof (total_size_In ks _ Hin). rewrite merge_total in H0. lia.
  - rewrite Forall_forall in *. intros ks Hin. apply ser_pre_ok; [now apply Hs|].
    pose proof (total_size_In ks _ Hin). lia.
Qed.

Lemma ser_ok_has_var st ks : ser_ok st ks -> is_variable (s_dt (snd ks)) = true -> has_var st = true.
Proof.
  intros [_ [dt [Hl Hc]] _ _ _ _ _] Hv. apply compat_class in Hc as [Hv' _].
  unfold has_var. apply existsb_exists. exists (fst ks, dt). split; [now apply lookup_In|].
  cbn [snd]. congruence.
Qed.

Lemma valid_no_len_panic st f : frame_valid st f = true ->
  existsb (fun ks => len_undefined (snd ks)) (keep st f) = false.
Proof.
  intros H. destruct (frame_valid_pre st f H) as (Hpre & _).
  destruct (existsb _ _) eqn:E; [|reflexivity]. exfalso.
  apply existsb_exists in E as [ks [Hin Hu]]. rewrite Forall_forall in Hpre.
  destruct (Hpre ks Hin) as [_ _ Hf _ _ _]. unfold len_undefined, slen_opt in Hu.
  destruct (s_data (snd ks)); [discriminate|].
  destruct (is_variable (s_dt (snd ks))) eqn:Ev; [discriminate|].
  destruct (Hf eq_refl) as [Hn _]. apply N.eqb_neq in Hn. rewrite Hn in Hu. discriminate.
Qed.

(* ------------------------------------------------------------------ round trip, one agreed state *)
Theorem roundtrip_state V mode compress states st seq f :
  frame_valid st f = true -> seq < two32 -> state_at states seq = Some st ->
  exists bs, encode_state compress st seq f = Ok bs /\
             fst (decode_states V mode states bs) = Ok (norm compress st f).
Proof.
  intros Hv Hseq Hst. destruct (frame_valid_pre st f Hv) as (_ & _ & Hval & _).
  unfold encode_state. rewrite Hval. rewrite (valid_no_len_panic st f Hv).
  destruct (compute_flags st (wire_series compress st f)) as [fl refs] eqn:Hcf.
  eexists. split; [reflexivity|]. unfold norm.
  apply decode_encode_wire; try assumption.
  - now apply wire_series_pre.
  - intros ks Hin. pose proof (wire_series_pre compress st f Hv) as Hok.
    rewrite Forall_forall in Hok. apply ser_ok_has_var. now apply Hok.
Qed.
