(* Codec/FrameCodecSafety.v — decoding arbitrary bytes: the outcome does not depend on the
   reader kind or on the allocation strategy, it is a frame or one of five errors (never the
   model's out-of-fuel value, a panic only in the characterised situations), and the
   allocation log is bounded by the input. Plus the Codec-object level: sequence numbers and
   update backlogs. *)
From Coq Require Import List NArith Bool Lia PeanoNat.
Import ListNotations.
From Synnax Require Import Common.Bytes Common.BytesProofs Generated.Consts_C08 Codec.FrameCodec
  Codec.FrameCodecProofs Codec.FrameCodecNorm.
Local Open Scope N_scope.

(* ------------------------------------------------------------------ outcome is mode/variant independent *)
Lemma dec_series_fst V mode V' mode' fl st refs k bs :
  fst (dec_series V mode fl st refs k bs) = fst (dec_series V' mode' fl st refs k bs).
Proof.
  unfold dec_series. destruct refs as [[[dl rts] rte] ral].
  destruct (if f_eqlens fl then RdOk dl bs else read_uint 4 bs) as [n bs1|e]; [|reflexivity].
  destruct (lookup k (st_dts st)) as [dt|]; [|reflexivity].
  destruct (dt_undefined dt); [reflexivity|].
  destruct (read_full _ bs1) as [data bs2|e]; [|reflexivity].
  destruct (if f_eqtr fl then RdOk (rts, rte) bs2 else read_tr bs2) as [[ts te] bs3|e]; [|reflexivity].
  destruct (if f_eqal fl then RdOk ral bs3 else read_uint 8 bs3) as [a bs4|e]; reflexivity.
Qed.

Lemma dec_all_fst V mode V' mode' fl st refs keys bs :
  fst (dec_all V mode fl st refs keys bs) = fst (dec_all V' mode' fl st refs keys bs).
Proof.
  revert bs. induction keys as [|k r IH]; intros bs; [reflexivity|]. cbn [dec_all].
  pose proof (dec_series_fst V mode V' mode' fl st refs k bs) as E.
  destruct (dec_series V mode fl st refs k bs) as [d al].
  destruct (dec_series V' mode' fl st refs k bs) as [d' al']. cbn [fst] in E. subst d'.
  destruct d as [s rest|e|]; [|reflexivity|reflexivity].
  specialize (IH rest).
  destruct (dec_all V mode fl st refs r rest) as [o a1].
  destruct (dec_all V' mode' fl st refs r rest) as [o' a2]. cbn [fst] in IH. subst o'.
  destruct o; reflexivity.
Qed.

Lemma dec_loop_fst V mode V' mode' fuel fl st refs bs :
  fst (dec_loop V mode fuel fl st refs bs) = fst (dec_loop V' mode' fuel fl st refs bs).
Proof.
  revert bs. induction fuel as [|f IH]; intros bs; [reflexivity|]. cbn [dec_loop].
  destruct (read_uint 4 bs) as [k bs1|[]]; [|reflexivity|reflexivity].
  pose proof (dec_series_fst V mode V' mode' fl st refs k bs1) as E.
  destruct (dec_series V mode fl st refs k bs1) as [d al].
  destruct (dec_series V' mode' fl st refs k bs1) as [d' al']. cbn [fst] in E. subst d'.
  destruct d as [s rest|e|]; [|reflexivity|reflexivity].
  specialize (IH rest).
  destruct (dec_loop V mode f fl st refs rest) as [o a1].
  destruct (dec_loop V' mode' f fl st refs rest) as [o' a2]. cbn [fst] in IH. subst o'.
  destruct o; reflexivity.
Qed.

Theorem decode_states_fst V mode V' mode' states bs :
  fst (decode_states V mode states bs) = fst (decode_states V' mode' states bs).
Proof.
  unfold decode_states.
  destruct (read_uint 1 bs) as [fb b1|e]; [|reflexivity].
  destruct (read_uint 4 b1) as [seq b2|e]; [|reflexivity].
  destruct (state_at states seq) as [st|]; [|reflexivity].
  destruct (if f_eqlens _ then read_uint 4 b2 else RdOk 0 b2) as [dl b3|e]; [|reflexivity].
  destruct (if _ && _ then read_tr b3 else RdOk (0, 0) b3) as [[ts te] b4|e]; [|reflexivity].
  destruct (if _ && _ then read_uint 8 b4 else RdOk 0 b4) as [al b5|e]; [|reflexivity].
  destruct (f_all _); [apply dec_all_fst|apply dec_loop_fst].
Qed.

(* ------------------------------------------------------------------ totality *)
Definition dec_errs : list N := [EEOF; EUnexpectedEOF; EInvalidSeq; EUnknownKey; ENotUpdated].

Lemma rd_code_in e : In (rd_code e) dec_errs.
Proof. destruct e; cbn; auto. Qed.

Lemma state_known_lookup st k dt :
  state_known st = true -> lookup k (st_dts st) = Some dt -> dt_undefined dt = false.
Proof.
  unfold state_known. intros H L. apply andb_prop in H as [H _]. rewrite forallb_forall in H.
  apply lookup_In in L. specialize (H _ L). cbn [snd] in H. now apply negb_true_iff in H.
Qed.

(* shape of what decodeSeries returns, and how many bytes it leaves *)
Lemma dec_series_shape V mode fl st refs k bs :
  match fst (dec_series V mode fl st refs k bs) with
  | DOk s rest => lenN rest <= lenN bs
  | DErr e => In e dec_errs
  | DPanic => exists dt, lookup k (st_dts st) = Some dt /\ dt_undefined dt = true
  end.
Proof.
  unfold dec_series. destruct refs as [[[dl rts] rte] ral].
  assert (H1 : match (if f_eqlens fl then RdOk dl bs else read_uint 4 bs) with
               | RdOk _ bs1 => lenN bs1 <= lenN bs | RdErr _ => True end).
  { destruct (f_eqlens fl); [lia|]. destruct (read_uint 4 bs) eqn:E; [|exact I].
    apply read_uint_ok in E. lia. }
  destruct (if f_eqlens fl then RdOk dl bs else read_uint 4 bs) as [n bs1|e];
    [|cbn [fst]; apply rd_code_in].
  destruct (lookup k (st_dts st)) as [dt|] eqn:L; [|cbn; auto].
  destruct (dt_undefined dt) eqn:U; [cbn [fst]; now exists dt|].
  destruct (read_full _ bs1) as [data bs2|e] eqn:R; [|cbn [fst]; apply rd_code_in].
  apply read_full_ok in R as [-> _]. rewrite lenN_app in H1.
  assert (H2 : match (if f_eqtr fl then RdOk (rts, rte) bs2 else read_tr bs2) with
               | RdOk _ bs3 => lenN bs3 <= lenN bs2 | RdErr _ => True end).
  { destruct (f_eqtr fl); [lia|]. unfold read_tr.
    destruct (read_uint 8 bs2) as [a r1|] eqn:E1; [|exact I].
    destruct (read_uint 8 r1) as [b r2|] eqn:E2; [|exact I].
    apply read_uint_ok in E1, E2. lia. }
  destruct (if f_eqtr fl then RdOk (rts, rte) bs2 else read_tr bs2) as [[ts te] bs3|e];
    [|cbn [fst]; apply rd_code_in].
  assert (H3 : match (if f_eqal fl then RdOk ral bs3 else read_uint 8 bs3) with
               | RdOk _ bs4 => lenN bs4 <= lenN bs3 | RdErr _ => True end).
  { destruct (f_eqal fl); [lia|]. destruct (read_uint 8 bs3) eqn:E; [|exact I].
    apply read_uint_ok in E. lia. }
  destruct (if f_eqal fl then RdOk ral bs3 else read_uint 8 bs3) as [a bs4|e];
    [|cbn [fst]; apply rd_code_in].
  cbn [fst]. lia.
Qed.

Definition out_ok (st : cstate) (o : outcome frame) : Prop :=
  match o with
  | Ok _ => True
  | Err e => In e dec_errs
  | Panic => state_known st = false
  end.

Lemma panic_unknown st k dt :
  lookup k (st_dts st) = Some dt -> dt_undefined dt = true -> state_known st = false.
Proof.
  intros L U. destruct (state_known st) eqn:E; [|reflexivity].
  rewrite (state_known_lookup st k dt E L) in U. discriminate.
Qed.

Lemma dec_all_shape V mode fl st refs keys bs :
  out_ok st (fst (dec_all V mode fl st refs keys bs)).
Proof.
  revert bs. induction keys as [|k r IH]; intros bs; [exact I|]. cbn [dec_all].
  pose proof (dec_series_shape V mode fl st refs k bs) as H.
  destruct (dec_series V mode fl st refs k bs) as [[s rest|e|] al]; cbn [fst] in *.
  - specialize (IH rest). destruct (dec_all V mode fl st refs r rest) as [[fr|e|] al']; cbn [fst] in *; auto.
  - exact H.
  - destruct H as (dt & L & U). eapply panic_unknown; eassumption.
Qed.

Lemma dec_loop_shape V mode fuel fl st refs bs :
  (length bs < fuel)%nat -> out_ok st (fst (dec_loop V mode fuel fl st refs bs)).
Proof.
  revert bs. induction fuel as [|f IH]; intros bs Hf; [lia|]. cbn [dec_loop].
  destruct (read_uint 4 bs) as [k bs1|[]] eqn:R; [|exact I|cbn; auto].
  apply read_uint_ok in R.
  pose proof (dec_series_shape V mode fl st refs k bs1) as H.
  destruct (dec_series V mode fl st refs k bs1) as [[s rest|e|] al]; cbn [fst] in *.
  - assert (Hf' : (length rest < f)%nat).
    { unfold lenN in *. lia. }
    specialize (IH rest Hf').
    destruct (dec_loop V mode f fl st refs rest) as [[fr|e|] al']; cbn [fst] in *; auto.
  - exact H.
  - destruct H as (dt & L & U). eapply panic_unknown; eassumption.
Qed.

Lemma state_at_In states seq st : state_at states seq = Some st -> In st states.
Proof.
  unfold state_at. destruct (_ && _); [|discriminate]. apply nth_error_In.
Qed.

Theorem decode_states_shape V mode states bs :
  match fst (decode_states V mode states bs) with
  | Ok _ => True
  | Err e => In e dec_errs
  | Panic => exists st, In st states /\ state_known st = false
  end.
Proof.
  unfold decode_states.
  destruct (read_uint 1 bs) as [fb b1|e]; [|cbn [fst]; apply rd_code_in].
  destruct (read_uint 4 b1) as [seq b2|e]; [|cbn [fst]; apply rd_code_in].
  destruct (state_at states seq) as [st|] eqn:HS; [|cbn; auto].
  apply state_at_In in HS.
  destruct (if f_eqlens _ then read_uint 4 b2 else RdOk 0 b2) as [dl b3|e]; [|cbn [fst]; apply rd_code_in].
  destruct (if _ && _ then read_tr b3 else RdOk (0, 0) b3) as [[ts te] b4|e]; [|cbn [fst]; apply rd_code_in].
  destruct (if _ && _ then read_uint 8 b4 else RdOk 0 b4) as [al b5|e]; [|cbn [fst]; apply rd_code_in].
  assert (H : out_ok st (fst (if f_all (flags_decode fb)
                              then dec_all V mode (flags_decode fb) st (dl, ts, te, al) (st_keys st) b5
                              else dec_loop V mode (S (length b5)) (flags_decode fb) st (dl, ts, te, al) b5))).
  { destruct (f_all _); [apply dec_all_shape|apply dec_loop_shape; lia]. }
  destruct (fst _) as [fr|e|]; cbn [out_ok] in H; auto. exists st. split; assumption.
Qed.

(* ------------------------------------------------------------------ allocation *)
Lemma sum_allocs_app a b : sum_allocs (a ++ b) = sum_allocs a + sum_allocs b.
Proof. induction a as [|x a IH]; [reflexivity|]. cbn [app sum_allocs fold_right] in *. fold (sum_allocs (a ++ b)). fold (sum_allocs a). rewrite IH. lia. Qed.

(* the chunked read: never more than four times what is there, minus what was allocated first *)
Lemma chunk_allocs_bound fuel n avail have :
  have <= avail -> have <= n ->
  sum_allocs (chunk_allocs fuel n avail have) + 2 * have <= 4 * N.min avail n.
Proof.
  revert have. induction fuel as [|f IH]; intros have H1 H2.
  - cbn [chunk_allocs sum_allocs fold_right]. lia.
  - cbn [chunk_allocs]. destruct (avail <? have) eqn:E1; [apply N.ltb_lt in E1; lia|].
    destruct (have =? n) eqn:E2; [cbn [sum_allocs fold_right]; lia|]. apply N.eqb_neq in E2.
    cbn [sum_allocs fold_right]. fold (sum_allocs (chunk_allocs f n avail (N.min (2 * have) n))).
    destruct (N.le_gt_cases (N.min (2 * have) n) avail) as [L|G].
    + destruct (N.le_gt_cases (2 * have) n) as [C|C].
      * assert (L2 : N.min (2 * have) n <= n) by lia.
        specialize (IH _ L L2). lia.
      * (* the buffer reaches its final size n: reading it ends the loop *)
        replace (N.min (2 * have) n) with n in * by lia.
        assert (Z : sum_allocs (chunk_allocs f n avail n) = 0).
        { destruct f as [|f']; [reflexivity|]. cbn [chunk_allocs].
          replace (avail <? n) with false by (symmetry; apply N.ltb_ge; lia).
          now rewrite N.eqb_refl. }
        rewrite Z. lia.
    + (* the next buffer cannot be filled: nothing is allocated after it *)
      destruct f as [|f']; cbn [chunk_allocs].
      * cbn [sum_allocs fold_right]. lia.
      * apply N.ltb_lt in G. rewrite G. cbn [sum_allocs fold_right]. apply N.ltb_lt in G. lia.
Qed.

Definition alloc_factor (mode : rmode) : N := match mode with Sized => 1 | Stream => 4 end.
Definition alloc_const (mode : rmode) : N := match mode with Sized => 0 | Stream => maxPrealloc end.

(* reading n data bytes with the bounded strategy *)
Lemma data_allocs_bound mode n bs :
  match read_full n bs with
  | RdOk d rest => sum_allocs (data_allocs current mode n (lenN bs)) <= alloc_factor mode * n
  | RdErr _ => sum_allocs (data_allocs current mode n (lenN bs))
               <= alloc_factor mode * lenN bs + alloc_const mode
  end.
Proof.
  unfold data_allocs. cbn [v_bound current].
  destruct (read_full n bs) as [d rest|e] eqn:R.
  - apply read_full_ok in R as [-> L]. rewrite lenN_app. destruct mode; cbn [alloc_factor].
    + destruct (_ <? n) eqn:E; cbn [sum_allocs fold_right]; lia.
    + destruct (n <=? maxPrealloc) eqn:E; [cbn [sum_allocs fold_right]; lia|].
      apply N.leb_gt in E. cbn [sum_allocs fold_right].
      fold (sum_allocs (chunk_allocs 64 n (lenN d + lenN rest) maxPrealloc)).
      pose proof (chunk_allocs_bound 64 n (lenN d + lenN rest) maxPrealloc) as B. lia.
  - apply read_full_err in R as [L _]. destruct mode; cbn [alloc_factor alloc_const].
    + apply N.ltb_lt in L. rewrite L. cbn [sum_allocs fold_right]. lia.
    + destruct (n <=? maxPrealloc) eqn:E.
      * apply N.leb_le in E. cbn [sum_allocs fold_right]. lia.
      * apply N.leb_gt in E. cbn [sum_allocs fold_right].
        fold (sum_allocs (chunk_allocs 64 n (lenN bs) maxPrealloc)).
        destruct (N.le_gt_cases maxPrealloc (lenN bs)) as [G|G].
        -- pose proof (chunk_allocs_bound 64 n (lenN bs) maxPrealloc G) as B. lia.
        -- cbn [chunk_allocs]. apply N.ltb_lt in G. rewrite G. cbn [sum_allocs fold_right]. lia.
Qed.

(* one series: on success the allocation is paid for by the bytes consumed *)
Lemma dec_series_alloc mode fl st refs k bs :
  match dec_series current mode fl st refs k bs with
  | (DOk s rest, al) => sum_allocs al + alloc_factor mode * lenN rest <= alloc_factor mode * lenN bs
  | (_, al) => sum_allocs al <= alloc_factor mode * lenN bs + alloc_const mode
  end.
Proof.
  unfold dec_series. destruct refs as [[[dl rts] rte] ral].
  assert (H1 : match (if f_eqlens fl then RdOk dl bs else read_uint 4 bs) with
               | RdOk _ bs1 => lenN bs1 <= lenN bs | RdErr _ => True end).
  { destruct (f_eqlens fl); [lia|]. destruct (read_uint 4 bs) eqn:E; [|exact I].
    apply read_uint_ok in E. lia. }
  destruct (if f_eqlens fl then RdOk dl bs else read_uint 4 bs) as [n bs1|e];
    [|cbn [sum_allocs fold_right]; lia].
  destruct (lookup k (st_dts st)) as [dt|]; [|cbn [sum_allocs fold_right]; lia].
  destruct (dt_undefined dt); [cbn [sum_allocs fold_right]; lia|].
  set (size := if is_variable dt then n else n * density dt).
  pose proof (data_allocs_bound mode size bs1) as B.
  destruct (read_full size bs1) as [data bs2|e] eqn:R.
  2:{ assert (alloc_factor mode * lenN bs1 <= alloc_factor mode * lenN bs) by (destruct mode; cbn [alloc_factor]; lia). lia. }
  apply read_full_ok in R as [-> L]. rewrite lenN_app in *.
  assert (H2 : match (if f_eqtr fl then RdOk (rts, rte) bs2 else read_tr bs2) with
               | RdOk _ bs3 => lenN bs3 <= lenN bs2 | RdErr _ => True end).
  { destruct (f_eqtr fl); [lia|]. unfold read_tr.
    destruct (read_uint 8 bs2) as [a r1|] eqn:E1; [|exact I].
    destruct (read_uint 8 r1) as [b r2|] eqn:E2; [|exact I].
    apply read_uint_ok in E1, E2. lia. }
  assert (F : 1 <= alloc_factor mode) by (destruct mode; cbn [alloc_factor]; lia).
  destruct (if f_eqtr fl then RdOk (rts, rte) bs2 else read_tr bs2) as [[ts te] bs3|e]; [|nia].
  assert (H3 : match (if f_eqal fl then RdOk ral bs3 else read_uint 8 bs3) with
               | RdOk _ bs4 => lenN bs4 <= lenN bs3 | RdErr _ => True end).
  { destruct (f_eqal fl); [lia|]. destruct (read_uint 8 bs3) eqn:E; [|exact I].
    apply read_uint_ok in E. lia. }
  destruct (if f_eqal fl then RdOk ral bs3 else read_uint 8 bs3) as [a bs4|e]; nia.
Qed.

Lemma dec_all_alloc mode fl st refs keys bs :
  sum_allocs (snd (dec_all current mode fl st refs keys bs))
  <= alloc_factor mode * lenN bs + alloc_const mode.
Proof.
  revert bs. induction keys as [|k r IH]; intros bs; [cbn [dec_all snd sum_allocs fold_right]; lia|].
  cbn [dec_all]. pose proof (dec_series_alloc mode fl st refs k bs) as H.
  destruct (dec_series current mode fl st refs k bs) as [[s rest|e|] al]; cbn [snd]; try exact H.
  specialize (IH rest). destruct (dec_all current mode fl st refs r rest) as [[fr|e|] al'];
    cbn [snd] in *; rewrite sum_allocs_app; lia.
Qed.

Lemma dec_loop_alloc mode fuel fl st refs bs :
  sum_allocs (snd (dec_loop current mode fuel fl st refs bs))
  <= alloc_factor mode * lenN bs + alloc_const mode.
Proof.
  revert bs. induction fuel as [|f IH]; intros bs; [cbn [dec_loop snd sum_allocs fold_right]; lia|].
  cbn [dec_loop]. destruct (read_uint 4 bs) as [k bs1|[]] eqn:R;
    [|cbn [snd sum_allocs fold_right]; lia|cbn [snd sum_allocs fold_right]; lia].
  apply read_uint_ok in R.
  assert (F : alloc_factor mode * lenN bs1 <= alloc_factor mode * lenN bs) by (destruct mode; cbn [alloc_factor]; lia).
  pose proof (dec_series_alloc mode fl st refs k bs1) as H.
  destruct (dec_series current mode fl st refs k bs1) as [[s rest|e|] al]; cbn [snd]; try lia.
  specialize (IH rest). destruct (dec_loop current mode f fl st refs rest) as [[fr|e|] al'];
    cbn [snd] in *; rewrite sum_allocs_app; lia.
Qed.

Theorem decode_states_alloc mode states bs :
  sum_allocs (snd (decode_states current mode states bs))
  <= alloc_factor mode * lenN bs + alloc_const mode.
Proof.
  unfold decode_states.
  destruct (read_uint 1 bs) as [fb b1|e] eqn:R1; [|cbn [snd sum_allocs fold_right]; lia].
  destruct (read_uint 4 b1) as [seq b2|e] eqn:R2; [|cbn [snd sum_allocs fold_right]; lia].
  apply read_uint_ok in R1, R2.
  destruct (state_at states seq) as [st|]; [|cbn [snd sum_allocs fold_right]; lia].
  assert (H3 : match (if f_eqlens (flags_decode fb) then read_uint 4 b2 else RdOk 0 b2) with
               | RdOk _ b3 => lenN b3 <= lenN b2 | RdErr _ => True end).
  { destruct (f_eqlens _); [|lia]. destruct (read_uint 4 b2) eqn:E; [|exact I]. apply read_uint_ok in E. lia. }
  destruct (if f_eqlens _ then read_uint 4 b2 else RdOk 0 b2) as [dl b3|e]; [|cbn [snd sum_allocs fold_right]; lia].
  assert (H4 : match (if f_eqtr (flags_decode fb) && negb (f_trzero (flags_decode fb))
                      then read_tr b3 else RdOk (0, 0) b3) with
               | RdOk _ b4 => lenN b4 <= lenN b3 | RdErr _ => True end).
  { destruct (_ && _); [|lia]. unfold read_tr.
    destruct (read_uint 8 b3) as [a r1|] eqn:E1; [|exact I].
    destruct (read_uint 8 r1) as [b r2|] eqn:E2; [|exact I].
    apply read_uint_ok in E1, E2. lia. }
  destruct (if _ && _ then read_tr b3 else RdOk (0, 0) b3) as [[ts te] b4|e]; [|cbn [snd sum_allocs fold_right]; lia].
  assert (H5 : match (if f_eqal (flags_decode fb) && negb (f_alzero (flags_decode fb))
                      then read_uint 8 b4 else RdOk 0 b4) with
               | RdOk _ b5 => lenN b5 <= lenN b4 | RdErr _ => True end).
  { destruct (_ && _); [|lia]. destruct (read_uint 8 b4) eqn:E; [|exact I]. apply read_uint_ok in E. lia. }
  destruct (if _ && _ then read_uint 8 b4 else RdOk 0 b4) as [al b5|e]; [|cbn [snd sum_allocs fold_right]; lia].
  assert (F : alloc_factor mode * lenN b5 <= alloc_factor mode * lenN bs) by (destruct mode; cbn [alloc_factor]; lia).
  destruct (f_all _).
  - pose proof (dec_all_alloc mode (flags_decode fb) st (dl, ts, te, al) (st_keys st) b5). lia.
  - pose proof (dec_loop_alloc mode (S (length b5)) (flags_decode fb) st (dl, ts, te, al) b5). lia.
Qed.

(* ------------------------------------------------------------------ the Codec object *)
Definition all_states (c : codec) : list cstate := c_states c ++ c_pending c.
Definition codec_known (c : codec) : bool := forallb state_known (all_states c).

Lemma process_states c : c_states (process c) = all_states c.
Proof. reflexivity. Qed.

Lemma update_states c st c' : c_update c st = Some c' -> all_states c' = all_states c ++ [st].
Proof.
  unfold c_update. destruct (_ <=? _); [discriminate|]. intros H; inversion H; subst.
  unfold all_states. cbn. now rewrite app_assoc.
Qed.

Lemma process_idem c : process (process c) = process c.
Proof. unfold process. cbn. now rewrite app_nil_r. Qed.

(* Decode: a frame, one of five errors, or a panic only in the two characterised situations *)
Theorem c_decode_total V mode c bs :
  match fst (snd (c_decode V mode c bs)) with
  | Ok _ => True
  | Err e => In e dec_errs
  | Panic => (v_noinit_err V = false /\ all_states c = []) \/ codec_known c = false
  end.
Proof.
  unfold c_decode. cbn [snd]. rewrite process_states.
  destruct (all_states c) as [|st0 sts] eqn:E.
  - cbn [fst]. destruct (v_noinit_err V); cbn; [do 4 right; now left|now left].
  - pose proof (decode_states_shape V mode (st0 :: sts) bs) as H.
    destruct (fst (decode_states V mode (st0 :: sts) bs)) as [fr|e|]; auto.
    right. destruct H as (st & Hin & Hk). unfold codec_known. rewrite E.
    destruct (forallb state_known (st0 :: sts)) eqn:F; [|reflexivity].
    rewrite forallb_forall in F. rewrite (F st Hin) in Hk. discriminate.
Qed.

Theorem c_decode_alloc mode c bs :
  sum_allocs (snd (snd (c_decode current mode c bs))) <= alloc_factor mode * lenN bs + alloc_const mode.
Proof.
  unfold c_decode. cbn [snd]. destruct (c_states (process c)); [cbn; lia|].
  apply decode_states_alloc.
Qed.

(* sequence numbers: the state stored under the encoder's number *)
Lemma state_at_app_last sts st extra :
  state_at ((sts ++ [st]) ++ extra) (lenN (sts ++ [st])) = Some st.
Proof.
  unfold state_at. rewrite !lenN_app. change (lenN [st]) with 1.
  replace ((1 <=? lenN sts + 1) && (lenN sts + 1 <=? lenN sts + 1 + lenN extra)) with true.
  2:{ symmetry. apply andb_true_intro. split; apply N.leb_le; lia. }
  replace (N.to_nat (lenN sts + 1 - 1)) with (length sts) by (unfold lenN; lia).
  rewrite <- app_assoc. rewrite nth_error_app2 by lia. now rewrite Nat.sub_diag.
Qed.

Lemma last_some_app {A} (l : list A) x : last (map Some (l ++ [x])) None = Some x.
Proof.
  induction l as [|y l IH]; [reflexivity|]. cbn [app map]. cbn [last].
  destruct (map Some (l ++ [x])) eqn:E; [destruct l; discriminate|]. exact IH.
Qed.

(* The encoder has processed the updates u_1..u_n (n >= 1); the decoder has processed the
   same history and possibly more. Then decoding what the encoder emits for a valid frame
   yields the normal form under u_n, whatever reader kind / variant. *)
Theorem roundtrip_desync V mode E D sts st extra f :
  all_states E = sts ++ [st] -> all_states D = (sts ++ [st]) ++ extra ->
  lenN (sts ++ [st]) < two32 -> frame_valid st f = true ->
  exists bs, snd (c_encode E f) = Ok bs /\
             fst (snd (c_decode V mode D bs)) = Ok (norm (c_compress E) st f).
Proof.
  intros HE HD Hn Hv. unfold c_encode, c_decode. cbn [snd]. rewrite !process_states, HE, HD.
  rewrite last_some_app. cbn [c_compress process].
  destruct (roundtrip_state V mode (c_compress E) ((sts ++ [st]) ++ extra) st (lenN (sts ++ [st])) f
              Hv Hn (state_at_app_last sts st extra)) as (bs & Henc & Hdec).
  exists bs. split; [exact Henc|].
  destruct ((sts ++ [st]) ++ extra) eqn:E0; [destruct sts; discriminate|]. exact Hdec.
Qed.

(* every encoding starts with the flag byte and the encoder's sequence number *)
Lemma encode_state_header compress st seq f bs :
  encode_state compress st seq f = Ok bs -> exists fb rest, fb < 256 /\ bs = enc8 fb ++ enc32 seq ++ rest.
Proof.
  unfold encode_state. destruct (validate _ _); [discriminate|]. destruct (existsb _ _); [discriminate|].
  destruct (compute_flags _ _) as [fl [[[dl ts] te] al]]. intros H; inversion H; subst.
  unfold enc_header. exists (flags_encode fl). eexists. split; [apply flags_encode_lt|].
  rewrite <- !app_assoc. reflexivity.
Qed.

(* the decoder is behind: it has not yet processed the update the encoder used. It never
   returns a wrong frame: the message is rejected (invalid sequence number), or — before the
   decoder's very first update — not-updated / the upstream panic. *)
Theorem decode_behind V mode E D f bs :
  (length (all_states D) < length (all_states E))%nat -> lenN (all_states E) < two32 ->
  snd (c_encode E f) = Ok bs ->
  fst (snd (c_decode V mode D bs)) =
    match all_states D with
    | [] => if v_noinit_err V then Err ENotUpdated else Panic
    | _ => Err EInvalidSeq
    end.
Proof.
  intros Hlt Hn Henc. unfold c_encode in Henc. cbn [snd] in Henc. rewrite process_states in Henc.
  destruct (last (map Some (all_states E)) None) as [st|]; [|discriminate].
  apply encode_state_header in Henc as (fb & rest & Hfb & ->).
  unfold c_decode. cbn [snd]. rewrite process_states.
  destruct (all_states D) as [|d0 ds] eqn:ED; [reflexivity|].
  unfold decode_states. rewrite read8 by assumption. rewrite read32 by assumption.
  unfold state_at.
  replace (lenN (all_states E) <=? lenN (d0 :: ds)) with false.
  2:{ symmetry. apply N.leb_gt. unfold lenN. lia. }
  now rewrite andb_false_r.
Qed.
