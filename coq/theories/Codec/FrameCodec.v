(* Codec/FrameCodec.v — executable model of the frame wire codec
     /repo/core/pkg/distribution/framer/codec/codec.go   (Codec, state, sorter, flags,
         mergeContiguousSeries, encodeInternal, DecodeStream, update/processUpdates)
   together with the parts of x/go/binary (Reader/Writer), x/go/telem (Series.Len,
   AlignmentBounds, Density, Frame.KeepKeys) it relies on.  The model copies the algorithm as
   it is; no proofs here (see FrameCodecProofs*.v).

   Representation: a byte is an N (<256), a channel key an N (<2^32), time stamps and
   alignments are their uint64 bit patterns as N (time stamps are compared as int64 where the
   Go code compares TimeStamp values).  Data type codes:
     0 unknown/any other string   1 uint8  2 uint16  3 uint32  4 uint64  5 int8  6 int16
     7 int32  8 int64  9 float32  10 float64  11 timestamp  12 uuid  13 string  14 bytes  15 json *)
From Coq Require Import List NArith Bool.
Import ListNotations.
From Synnax Require Import Common.Bytes Generated.Consts_C08.
Local Open Scope N_scope.

(* ------------------------------------------------------------------ telem *)
Definition density (dt : N) : N :=
  match dt with
  | 1 | 5 => 1
  | 2 | 6 => 2
  | 3 | 7 | 9 => 4
  | 4 | 8 | 10 | 11 => 8
  | 12 => 16
  | _ => 0
  end.
Definition is_variable (dt : N) : bool := (dt =? 13) || (dt =? 14) || (dt =? 15).
Definition dt_int64 : N := 8.
Definition dt_timestamp : N := 11.
(* DataType.Density() panics in SampleCount/Size when it is 0 *)
Definition dt_undefined (dt : N) : bool := negb (is_variable dt) && (density dt =? 0).

Record series := mkS { s_dt : N; s_ts : N; s_te : N; s_al : N; s_data : list N }.
Notation frame := (list (N * series)).

Definition two32 : N := 4294967296.
Definition two63 : N := 9223372036854775808.
Definition two64 : N := 18446744073709551616.

(* int64 comparison of two uint64 bit patterns *)
Definition bias (a : N) : N := (a + two63) mod two64.
Definition slt (a b : N) : bool := bias a <? bias b.

(* one step along a variable-density buffer: skip a complete length-prefixed sample
   (4-byte little-endian length, then that many bytes); None if none is left *)
Definition chain_step (bs : list N) : option (list N) :=
  if lenN bs <? 4 then None
  else let l := decLE (firstn 4 bs) in
       let rest := skipn 4 bs in
       if lenN rest <? l then None else Some (skipn (N.to_nat l) rest).

(* Series.Len for variable-density types: number of complete length-prefixed samples *)
Fixpoint varcount (fuel : nat) (bs : list N) : N :=
  match fuel with
  | O => 0
  | S f => match chain_step bs with
           | None => 0
           | Some rest => 1 + varcount f rest
           end
  end.

(* Series.Len(); None = the Go code panics ("undefined density") *)
Definition slen_opt (dt : N) (data : list N) : option N :=
  match data with
  | [] => Some 0
  | _ => if is_variable dt then Some (varcount (length data) data)
         else if density dt =? 0 then None
         else Some (lenN data / density dt)
  end.
Definition slen (s : series) : N :=
  match slen_opt (s_dt s) (s_data s) with Some n => n | None => 0 end.
Definition len_undefined (s : series) : bool :=
  match slen_opt (s_dt s) (s_data s) with Some _ => false | None => true end.

(* AlignmentBounds().Upper = NewAlignment(DomainIndex, SampleIndex + uint32(Len())) *)
Definition al_upper (s : series) : N :=
  (s_al s / two32) mod two32 * two32 + (s_al s mod two32 + slen s mod two32) mod two32.

(* ------------------------------------------------------------------ codec state *)
(* state{keys (sorted), keyDataTypes (a Go map: one entry per key)} *)
Record cstate := mkSt { st_keys : list N; st_dts : list (N * N) }.

Fixpoint lookup (k : N) (m : list (N * N)) : option N :=
  match m with
  | [] => None
  | (k', v) :: r => if k' =? k then Some v else lookup k r
  end.
Fixpoint upsert (k v : N) (m : list (N * N)) : list (N * N) :=
  match m with
  | [] => [(k, v)]
  | (k', v') :: r => if k' =? k then (k, v) :: r else (k', v') :: upsert k v r
  end.
(* building the Go map from pairs in order: a later pair overwrites an earlier one *)
Definition mk_map (kd : list (N * N)) : list (N * N) :=
  fold_left (fun m p => upsert (fst p) (snd p) m) kd [].

Fixpoint insN (x : N) (l : list N) : list N :=
  match l with
  | [] => [x]
  | y :: r => if x <=? y then x :: l else y :: insN x r
  end.
Definition sortN (l : list N) : list N := fold_right insN [] l.

Definition mk_state (keys : list N) (kd : list (N * N)) : cstate :=
  mkSt (sortN keys) (mk_map kd).
(* NewStatic(keys, dataTypes) *)
Definition mk_static (keys dts : list N) : cstate := mk_state keys (combine keys dts).

Definition has_var (st : cstate) : bool := existsb (fun p => is_variable (snd p)) (st_dts st).
Definition memN (k : N) (l : list N) : bool := existsb (N.eqb k) l.

(* ------------------------------------------------------------------ outcomes *)
Inductive outcome (A : Type) := Ok (a : A) | Err (e : N) | Panic.
Arguments Ok {A}. Arguments Err {A}. Arguments Panic {A}.
(* error codes *)
Definition EEOF : N := 1.            (* io.EOF *)
Definition EUnexpectedEOF : N := 2.  (* io.ErrUnexpectedEOF *)
Definition EInvalidSeq : N := 3.     (* validation: remote sent invalid sequence number *)
Definition EUnknownKey : N := 4.     (* decode: unknown channel key *)
Definition EEncUnknownKey : N := 5.  (* validation: key not present in current state *)
Definition EEncDataType : N := 6.    (* validation: data type does not match *)
Definition ENotUpdated : N := 7.     (* validation: decode before the first update (after fix) *)
Definition EFuel : N := 99.          (* model artefact, proved unreachable *)
Definition rd_code (e : rd_err) : N := match e with REOF => EEOF | RUnexpectedEOF => EUnexpectedEOF end.

(* ------------------------------------------------------------------ encode *)
(* sorter.Less without the rawIndex tie-break; insertion keeps earlier-before-later on ties,
   which is exactly what the rawIndex tie-break yields *)
Definition kle (a b : N * series) : bool :=
  (fst a <? fst b) || ((fst a =? fst b) && (s_al (snd a) <=? s_al (snd b))).
Fixpoint insK (x : N * series) (l : frame) : frame :=
  match l with
  | [] => [x]
  | y :: r => if kle x y then x :: l else y :: insK x r
  end.
Definition sortK (l : frame) : frame := fold_right insK [] l.

(* extend the merged series m of a run by the next contiguous series s *)
Definition extend (m s : series) : series :=
  mkS (s_dt m)
      (if slt (s_ts s) (s_ts m) then s_ts s else s_ts m)
      (if slt (s_te m) (s_te s) then s_te s else s_te m)
      (s_al m)
      (s_data m ++ s_data s).

(* mergeContiguousSeries: k = key of the current run, m = merged series so far,
   p = the last original series of the run (contiguity is tested against it) *)
Fixpoint merge_go (k : N) (m p : series) (l : frame) : frame :=
  match l with
  | [] => [(k, m)]
  | (k', s) :: r =>
      if (k' =? k) && (al_upper p =? s_al s) then merge_go k (extend m s) s r
      else (k, m) :: merge_go k' s s r
  end.
Definition merge (l : frame) : frame :=
  match l with
  | [] => []
  | (k, s) :: r => merge_go k s s r
  end.

(* first validation failure in raw order *)
Definition dt_equiv (a b : N) : bool :=
  ((a =? dt_int64) || (a =? dt_timestamp)) && ((b =? dt_int64) || (b =? dt_timestamp)).
Fixpoint validate (st : cstate) (f : frame) : option N :=
  match f with
  | [] => None
  | (k, s) :: r =>
      match lookup k (st_dts st) with
      | None => Some EEncUnknownKey
      | Some dt =>
          if negb (dt =? s_dt s) && negb (dt_equiv dt (s_dt s)) then Some EEncDataType
          else validate st r
      end
  end.

Record flags := mkF { f_eqlens : bool; f_eqtr : bool; f_trzero : bool;
                      f_all : bool; f_eqal : bool; f_alzero : bool }.
Definition bit (pos : N) (b : bool) : N := if b then 2 ^ pos else 0.
Definition flags_encode (f : flags) : N :=
  bit equalLengthsFlagPos (f_eqlens f) + bit equalTimeRangesFlagPos (f_eqtr f) +
  bit timeRangesZeroFlagPos (f_trzero f) + bit allChannelsPresentFlagPos (f_all f) +
  bit equalAlignmentsFlagPos (f_eqal f) + bit zeroAlignmentsFlagPos (f_alzero f).
Definition flags_decode (b : N) : flags :=
  mkF (N.testbit b equalLengthsFlagPos) (N.testbit b equalTimeRangesFlagPos)
      (N.testbit b timeRangesZeroFlagPos) (N.testbit b allChannelsPresentFlagPos)
      (N.testbit b equalAlignmentsFlagPos) (N.testbit b zeroAlignmentsFlagPos).

Fixpoint eq_listN (a b : list N) : bool :=
  match a, b with
  | [], [] => true
  | x :: a', y :: b' => (x =? y) && eq_listN a' b'
  | _, _ => false
  end.

(* flags and the reference values (dataLen as written on the wire, refTr, refAlignment) *)
Definition compute_flags (st : cstate) (ms : frame) : flags * (N * N * N * N) :=
  let allp := eq_listN (map fst ms) (st_keys st) in
  match ms with
  | [] => (mkF (negb (has_var st)) true true allp true true, (two32 - 1, 0, 0, 0))
  | (_, s0) :: tl =>
      let eql := negb (has_var st) && forallb (fun ks => slen (snd ks) =? slen s0) tl in
      let eqtr := forallb (fun ks => (s_ts (snd ks) =? s_ts s0) && (s_te (snd ks) =? s_te s0)) tl in
      let eqal := forallb (fun ks => s_al (snd ks) =? s_al s0) tl in
      (mkF eql eqtr (eqtr && (s_ts s0 =? 0) && (s_te s0 =? 0)) allp eqal (eqal && (s_al s0 =? 0)),
       (slen s0, s_ts s0, s_te s0, s_al s0))
  end.

Definition enc_key (fl : flags) (k : N) : list N := if f_all fl then [] else enc32 k.
Definition enc_body (fl : flags) (s : series) : list N :=
  (if f_eqlens fl then []
   else enc32 (if is_variable (s_dt s) then lenN (s_data s) else slen s)) ++
  s_data s ++
  (if f_eqtr fl then [] else enc64 (s_ts s) ++ enc64 (s_te s)) ++
  (if f_eqal fl then [] else enc64 (s_al s)).
Definition enc_series (fl : flags) (ks : N * series) : list N :=
  enc_key fl (fst ks) ++ enc_body fl (snd ks).

Definition enc_header (fl : flags) (seq : N) (refs : N * N * N * N) : list N :=
  let '(dl, ts, te, al) := refs in
  enc8 (flags_encode fl) ++ enc32 seq ++
  (if f_eqlens fl then enc32 dl else []) ++
  (if f_eqtr fl && negb (f_trzero fl) then enc64 ts ++ enc64 te else []) ++
  (if f_eqal fl && negb (f_alzero fl) then enc64 al else []).

(* the series actually put on the wire: KeepKeys, sort, merge *)
Definition keep (st : cstate) (f : frame) : frame :=
  filter (fun ks => memN (fst ks) (st_keys st)) f.
Definition wire_series (compress : bool) (st : cstate) (f : frame) : frame :=
  let sorted := sortK (keep st f) in
  if compress then merge sorted else sorted.

Definition encode_state (compress : bool) (st : cstate) (seq : N) (f : frame) : outcome (list N) :=
  let kept := keep st f in
  match validate st kept with
  | Some e => Err e
  | None =>
      if existsb (fun ks => len_undefined (snd ks)) kept then Panic
      else
        let ms := wire_series compress st f in
        let '(fl, refs) := compute_flags st ms in
        Ok (enc_header fl seq refs ++ concat (map (enc_series fl) ms))
  end.

(* ------------------------------------------------------------------ decode *)
(* which revision of the Go code is modelled:
   v_bound      — decodeSeries bounds the data buffer by the input (fix for F8)
   v_noinit_err — DecodeStream before the first update returns an error instead of panicking *)
Record variant := mkV { v_bound : bool; v_noinit_err : bool }.
Definition upstream : variant := mkV false false.
Definition current : variant := mkV true true.

(* how the bytes reach the decoder: a reader that can report its remaining length
   (Decode(src []byte) → bytes.Reader) or an opaque io.Reader (DecodeStream on a websocket
   message reader) *)
Inductive rmode := Sized | Stream.

(* allocations of the chunked read: a buffer of [have] bytes exists and is being filled *)
Fixpoint chunk_allocs (fuel : nat) (n avail have : N) : list N :=
  match fuel with
  | O => []
  | S f =>
      if avail <? have then []
      else if have =? n then []
      else let next := N.min (2 * have) n in next :: chunk_allocs f n avail next
  end.

(* every make([]byte, _) performed while reading n data bytes from a source holding avail *)
Definition data_allocs (V : variant) (mode : rmode) (n avail : N) : list N :=
  if v_bound V then
    match mode with
    | Sized => if avail <? n then [] else [n]
    | Stream => if n <=? maxPrealloc then [n]
                else maxPrealloc :: chunk_allocs 64 n avail maxPrealloc
    end
  else [n].

Inductive dres (A : Type) := DOk (a : A) (rest : list N) | DErr (e : N) | DPanic.
Arguments DOk {A}. Arguments DErr {A}. Arguments DPanic {A}.

Definition read_tr (bs : list N) : rd (N * N) :=
  match read_uint 8 bs with
  | RdErr e => RdErr e
  | RdOk ts r1 => match read_uint 8 r1 with
                  | RdErr e => RdErr e
                  | RdOk te r2 => RdOk (ts, te) r2
                  end
  end.

Section Decode.
  Variable V : variant.
  Variable mode : rmode.

  (* decodeSeries(key) *)
  Definition dec_series (fl : flags) (st : cstate) (refs : N * N * N * N) (key : N) (bs : list N)
    : dres series * list N :=
    let '(dl, rts, rte, ral) := refs in
    match (if f_eqlens fl then RdOk dl bs else read_uint 4 bs) with
    | RdErr e => (DErr (rd_code e), [])
    | RdOk n bs1 =>
        match lookup key (st_dts st) with
        | None => (DErr EUnknownKey, [])
        | Some dt =>
            if dt_undefined dt then (DPanic, [])
            else
              let size := if is_variable dt then n else n * density dt in
              let al := data_allocs V mode size (lenN bs1) in
              match read_full size bs1 with
              | RdErr e => (DErr (rd_code e), al)
              | RdOk data bs2 =>
                  match (if f_eqtr fl then RdOk (rts, rte) bs2 else read_tr bs2) with
                  | RdErr e => (DErr (rd_code e), al)
                  | RdOk (ts, te) bs3 =>
                      match (if f_eqal fl then RdOk ral bs3 else read_uint 8 bs3) with
                      | RdErr e => (DErr (rd_code e), al)
                      | RdOk a bs4 => (DOk (mkS dt ts te a data) bs4, al)
                      end
                  end
              end
        end
    end.

  (* allChannelsPresent: one series per state key, in order; trailing bytes are ignored *)
  Fixpoint dec_all (fl : flags) (st : cstate) (refs : N * N * N * N) (keys : list N) (bs : list N)
    : outcome frame * list N :=
    match keys with
    | [] => (Ok [], [])
    | k :: r =>
        match dec_series fl st refs k bs with
        | (DErr e, al) => (Err e, al)
        | (DPanic, al) => (Panic, al)
        | (DOk s rest, al) =>
            match dec_all fl st refs r rest with
            | (Ok fr, al') => (Ok ((k, s) :: fr), al ++ al')
            | (o, al') => (o, al ++ al')
            end
        end
    end.

  (* otherwise: (key, series) pairs until a clean EOF *)
  Fixpoint dec_loop (fuel : nat) (fl : flags) (st : cstate) (refs : N * N * N * N) (bs : list N)
    : outcome frame * list N :=
    match fuel with
    | O => (Err EFuel, [])
    | S f =>
        match read_uint 4 bs with
        | RdErr REOF => (Ok [], [])
        | RdErr RUnexpectedEOF => (Err EUnexpectedEOF, [])
        | RdOk k bs1 =>
            match dec_series fl st refs k bs1 with
            | (DErr e, al) => (Err e, al)
            | (DPanic, al) => (Panic, al)
            | (DOk s rest, al) =>
                match dec_loop f fl st refs rest with
                | (Ok fr, al') => (Ok ((k, s) :: fr), al ++ al')
                | (o, al') => (o, al ++ al')
                end
            end
        end
    end.

  Definition state_at (states : list cstate) (seq : N) : option cstate :=
    if (1 <=? seq) && (seq <=? lenN states) then nth_error states (N.to_nat (seq - 1)) else None.

  (* DecodeStream after processUpdates / the not-updated check *)
  Definition decode_states (states : list cstate) (bs : list N) : outcome frame * list N :=
    match read_uint 1 bs with
    | RdErr e => (Err (rd_code e), [])
    | RdOk fb b1 =>
        match read_uint 4 b1 with
        | RdErr e => (Err (rd_code e), [])
        | RdOk seq b2 =>
            match state_at states seq with
            | None => (Err EInvalidSeq, [])
            | Some st =>
                let fl := flags_decode fb in
                match (if f_eqlens fl then read_uint 4 b2 else RdOk 0 b2) with
                | RdErr e => (Err (rd_code e), [])
                | RdOk dl b3 =>
                    match (if f_eqtr fl && negb (f_trzero fl) then read_tr b3 else RdOk (0, 0) b3) with
                    | RdErr e => (Err (rd_code e), [])
                    | RdOk (ts, te) b4 =>
                        match (if f_eqal fl && negb (f_alzero fl) then read_uint 8 b4 else RdOk 0 b4) with
                        | RdErr e => (Err (rd_code e), [])
                        | RdOk al b5 =>
                            if f_all fl then dec_all fl st (dl, ts, te, al) (st_keys st) b5
                            else dec_loop (S (length b5)) fl st (dl, ts, te, al) b5
                        end
                    end
                end
            end
        end
    end.
End Decode.

(* ------------------------------------------------------------------ the Codec object *)
(* c_states: states[1..seqNum] in order; c_pending: the buffered updates channel *)
Record codec := mkC { c_states : list cstate; c_pending : list cstate; c_compress : bool }.

Definition new_codec (compress : bool) : codec := mkC [] [] compress.
(* processUpdates (sequential use: updateAvailable is set iff the channel is non-empty) *)
Definition process (c : codec) : codec := mkC (c_states c ++ c_pending c) [] (c_compress c).
(* update: None = the send on the full 50-slot channel would block forever *)
Definition c_update (c : codec) (st : cstate) : option codec :=
  if updatesCap <=? lenN (c_pending c) then None
  else Some (mkC (c_states c) (c_pending c ++ [st]) (c_compress c)).
Definition new_static (compress : bool) (keys dts : list N) : codec :=
  mkC [] [mk_static keys dts] compress.

Definition c_encode (c : codec) (f : frame) : codec * outcome (list N) :=
  let c' := process c in
  (c', match last (map Some (c_states c')) None with
       | None => Panic
       | Some st => encode_state (c_compress c') st (lenN (c_states c')) f
       end).

Definition c_decode (V : variant) (mode : rmode) (c : codec) (bs : list N)
  : codec * (outcome frame * list N) :=
  let c' := process c in
  (c', match c_states c' with
       | [] => (if v_noinit_err V then Err ENotUpdated else Panic, [])
       | _ => decode_states V mode (c_states c') bs
       end).

(* ------------------------------------------------------------------ abstract view *)
(* what the decoder is specified to return for a frame: the wire series with the data type of
   the channel in the agreed state *)
Definition retype (st : cstate) (ks : N * series) : N * series :=
  let s := snd ks in
  (fst ks, mkS (match lookup (fst ks) (st_dts st) with Some dt => dt | None => s_dt s end)
               (s_ts s) (s_te s) (s_al s) (s_data s)).
Definition norm (compress : bool) (st : cstate) (f : frame) : frame :=
  map (retype st) (wire_series compress st f).

(* per-channel byte sequence of a frame *)
Definition chan_data (k : N) (f : frame) : list N :=
  concat (map (fun ks => s_data (snd ks)) (filter (fun ks => fst ks =? k) f)).

Definition sum_allocs (l : list N) : N := fold_right N.add 0 l.

(* ------------------------------------------------------------------ validity *)
(* "a valid frame over the agreed channel set": what Series.Validate checks (fixed types: the
   buffer is a whole number of samples; variable types: the length-prefix chain consumes the
   buffer exactly), the codec's own validation (known key, matching data type), and the sizes
   the uint32 wire fields can carry. *)
Fixpoint var_wf (fuel : nat) (bs : list N) : bool :=
  match bs with
  | [] => true
  | _ => match fuel with
         | O => false
         | S f => match chain_step bs with
                  | None => false
                  | Some rest => var_wf f rest
                  end
         end
  end.
Definition data_wf (dt : N) (data : list N) : bool :=
  if is_variable dt then var_wf (length data) data
  else negb (density dt =? 0) && (lenN data mod density dt =? 0).
Definition series_valid (s : series) : bool :=
  data_wf (s_dt s) (s_data s) && (s_ts s <? two64) && (s_te s <? two64) && (s_al s <? two64).
(* every data type of the state is a real one, every key fits the wire *)
Definition state_known (st : cstate) : bool :=
  forallb (fun p => negb (dt_undefined (snd p))) (st_dts st) &&
  forallb (fun k => k <? two32) (st_keys st).
Definition total_size (f : frame) : N := fold_right (fun ks acc => lenN (s_data (snd ks)) + acc) 0 f.
Definition frame_valid (st : cstate) (f : frame) : bool :=
  state_known st &&
  forallb (fun ks => series_valid (snd ks)) (keep st f) &&
  match validate st (keep st f) with None => true | Some _ => false end &&
  (total_size (keep st f) <? two32).
