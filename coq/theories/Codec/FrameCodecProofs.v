(* Codec/FrameCodecProofs.v — round trip of the frame wire codec at the level of one agreed
   state: decoding the encoding of a valid frame yields its normal form, for every
   combination of the six header flags. *)
From Coq Require Import List NArith Bool Lia PeanoNat.
Import ListNotations.
From Synnax Require Import Common.Bytes Common.BytesProofs Generated.Consts_C08 Codec.FrameCodec.
Local Open Scope N_scope.

(* ------------------------------------------------------------------ small facts *)
Lemma pow1 : 256 ^ N.of_nat 1 = 256. Proof. reflexivity. Qed.
Lemma pow4 : 256 ^ N.of_nat 4 = two32. Proof. reflexivity. Qed.
Lemma pow8 : 256 ^ N.of_nat 8 = two64. Proof. reflexivity. Qed.

Lemma flags_roundtrip fl : flags_decode (flags_encode fl) = fl.
Proof. destruct fl as [[] [] [] [] [] []]; reflexivity. Qed.

Lemma flags_encode_lt fl : flags_encode fl < 256.
Proof. destruct fl as [[] [] [] [] [] []]; vm_compute; reflexivity. Qed.

Lemma read8 n rest : n < 256 -> read_uint 1 (enc8 n ++ rest) = RdOk n rest.
Proof. intros H. apply read_uint_enc. now rewrite pow1. Qed.
Lemma read32 n rest : n < two32 -> read_uint 4 (enc32 n ++ rest) = RdOk n rest.
Proof. intros H. apply read_uint_enc. now rewrite pow4. Qed.
Lemma read64 n rest : n < two64 -> read_uint 8 (enc64 n ++ rest) = RdOk n rest.
Proof. intros H. apply read_uint_enc. now rewrite pow8. Qed.

Lemma read_tr_enc ts te rest : ts < two64 -> te < two64 ->
  read_tr (enc64 ts ++ enc64 te ++ rest) = RdOk (ts, te) rest.
Proof. intros H1 H2. unfold read_tr. rewrite read64 by assumption. now rewrite read64 by assumption. Qed.

(* ------------------------------------------------------------------ data type classes *)
Definition compat (dt sdt : N) : Prop := dt = sdt \/ dt_equiv dt sdt = true.

Lemma dt_equiv_cases a b : dt_equiv a b = true -> (a = 8 \/ a = 11) /\ (b = 8 \/ b = 11).
Proof.
  unfold dt_equiv, dt_int64, dt_timestamp. intros H. apply andb_prop in H as [H1 H2].
  apply orb_prop in H1. apply orb_prop in H2. rewrite !N.eqb_eq in *. tauto.
Qed.

Lemma compat_class dt sdt : compat dt sdt ->
  is_variable dt = is_variable sdt /\ density dt = density sdt.
Proof.
  intros [->|H]; [split; reflexivity|].
  apply dt_equiv_cases in H as [[->| ->] [->| ->]]; split; reflexivity.
Qed.

Lemma validate_compat st f : validate st f = None ->
  Forall (fun ks => exists dt, lookup (fst ks) (st_dts st) = Some dt /\ compat dt (s_dt (snd ks))) f.
Proof.
  induction f as [|[k s] r IH]; intros H; [constructor|].
  cbn [validate] in H. destruct (lookup k (st_dts st)) as [dt|] eqn:L; [|discriminate].
  destruct (negb (dt =? s_dt s) && negb (dt_equiv dt (s_dt s))) eqn:E; [discriminate|].
  constructor; [|now apply IH]. exists dt. split; [exact L|]. cbn [fst snd].
  apply andb_false_iff in E as [E|E]; apply negb_false_iff in E.
  - left. now apply N.eqb_eq.
  - now right.
Qed.

(* ------------------------------------------------------------------ series on the wire *)
(* what the round trip needs of one (possibly merged) series *)
Record ser_ok (st : cstate) (ks : N * series) : Prop := mk_ok {
  ok_key : fst ks < two32;
  ok_dt : exists dt, lookup (fst ks) (st_dts st) = Some dt /\ compat dt (s_dt (snd ks));
  ok_fixed : is_variable (s_dt (snd ks)) = false ->
             density (s_dt (snd ks)) <> 0 /\ lenN (s_data (snd ks)) mod density (s_dt (snd ks)) = 0;
  ok_ts : s_ts (snd ks) < two64;
  ok_te : s_te (snd ks) < two64;
  ok_al : s_al (snd ks) < two64;
  ok_size : lenN (s_data (snd ks)) < two32 }.

Lemma slen_fixed s : is_variable (s_dt s) = false -> density (s_dt s) <> 0 ->
  slen s = lenN (s_data s) / density (s_dt s).
Proof.
  intros Hv Hd. unfold slen, slen_opt. destruct (s_data s) as [|b r] eqn:E.
  - change (lenN (@nil N)) with 0. symmetry. now apply N.div_0_l.
  - rewrite Hv. apply N.eqb_neq in Hd. now rewrite Hd.
Qed.

Lemma slen_exact s : is_variable (s_dt s) = false -> density (s_dt s) <> 0 ->
  lenN (s_data s) mod density (s_dt s) = 0 ->
  slen s * density (s_dt s) = lenN (s_data s) /\ slen s <= lenN (s_data s).
Proof.
  intros Hv Hd Hm. rewrite slen_fixed by assumption.
  pose proof (N.div_mod (lenN (s_data s)) (density (s_dt s)) Hd) as E. rewrite Hm in E.
  split; [lia|]. apply N.div_le_upper_bound; [assumption|]. nia.
Qed.

(* the reference values of the header agree with the series whenever the flag says so *)
Definition agree (fl : flags) (refs : N * N * N * N) (s : series) : Prop :=
  let '(dl, rts, rte, ral) := refs in
  (f_eqlens fl = true -> is_variable (s_dt s) = false /\ slen s = dl) /\
  (f_eqtr fl = true -> s_ts s = rts /\ s_te s = rte) /\
  (f_eqal fl = true -> s_al s = ral).

Lemma dec_series_enc V mode fl st refs k s rest :
  ser_ok st (k, s) -> agree fl refs s ->
  fst (dec_series V mode fl st refs k (enc_body fl s ++ rest)) = DOk (snd (retype st (k, s))) rest.
Proof.
  intros [Hk [dt [Hl Hc]] Hf Hts Hte Hal Hsz] Ha. cbn [fst snd] in *.
  destruct refs as [[[dl rts] rte] ral]. destruct Ha as (Ha1 & Ha2 & Ha3).
  apply compat_class in Hc as [Hv Hd].
  unfold dec_series, enc_body, retype. cbn [fst snd]. rewrite Hl.
  (* the size the decoder computes is the size of the data *)
  assert (Hund : dt_undefined dt = false).
  { unfold dt_undefined. destruct (is_variable dt) eqn:Ev; [reflexivity|]. cbn [negb andb].
    rewrite <- Hv in Hf. destruct (Hf eq_refl) as [Hn _]. rewrite Hd. now apply N.eqb_neq. }
  pose (wl := if is_variable (s_dt s) then lenN (s_data s) else slen s).
  assert (Hwl : wl < two32).
  { unfold wl. destruct (is_variable (s_dt s)) eqn:Ev; [assumption|].
    destruct (Hf eq_refl) as [Hn Hm]. destruct (slen_exact s Ev Hn Hm). lia. }
  assert (Hsize : (if is_variable dt then wl else wl * density dt) = lenN (s_data s)).
  { unfold wl. rewrite Hv. destruct (is_variable (s_dt s)) eqn:Ev; [reflexivity|].
    destruct (Hf eq_refl) as [Hn Hm]. rewrite Hd. now destruct (slen_exact s Ev Hn Hm). }
  assert (Hn : exists bs1, (if f_eqlens fl then RdOk dl (enc_body fl s ++ rest)
                            else read_uint 4 (enc_body fl s ++ rest)) = RdOk wl bs1 /\
          bs1 = s_data s ++ (if f_eqtr fl then [] else enc64 (s_ts s) ++ enc64 (s_te s)) ++
                (if f_eqal fl then [] else enc64 (s_al s)) ++ rest).
  { unfold enc_body. destruct (f_eqlens fl) eqn:E.
    - destruct (Ha1 eq_refl) as [Ev Hs]. eexists. split; [|reflexivity].
      unfold wl. rewrite Ev, Hs. cbn [app]. now rewrite <- !app_assoc.
    - eexists. split; [|reflexivity]. rewrite <- !app_assoc. now apply read32. }
  destruct Hn as (bs1 & Hr & ->). unfold enc_body in Hr. rewrite Hr. rewrite Hund.
  rewrite Hsize. rewrite read_full_app.
  destruct (f_eqtr fl) eqn:Etr.
  - destruct (Ha2 eq_refl) as [<- <-]. cbn [app].
    destruct (f_eqal fl) eqn:Eal.
    + rewrite <- (Ha3 eq_refl). reflexivity.
    + rewrite read64 by assumption. reflexivity.
  - rewrite <- !app_assoc. rewrite read_tr_enc by assumption.
    destruct (f_eqal fl) eqn:Eal.
    + rewrite <- (Ha3 eq_refl). reflexivity.
    + rewrite read64 by assumption. reflexivity.
Qed.

(* ------------------------------------------------------------------ the two loops *)
Lemma dec_all_enc V mode fl st refs ms rest :
  Forall (ser_ok st) ms -> Forall (fun ks => agree fl refs (snd ks)) ms ->
  fst (dec_all V mode fl st refs (map fst ms) (concat (map (fun ks => enc_body fl (snd ks)) ms) ++ rest))
  = Ok (map (retype st) ms).
Proof.
  induction ms as [|[k s] r IH]; intros Hok Hag; [reflexivity|].
  inversion Hok as [|? ? Hok1 Hok2]; inversion Hag as [|? ? Hag1 Hag2]; subst.
  cbn [map concat fst snd dec_all]. rewrite <- app_assoc.
  pose proof (dec_series_enc V mode fl st refs k s
                (concat (map (fun ks => enc_body fl (snd ks)) r) ++ rest) Hok1 Hag1) as E.
  destruct (dec_series V mode fl st refs k _) as [d al]. cbn [fst] in E. subst d.
  specialize (IH Hok2 Hag2).
  destruct (dec_all V mode fl st refs (map fst r) _) as [o al']. cbn [fst] in IH. subst o.
  reflexivity.
Qed.

Lemma dec_loop_enc V mode fl st refs ms fuel :
  f_all fl = false ->
  Forall (ser_ok st) ms -> Forall (fun ks => agree fl refs (snd ks)) ms ->
  (length ms < fuel)%nat ->
  fst (dec_loop V mode fuel fl st refs (concat (map (enc_series fl) ms))) = Ok (map (retype st) ms).
Proof.
  intros Hall. revert fuel. induction ms as [|[k s] r IH]; intros fuel Hok Hag Hf.
  - destruct fuel; [cbn in Hf; lia|]. reflexivity.
  - destruct fuel; [cbn in Hf; lia|].
    inversion Hok as [|? ? Hok1 Hok2]; inversion Hag as [|? ? Hag1 Hag2]; subst.
    cbn [map concat dec_loop]. unfold enc_series at 1, enc_key. rewrite Hall. cbn [fst snd].
    rewrite <- !app_assoc. rewrite read32 by (apply (ok_key _ _ Hok1)).
    pose proof (dec_series_enc V mode fl st refs k s (concat (map (enc_series fl) r)) Hok1 Hag1) as E.
    destruct (dec_series V mode fl st refs k _) as [d al]. cbn [fst] in E. subst d.
    assert (Hf' : (length r < fuel)%nat) by (cbn [length] in Hf; lia).
    specialize (IH fuel Hok2 Hag2 Hf').
    destruct (dec_loop V mode fuel fl st refs _) as [o al']. cbn [fst] in IH. subst o.
    reflexivity.
Qed.

(* ------------------------------------------------------------------ flags vs. the series *)
Lemma compute_flags_agree st ms fl refs :
  compute_flags st ms = (fl, refs) ->
  (forall ks, In ks ms -> is_variable (s_dt (snd ks)) = true -> has_var st = true) ->
  Forall (fun ks => agree fl refs (snd ks)) ms.
Proof.
  intros H Hv. destruct ms as [|[k0 s0] tl]; [constructor|].
  cbn [compute_flags] in H. inversion H; subst; clear H. cbn [f_eqlens f_eqtr f_eqal].
  assert (Hv0 : forall ks, In ks ((k0, s0) :: tl) ->
                negb (has_var st) = true -> is_variable (s_dt (snd ks)) = false).
  { intros ks Hin Hn. destruct (is_variable (s_dt (snd ks))) eqn:E; [|reflexivity].
    rewrite (Hv ks Hin E) in Hn. discriminate. }
  constructor.
  - unfold agree. cbn [snd f_eqlens f_eqtr f_eqal].
    split; [|split]; intros E; [split|split|]; try reflexivity.
    apply andb_prop in E as [E _]. apply (Hv0 (k0, s0)); [now left|assumption].
  - apply Forall_forall. intros ks Hin. unfold agree. cbn [f_eqlens f_eqtr f_eqal].
    split; [|split]; intros E; [split|split|].
    + apply andb_prop in E as [E1 E2]. apply (Hv0 ks); [now right|assumption].
    + apply andb_prop in E as [E1 E2]. rewrite forallb_forall in E2.
      apply N.eqb_eq. now apply E2.
    + rewrite forallb_forall in E. specialize (E ks Hin). apply andb_prop in E as [E _].
      now apply N.eqb_eq.
    + rewrite forallb_forall in E. specialize (E ks Hin). apply andb_prop in E as [_ E].
      now apply N.eqb_eq.
    + rewrite forallb_forall in E. specialize (E ks Hin). now apply N.eqb_eq.
Qed.

Lemma compute_flags_zero st ms fl dl ts te al :
  compute_flags st ms = (fl, (dl, ts, te, al)) ->
  (f_trzero fl = true -> f_eqtr fl = true /\ ts = 0 /\ te = 0) /\
  (f_alzero fl = true -> f_eqal fl = true /\ al = 0) /\
  f_all fl = eq_listN (map fst ms) (st_keys st).
Proof.
  intros H. destruct ms as [|[k0 s0] tl]; cbn [compute_flags] in H; inversion H; subst; clear H;
    cbn [f_trzero f_eqtr f_alzero f_eqal f_all].
  - split; [|split]; [intros _; repeat split|intros _; split|]; reflexivity.
  - split; [|split]; [intros E; split; [|split]|intros E; split|reflexivity].
    + apply andb_prop in E as [E _]. now apply andb_prop in E as [E _].
    + apply andb_prop in E as [E _]. apply andb_prop in E as [_ E]. now apply N.eqb_eq.
    + apply andb_prop in E as [_ E]. now apply N.eqb_eq.
    + now apply andb_prop in E as [E _].
    + apply andb_prop in E as [_ E]. now apply N.eqb_eq.
Qed.

Lemma eq_listN_eq a b : eq_listN a b = true -> a = b.
Proof.
  revert b; induction a as [|x a IH]; intros [|y b] H; try discriminate; [reflexivity|].
  cbn [eq_listN] in H. apply andb_prop in H as [H1 H2]. apply N.eqb_eq in H1. subst.
  f_equal. now apply IH.
Qed.

Lemma eq_listN_refl a : eq_listN a a = true.
Proof. induction a as [|x a IH]; [reflexivity|]. cbn [eq_listN]. now rewrite N.eqb_refl, IH. Qed.

Lemma concat_enc_series_all fl ms :
  f_all fl = true ->
  concat (map (enc_series fl) ms) = concat (map (fun ks => enc_body fl (snd ks)) ms).
Proof.
  intros H. induction ms as [|ks r IH]; [reflexivity|].
  cbn [map concat]. rewrite IH. unfold enc_series, enc_key. now rewrite H.
Qed.

(* ------------------------------------------------------------------ header + body *)
Lemma nth_error_state_at states seq st :
  state_at states seq = Some st -> True.
Proof. trivial. Qed.

Theorem decode_encode_wire V mode states st seq ms fl refs :
  state_at states seq = Some st -> seq < two32 ->
  compute_flags st ms = (fl, refs) ->
  Forall (ser_ok st) ms ->
  (forall ks, In ks ms -> is_variable (s_dt (snd ks)) = true -> has_var st = true) ->
  fst (decode_states V mode states (enc_header fl seq refs ++ concat (map (enc_series fl) ms)))
  = Ok (map (retype st) ms).
Proof.
  intros Hst Hseq Hcf Hok Hvar.
  pose proof (compute_flags_agree st ms fl refs Hcf Hvar) as Hag.
  destruct refs as [[[dl ts] te] al].
  destruct (compute_flags_zero st ms fl dl ts te al Hcf) as (Hz1 & Hz2 & Hallp).
  assert (Hdl : f_eqlens fl = true -> dl < two32).
  { intros E. destruct ms as [|[k0 s0] tl].
    - cbn [compute_flags] in Hcf. inversion Hcf; subst. vm_compute. reflexivity.
    - cbn [compute_flags] in Hcf. inversion Hcf; subst.
      inversion Hok as [|? ? Hok1 _]; subst. inversion Hag as [|? ? Hag1 _]; subst.
      destruct Hag1 as (Ha1 & _). destruct (Ha1 E) as [Ev _]. cbn [snd] in *.
      destruct (ok_fixed _ _ Hok1 Ev) as [Hn Hm]. cbn [snd] in *.
      destruct (slen_exact s0 Ev Hn Hm). pose proof (ok_size _ _ Hok1). cbn [snd] in *. lia. }
  assert (Hts : f_eqtr fl = true -> ts < two64 /\ te < two64).
  { intros E. destruct ms as [|[k0 s0] tl].
    - cbn [compute_flags] in Hcf. inversion Hcf; subst. split; vm_compute; reflexivity.
    - cbn [compute_flags] in Hcf. inversion Hcf; subst. inversion Hok as [|? ? Hok1 _]; subst.
      split; [apply (ok_ts _ _ Hok1)|apply (ok_te _ _ Hok1)]. }
  assert (Hal : f_eqal fl = true -> al < two64).
  { intros E. destruct ms as [|[k0 s0] tl].
    - cbn [compute_flags] in Hcf. inversion Hcf; subst. vm_compute; reflexivity.
    - cbn [compute_flags] in Hcf. inversion Hcf; subst. inversion Hok as [|? ? Hok1 _]; subst.
      apply (ok_al _ _ Hok1). }
  unfold decode_states, enc_header. rewrite <- !app_assoc.
  rewrite read8 by apply flags_encode_lt. rewrite read32 by assumption.
  rewrite Hst. rewrite flags_roundtrip.
  (* optional header fields; the decoder's reference values agree with the series *)
  set (body := concat (map (enc_series fl) ms)).
  assert (Hag' : forall dl' ts' te' al',
            (f_eqlens fl = true -> dl' = dl) ->
            (f_eqtr fl = true -> ts' = ts /\ te' = te) ->
            (f_eqal fl = true -> al' = al) ->
            Forall (fun ks => agree fl (dl', ts', te', al') (snd ks)) ms).
  { intros dl' ts' te' al' E1 E2 E3. eapply Forall_impl; [|exact Hag].
    intros ks (A1 & A2 & A3). unfold agree.
    split; [|split]; intros E; [split|split|].
    - now apply A1. - rewrite (E1 E). now apply A1.
    - destruct (E2 E) as [-> _]. now apply A2. - destruct (E2 E) as [_ ->]. now apply A2.
    - rewrite (E3 E). now apply A3. }
  assert (Hfin : forall dl' ts' te' al',
            (f_eqlens fl = true -> dl' = dl) ->
            (f_eqtr fl = true -> ts' = ts /\ te' = te) ->
            (f_eqal fl = true -> al' = al) ->
            fst (if f_all fl then dec_all V mode fl st (dl', ts', te', al') (st_keys st) body
                 else dec_loop V mode (S (length body)) fl st (dl', ts', te', al') body)
            = Ok (map (retype st) ms)).
  { intros dl' ts' te' al' E1 E2 E3. specialize (Hag' dl' ts' te' al' E1 E2 E3).
    destruct (f_all fl) eqn:Eall.
    - symmetry in Hallp. apply eq_listN_eq in Hallp. rewrite <- Hallp.
      unfold body. rewrite concat_enc_series_all by assumption.
      rewrite <- (app_nil_r (concat _)). now apply dec_all_enc.
    - apply dec_loop_enc; try assumption.
      (* every series occupies at least its 4 key bytes *)
      unfold body. clear - Eall. induction ms as [|ks r IH]; [cbn; lia|].
      cbn [map concat length]. rewrite app_length. unfold enc_series at 1, enc_key. rewrite Eall.
      rewrite app_length. unfold enc32. rewrite encLE_length. lia. }
  destruct (f_eqlens fl) eqn:E1.
  - rewrite read32 by (now apply Hdl).
    destruct (f_eqtr fl && negb (f_trzero fl)) eqn:E2.
    + apply andb_prop in E2 as [E2 E2']. destruct (Hts E2). rewrite <- !app_assoc.
      rewrite read_tr_enc by assumption.
      destruct (f_eqal fl && negb (f_alzero fl)) eqn:E3.
      * apply andb_prop in E3 as [E3 E3']. rewrite read64 by (now apply Hal).
        apply Hfin; auto.
      * cbn [app]. apply Hfin; auto. intros E. rewrite E in E3. cbn [andb] in E3.
        apply negb_false_iff in E3. now destruct (Hz2 E3) as (_ & ->).
    + cbn [app].
      destruct (f_eqal fl && negb (f_alzero fl)) eqn:E3.
      * apply andb_prop in E3 as [E3 E3']. rewrite read64 by (now apply Hal).
        apply Hfin; auto. intros E. rewrite E in E2. cbn [andb] in E2.
        apply negb_false_iff in E2. destruct (Hz1 E2) as (_ & -> & ->). split; reflexivity.
      * cbn [app]. apply Hfin; auto.
        -- intros E. rewrite E in E2. cbn [andb] in E2.
           apply negb_false_iff in E2. destruct (Hz1 E2) as (_ & -> & ->). split; reflexivity.
        -- intros E. rewrite E in E3. cbn [andb] in E3.
           apply negb_false_iff in E3. now destruct (Hz2 E3) as (_ & ->).
  - cbn [app].
    destruct (f_eqtr fl && negb (f_trzero fl)) eqn:E2.
    + apply andb_prop in E2 as [E2 E2']. destruct (Hts E2). rewrite <- !app_assoc.
      rewrite read_tr_enc by assumption.
      destruct (f_eqal fl && negb (f_alzero fl)) eqn:E3.
      * apply andb_prop in E3 as [E3 E3']. rewrite read64 by (now apply Hal).
        apply Hfin; auto. discriminate.
      * cbn [app]. apply Hfin; auto; [discriminate|]. intros E. rewrite E in E3. cbn [andb] in E3.
        apply negb_false_iff in E3. now destruct (Hz2 E3) as (_ & ->).
    + cbn [app].
      destruct (f_eqal fl && negb (f_alzero fl)) eqn:E3.
      * apply andb_prop in E3 as [E3 E3']. rewrite read64 by (now apply Hal).
        apply Hfin; auto; [discriminate|]. intros E. rewrite E in E2. cbn [andb] in E2.
        apply negb_false_iff in E2. destruct (Hz1 E2) as (_ & -> & ->). split; reflexivity.
      * cbn [app]. apply Hfin; auto; [discriminate| |].
        -- intros E. rewrite E in E2. cbn [andb] in E2.
           apply negb_false_iff in E2. destruct (Hz1 E2) as (_ & -> & ->). split; reflexivity.
        -- intros E. rewrite E in E3. cbn [andb] in E3.
           apply negb_false_iff in E3. now destruct (Hz2 E3) as (_ & ->).
Qed.
