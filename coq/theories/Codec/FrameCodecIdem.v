(* Codec/FrameCodecIdem.v — the normal form is a normal form: sorting a sorted list and
   merging a merged list change nothing, retyping commutes with both; hence [norm] is
   idempotent and the monitor's canonical comparison accepts the model's own output. *)
From Coq Require Import List NArith ZArith Bool Lia PeanoNat Permutation.
Import ListNotations.
From Synnax Require Import Common.Bytes Common.BytesProofs Generated.Consts_C08 Codec.FrameCodec
  Codec.FrameCodecProofs Codec.FrameCodecNorm.
Local Open Scope N_scope.

(* ------------------------------------------------------------------ variable-density chains *)
Local Opaque firstn skipn.
Lemma chain_step_shorter bs r : chain_step bs = Some r -> (length r + 4 <= length bs)%nat.
Proof.
  unfold chain_step. destruct (lenN bs <? 4) eqn:E; [discriminate|]. apply N.ltb_ge in E.
  destruct (lenN (skipn 4 bs) <? _) eqn:E2; [discriminate|]. intros H. injection H as <-.
  rewrite !skipn_length. unfold lenN in E. lia.
Qed.

Lemma chain_step_nil : chain_step [] = None.
Proof. reflexivity. Qed.

Lemma chain_step_app a b r : chain_step a = Some r -> chain_step (a ++ b) = Some (r ++ b).
Proof.
  unfold chain_step. destruct (lenN a <? 4) eqn:E; [discriminate|]. apply N.ltb_ge in E.
  assert (L4 : (4 <= length a)%nat) by (unfold lenN in E; lia).
  rewrite lenN_app. replace (lenN a + lenN b <? 4) with false by (symmetry; apply N.ltb_ge; lia).
  rewrite firstn_app. replace (4 - length a)%nat with 0%nat by lia. rewrite firstn_O, app_nil_r.
  rewrite skipn_app. replace (4 - length a)%nat with 0%nat by lia. rewrite (skipn_O b).
  destruct (lenN (skipn 4 a) <? decLE (firstn 4 a)) eqn:E2; [discriminate|]. apply N.ltb_ge in E2.
  intros H. injection H as <-. rewrite lenN_app.
  replace (lenN (skipn 4 a) + lenN b <? decLE (firstn 4 a)) with false by (symmetry; apply N.ltb_ge; lia).
  rewrite skipn_app. f_equal. f_equal.
  replace (N.to_nat (decLE (firstn 4 a)) - length (skipn 4 a))%nat with 0%nat; [now rewrite skipn_O|].
  unfold lenN in E2. lia.
Qed.

Lemma varcount_fuel f1 f2 bs : (length bs <= f1)%nat -> (length bs <= f2)%nat ->
  varcount f1 bs = varcount f2 bs.
Proof.
  revert f2 bs. induction f1 as [|f1 IH]; intros f2 bs H1 H2.
  - destruct bs; [|cbn in H1; lia]. destruct f2; reflexivity.
  - destruct f2 as [|f2].
    + destruct bs; [reflexivity|cbn in H2; lia].
    + cbn [varcount]. destruct (chain_step bs) as [r|] eqn:E; [|reflexivity].
      apply chain_step_shorter in E. f_equal. apply IH; lia.
Qed.

Lemma var_wf_fuel f1 f2 bs : (length bs <= f1)%nat -> (length bs <= f2)%nat ->
  var_wf f1 bs = var_wf f2 bs.
Proof.
  revert f2 bs. induction f1 as [|f1 IH]; intros f2 bs H1 H2.
  - destruct bs; [|cbn in H1; lia]. destruct f2; reflexivity.
  - destruct f2 as [|f2].
    + destruct bs; [reflexivity|cbn in H2; lia].
    + destruct bs as [|b bs]; [reflexivity|]. cbn [var_wf].
      destruct (chain_step (b :: bs)) as [r|] eqn:E; [|reflexivity].
      apply chain_step_shorter in E. apply IH; lia.
Qed.

(* a well-formed chain followed by anything: the counts add up, well-formedness composes *)
Lemma varcount_app fa a b F : var_wf fa a = true -> (length a <= fa)%nat -> (length (a ++ b) <= F)%nat ->
  varcount F (a ++ b) = varcount fa a + varcount (length b) b.
Proof.
  revert a F. induction fa as [|fa IH]; intros a F Hw Ha HF.
  - destruct a; [|cbn in Ha; lia]. cbn [app varcount]. rewrite N.add_0_l. apply varcount_fuel; [assumption|lia].
  - destruct a as [|x a].
    + cbn [app]. cbn [varcount]. rewrite chain_step_nil. rewrite N.add_0_l. apply varcount_fuel; [assumption|lia].
    + cbn [var_wf] in Hw. destruct (chain_step (x :: a)) as [r|] eqn:E; [|discriminate].
      pose proof (chain_step_shorter _ _ E) as Hs.
      pose proof (chain_step_app _ b _ E) as Eb.
      destruct F as [|F]; [cbn in HF; lia|]. cbn [varcount]. rewrite Eb, E.
      rewrite (IH r F Hw); [lia| |].
      * cbn [length] in *. lia.
      * rewrite app_length in *. cbn [length] in *. lia.
Qed.

Lemma var_wf_app fa a b F : var_wf fa a = true -> (length a <= fa)%nat -> (length (a ++ b) <= F)%nat ->
  var_wf F (a ++ b) = var_wf (length b) b.
Proof.
  revert a F. induction fa as [|fa IH]; intros a F Hw Ha HF.
  - destruct a; [|cbn in Ha; lia]. cbn [app]. apply var_wf_fuel; [assumption|lia].
  - destruct a as [|x a].
    + cbn [app]. apply var_wf_fuel; [assumption|lia].
    + cbn [var_wf] in Hw. destruct (chain_step (x :: a)) as [r|] eqn:E; [|discriminate].
      pose proof (chain_step_shorter _ _ E) as Hs.
      pose proof (chain_step_app _ b _ E) as Eb.
      destruct F as [|F]; [cbn in HF; lia|]. cbn [app var_wf]. cbn [app] in Eb. rewrite Eb.
      apply (IH r F Hw).
      * cbn [length] in *. lia.
      * rewrite app_length in *. cbn [length] in *. lia.
Qed.

Local Transparent firstn skipn.

(* ------------------------------------------------------------------ Series.Len is additive on well-formed data *)
Lemma slen_class s s' : is_variable (s_dt s) = is_variable (s_dt s') -> density (s_dt s) = density (s_dt s') ->
  s_data s = s_data s' -> slen s = slen s'.
Proof. intros H1 H2 H3. unfold slen, slen_opt. now rewrite H1, H2, H3. Qed.

Lemma slen_var s : is_variable (s_dt s) = true -> slen s = varcount (length (s_data s)) (s_data s).
Proof.
  intros H. unfold slen, slen_opt. rewrite H. destruct (s_data s); reflexivity.
Qed.

(* series well-formed for its own data type *)
Definition swf (s : series) : Prop := data_wf (s_dt s) (s_data s) = true.

Lemma swf_fixed s : swf s -> is_variable (s_dt s) = false ->
  density (s_dt s) <> 0 /\ lenN (s_data s) mod density (s_dt s) = 0.
Proof.
  unfold swf, data_wf. intros H E. rewrite E in H. apply andb_prop in H as [H1 H2].
  apply negb_true_iff in H1. split; [now apply N.eqb_neq|now apply N.eqb_eq].
Qed.

Lemma slen_extend m s : swf m -> swf s ->
  is_variable (s_dt m) = is_variable (s_dt s) -> density (s_dt m) = density (s_dt s) ->
  slen (extend m s) = slen m + slen s /\ swf (extend m s).
Proof.
  intros Hm Hs Hv Hd. destruct (is_variable (s_dt m)) eqn:Ev.
  - (* variable *)
    assert (Ev' : is_variable (s_dt (extend m s)) = true) by exact Ev.
    rewrite (slen_var _ Ev'), (slen_var _ Ev), (slen_var s) by congruence.
    cbn [extend s_data]. unfold swf, data_wf in *. rewrite Ev in Hm. rewrite <- Hv in Hs.
    cbn [extend s_dt s_data]. rewrite Ev. split.
    + apply varcount_app; [exact Hm|lia|lia].
    + rewrite (var_wf_app (length (s_data m)) (s_data m) (s_data s)); [exact Hs|exact Hm|lia|lia].
  - destruct (swf_fixed m Hm Ev) as [Hn Hmod].
    assert (Evs : is_variable (s_dt s) = false) by congruence.
    destruct (swf_fixed s Hs Evs) as [Hn' Hmod'].
    assert (Ev' : is_variable (s_dt (extend m s)) = false) by exact Ev.
    rewrite (slen_fixed (extend m s)) by assumption. rewrite (slen_fixed m), (slen_fixed s) by assumption.
    cbn [extend s_dt s_data]. rewrite lenN_app. rewrite <- Hd in *.
    set (d := density (s_dt m)) in *.
    pose proof (N.div_mod (lenN (s_data m)) d Hn) as Em. rewrite Hmod in Em.
    split.
    + rewrite Em at 1. rewrite N.add_0_r. rewrite N.mul_comm. rewrite N.div_add_l by assumption. reflexivity.
    + unfold swf, data_wf. cbn [extend s_dt s_data]. rewrite Ev. fold d. apply andb_true_intro. split.
      * apply negb_true_iff. now apply N.eqb_neq.
      * apply N.eqb_eq. rewrite lenN_app. rewrite N.add_mod by assumption. rewrite Hmod, Hmod'.
        rewrite N.add_0_l. now apply N.mod_0_l.
Qed.

(* ------------------------------------------------------------------ alignment arithmetic *)
Lemma two32_nz : two32 <> 0. Proof. discriminate. Qed.

Lemma al_upper_split s :
  al_upper s / two32 = (s_al s / two32) mod two32 /\
  al_upper s mod two32 = (s_al s mod two32 + slen s mod two32) mod two32.
Proof.
  unfold al_upper.
  set (h := (s_al s / two32) mod two32). set (l := (s_al s mod two32 + slen s mod two32) mod two32).
  assert (Hl : l < two32) by (apply N.mod_lt; exact two32_nz).
  split.
  - rewrite N.div_add_l by exact two32_nz. rewrite (N.div_small l) by assumption. lia.
  - rewrite N.add_comm, N.mod_add by exact two32_nz. now apply N.mod_small.
Qed.

Lemma mod_chain A x y :
  ((A mod two32 + x mod two32) mod two32 + y mod two32) mod two32
  = (A mod two32 + (x + y) mod two32) mod two32.
Proof.
  unfold two32.
  Local Ltac Zify.zify_post_hook ::= Z.to_euclidean_division_equations.
  lia.
Qed.
Local Ltac Zify.zify_post_hook ::= idtac.

(* a series that starts where m ends, appended to m, ends where it ended *)
Lemma al_upper_extend m s :
  s_al s = al_upper m -> slen (extend m s) = slen m + slen s ->
  al_upper (extend m s) = al_upper s.
Proof.
  intros Hal Hlen. destruct (al_upper_split m) as [Hh Hl].
  unfold al_upper at 2. rewrite Hal, Hh, Hl.
  unfold al_upper at 1. cbn [extend s_al]. rewrite Hlen.
  rewrite N.mod_mod by exact two32_nz. f_equal. symmetry. apply mod_chain.
Qed.

(* ------------------------------------------------------------------ merge is idempotent *)
(* no two neighbours could be merged *)
Fixpoint nm (l : frame) : bool :=
  match l with
  | [] => true
  | x :: r => match r with
              | [] => true
              | y :: _ => negb ((fst y =? fst x) && (al_upper (snd x) =? s_al (snd y)))
              end && nm r
  end.

Lemma merge_go_nm_id k s r : nm ((k, s) :: r) = true -> merge_go k s s r = (k, s) :: r.
Proof.
  revert k s. induction r as [|[k' s'] r IH]; intros k s H; [reflexivity|].
  cbn [nm fst snd] in H. apply andb_prop in H as [H1 H2]. apply negb_true_iff in H1.
  cbn [merge_go]. rewrite H1. f_equal. now apply IH.
Qed.

Lemma merge_nm_id l : nm l = true -> merge l = l.
Proof. destruct l as [|[k s] r]; [reflexivity|]. apply merge_go_nm_id. Qed.

(* series of one channel share the class of the channel's data type *)
Definition swf_st (st : cstate) (ks : N * series) : Prop := ser_pre st ks /\ swf (snd ks).

Lemma same_key_class st k a b : ser_pre st (k, a) -> ser_pre st (k, b) ->
  is_variable (s_dt a) = is_variable (s_dt b) /\ density (s_dt a) = density (s_dt b).
Proof.
  intros [_ [dt [L C]] _ _ _ _] [_ [dt' [L' C']] _ _ _ _]. cbn [fst snd] in *.
  rewrite L in L'. inversion L'; subst dt'.
  destruct (compat_class _ _ C), (compat_class _ _ C'). split; congruence.
Qed.

Lemma merge_go_head k m p l : exists m' r, merge_go k m p l = (k, m') :: r /\ s_al m' = s_al m.
Proof.
  revert k m p. induction l as [|[k' s] r IH]; intros k m p; cbn [merge_go].
  - eauto.
  - destruct (_ && _).
    + destruct (IH k (extend m s) s) as (m' & r' & E & A). exists m', r'. split; [exact E|exact A].
    + eauto.
Qed.

Lemma merge_go_nm st k m p l :
  swf_st st (k, m) -> Forall (swf_st st) l -> al_upper m = al_upper p ->
  nm (merge_go k m p l) = true.
Proof.
  revert k m p. induction l as [|[k' s] r IH]; intros k m p Hm Hl Hinv; [reflexivity|].
  inversion Hl as [|? ? Hs Hr]; subst. cbn [merge_go].
  destruct ((k' =? k) && (al_upper p =? s_al s)) eqn:E.
  - apply andb_prop in E as [E1 E2]. apply N.eqb_eq in E1, E2. subst k'.
    destruct Hm as [Hpm Hwm], Hs as [Hps Hws]. cbn [snd] in *.
    destruct (same_key_class st k m s Hpm Hps) as [Cv Cd].
    destruct (slen_extend m s Hwm Hws Cv Cd) as [Hlen Hwf].
    apply IH; [split; [now apply extend_pre|exact Hwf]|assumption|].
    apply al_upper_extend; [congruence|exact Hlen].
  - destruct (merge_go_head k' s s r) as (m' & r' & Eh & Ah).
    assert (Hrec : nm (merge_go k' s s r) = true) by (apply IH; auto).
    rewrite Eh in Hrec |- *. cbn [nm fst snd] in Hrec |- *. rewrite Hrec. rewrite andb_true_r.
    rewrite Hinv, Ah. now rewrite E.
Qed.

Lemma merge_nm st l : Forall (swf_st st) l -> nm (merge l) = true.
Proof.
  destruct l as [|[k s] r]; [reflexivity|]. intros H. inversion H; subst. cbn [merge].
  eapply merge_go_nm; eauto.
Qed.

Theorem merge_idem st l : Forall (swf_st st) l -> merge (merge l) = merge l.
Proof. intros H. apply merge_nm_id. eapply merge_nm; eassumption. Qed.

(* ------------------------------------------------------------------ merge keeps the (strong) order *)
Definition ka (x : N * series) : N * N := (fst x, s_al (snd x)).

Lemma kle_ka a a' b b' : ka a = ka a' -> ka b = ka b' -> kle a b = kle a' b'.
Proof. unfold ka, kle. intros H1 H2. inversion H1. inversion H2. now rewrite H0, H3, H4, H5. Qed.

Lemma kle_trans a b c : kle a b = true -> kle b c = true -> kle a c = true.
Proof.
  unfold kle. intros H1 H2.
  apply orb_prop in H1. apply orb_prop in H2. apply orb_true_iff.
  rewrite !andb_true_iff, !N.ltb_lt, !N.eqb_eq, !N.leb_le in *. lia.
Qed.

Fixpoint ssorted (l : frame) : Prop :=
  match l with
  | [] => True
  | x :: r => Forall (fun y => kle x y = true) r /\ ssorted r
  end.

Lemma ssorted_sortedK l : ssorted l -> sortedK l.
Proof.
  induction l as [|x r IH]; [trivial|]. intros [H1 H2]. cbn [sortedK]. split; [|now apply IH].
  destruct r; [exact I|]. now inversion H1.
Qed.

Lemma insK_In y x l : In y (insK x l) -> y = x \/ In y l.
Proof. intros H. apply (Permutation_in _ (insK_perm x l)) in H. destruct H; auto. Qed.

Lemma insK_ss x l : ssorted l -> ssorted (insK x l).
Proof.
  induction l as [|y r IH]; intros H; [cbn; auto|]. destruct H as [H1 H2]. cbn [insK].
  destruct (kle x y) eqn:E.
  - cbn [ssorted]. split; [|split; assumption]. constructor; [exact E|].
    rewrite Forall_forall in *. intros z Hz. eapply kle_trans; [exact E|now apply H1].
  - cbn [ssorted]. split; [|now apply IH]. rewrite Forall_forall in *. intros z Hz.
    apply insK_In in Hz as [->|Hz]; [now apply kle_total|now apply H1].
Qed.

Lemma sortK_ss l : ssorted (sortK l).
Proof. induction l as [|x r IH]; [exact I|]. cbn [sortK fold_right]. fold (sortK r). now apply insK_ss. Qed.

Lemma merge_go_ka_in k m p l y : In y (merge_go k m p l) -> exists x, In x ((k, m) :: l) /\ ka y = ka x.
Proof.
  revert k m p. induction l as [|[k' s] r IH]; intros k m p H.
  - cbn in H. destruct H as [<-|[]]. exists (k, m). split; [now left|reflexivity].
  - cbn [merge_go] in H. destruct (_ && _).
    + apply IH in H as (x & [<-|Hx] & E).
      * exists (k, m). split; [now left|exact E].
      * exists x. split; [right; now right|exact E].
    + destruct H as [<-|H].
      * exists (k, m). split; [now left|reflexivity].
      * apply IH in H as (x & Hx & E). exists x. split; [now right|exact E].
Qed.

Lemma merge_go_ss k m p l :
  Forall (fun y => kle (k, m) y = true) l -> ssorted l -> ssorted (merge_go k m p l).
Proof.
  revert k m p. induction l as [|[k' s] r IH]; intros k m p Hf Hs; [cbn; auto|].
  inversion Hf as [|? ? Hf1 Hf2]; subst. destruct Hs as [Hs1 Hs2]. cbn [merge_go].
  destruct (_ && _).
  - apply IH; [|assumption]. eapply Forall_impl; [|exact Hf2]. intros y Hy.
    rewrite <- Hy. apply kle_ka; reflexivity.
  - cbn [ssorted]. split; [|now apply IH]. rewrite Forall_forall. intros y Hy.
    apply merge_go_ka_in in Hy as (x & Hx & E). rewrite (kle_ka (k, m) (k, m) y x eq_refl E).
    rewrite Forall_forall in Hf2. destruct Hx as [<-|Hx]; [exact Hf1|now apply Hf2].
Qed.

Lemma merge_ss l : ssorted l -> ssorted (merge l).
Proof. destruct l as [|[k s] r]; [trivial|]. intros [H1 H2]. cbn [merge]. now apply merge_go_ss. Qed.

(* ------------------------------------------------------------------ retyping commutes *)
Lemma retype_ka st x : ka (retype st x) = ka x.
Proof. reflexivity. Qed.

Lemma insK_map st x l : insK (retype st x) (map (retype st) l) = map (retype st) (insK x l).
Proof.
  induction l as [|y r IH]; [reflexivity|]. cbn [map insK].
  rewrite (kle_ka (retype st x) x (retype st y) y) by apply retype_ka.
  destruct (kle x y); [reflexivity|]. cbn [map]. now rewrite IH.
Qed.

Lemma sortK_map st l : sortK (map (retype st) l) = map (retype st) (sortK l).
Proof.
  induction l as [|x r IH]; [reflexivity|]. cbn [map sortK fold_right].
  fold (sortK (map (retype st) r)). fold (sortK r). rewrite IH. apply insK_map.
Qed.

Definition rt (st : cstate) (k : N) (s : series) : series := snd (retype st (k, s)).

Lemma rt_slen st k s : ser_pre st (k, s) -> slen (rt st k s) = slen s.
Proof.
  intros [_ [dt [L C]] _ _ _ _]. cbn [fst snd] in *. destruct (compat_class _ _ C).
  apply slen_class; unfold rt, retype; cbn [fst snd s_dt s_data]; rewrite ?L; auto.
Qed.

Lemma rt_al_upper st k s : ser_pre st (k, s) -> al_upper (rt st k s) = al_upper s.
Proof. intros H. unfold al_upper. now rewrite rt_slen. Qed.

Lemma rt_extend st k m s : rt st k (extend m s) = extend (rt st k m) (rt st k s).
Proof. reflexivity. Qed.

Lemma merge_go_map st k m p l :
  ser_pre st (k, p) -> Forall (ser_pre st) l ->
  merge_go k (rt st k m) (rt st k p) (map (retype st) l) = map (retype st) (merge_go k m p l).
Proof.
  revert k m p. induction l as [|[k' s] r IH]; intros k m p Hp Hl; [reflexivity|].
  inversion Hl as [|? ? Hs Hr]; subst. cbn [map merge_go].
  change (retype st (k', s)) with (k', rt st k' s). cbn [merge_go].
  rewrite (rt_al_upper st k p Hp). change (s_al (rt st k' s)) with (s_al s).
  destruct ((k' =? k) && (al_upper p =? s_al s)) eqn:E.
  - apply andb_prop in E as [E _]. apply N.eqb_eq in E. subst k'.
    rewrite <- rt_extend. now apply IH.
  - cbn [map]. f_equal. now apply IH.
Qed.

Lemma merge_map st l : Forall (ser_pre st) l -> merge (map (retype st) l) = map (retype st) (merge l).
Proof.
  destruct l as [|[k s] r]; [reflexivity|]. intros H. inversion H; subst. cbn [map merge].
  change (retype st (k, s)) with (k, rt st k s). cbn [merge]. now apply merge_go_map.
Qed.

Lemma retype_idem st x : retype st (retype st x) = retype st x.
Proof. destruct x as [k s]. unfold retype. cbn [fst snd s_dt]. destruct (lookup k (st_dts st)); reflexivity. Qed.

(* ------------------------------------------------------------------ validity gives swf_st *)
Lemma frame_valid_swf st f : frame_valid st f = true -> Forall (swf_st st) (keep st f).
Proof.
  intros H. destruct (frame_valid_pre st f H) as (Hpre & _).
  unfold frame_valid in H. apply andb_prop in H as [H _]. apply andb_prop in H as [H _].
  apply andb_prop in H as [_ Hser]. rewrite forallb_forall in Hser.
  rewrite Forall_forall in *. intros ks Hin. split; [now apply Hpre|].
  specialize (Hser ks Hin). unfold series_valid in Hser.
  apply andb_prop in Hser as [Hser _]. apply andb_prop in Hser as [Hser _].
  now apply andb_prop in Hser as [Hser _].
Qed.

Lemma swf_st_pre st l : Forall (swf_st st) l -> Forall (ser_pre st) l.
Proof. apply Forall_impl. now intros ks [H _]. Qed.

(* ------------------------------------------------------------------ the canonical comparison of the monitor *)
Theorem canon_norm compress st f : frame_valid st f = true ->
  merge (sortK (norm compress st f)) = norm true st f.
Proof.
  intros Hv. pose proof (frame_valid_swf st f Hv) as Hw.
  assert (Hws : Forall (swf_st st) (sortK (keep st f))) by now apply sortK_Forall.
  pose proof (swf_st_pre _ _ Hws) as Hps.
  unfold norm, wire_series. destruct compress.
  - rewrite sortK_map.
    rewrite (sortK_id (merge (sortK (keep st f)))).
    2:{ apply ssorted_sortedK. apply merge_ss. apply sortK_ss. }
    rewrite merge_map by (now apply merge_pre).
    now rewrite (merge_idem st).
  - rewrite sortK_map. rewrite (sortK_id (sortK (keep st f))) by apply sortK_sorted.
    now rewrite merge_map.
Qed.

(* keys of the normal form are keys of the state *)
Lemma merge_keys_in l x : In x (map fst (merge l)) -> In x (map fst l).
Proof.
  destruct l as [|[k s] r]; [trivial|]. cbn [merge]. intros H. apply merge_go_keys in H as [->|H]; [now left|now right].
Qed.

Lemma keep_all st l : Forall (fun ks => In (fst ks) (st_keys st)) l -> keep st l = l.
Proof.
  induction 1 as [|x r Hx Hr IH]; [reflexivity|]. unfold keep in *. cbn [filter].
  apply memN_In in Hx. now rewrite Hx, IH.
Qed.

Lemma norm_keys st f ks : In ks (norm true st f) -> In (fst ks) (st_keys st).
Proof.
  unfold norm, wire_series. intros H. apply in_map_iff in H as (y & <- & Hy).
  change (fst (retype st y)) with (fst y).
  assert (In (fst y) (map fst (merge (sortK (keep st f))))) by (apply in_map; exact Hy).
  apply merge_keys_in in H. apply in_map_iff in H as (z & Ez & Hz). rewrite <- Ez.
  apply (proj1 (sortK_In _ _)) in Hz. now apply (proj1 (keep_In _ _ _)) in Hz as [_ Hz].
Qed.

(* the normal form of a normal form is itself *)
Theorem norm_idem st f : frame_valid st f = true ->
  norm true st (norm true st f) = norm true st f.
Proof.
  intros Hv. unfold norm at 1. unfold wire_series.
  rewrite (keep_all st (norm true st f)).
  2:{ apply Forall_forall. intros ks. apply norm_keys. }
  rewrite (canon_norm true st f Hv). unfold norm. rewrite map_map.
  apply map_ext. intros x. apply retype_idem.
Qed.

(* ------------------------------------------------------------------ per-channel bytes of the normal form *)
Lemma chan_data_retype st c l : chan_data c (map (retype st) l) = chan_data c l.
Proof.
  induction l as [|[k s] r IH]; [reflexivity|]. cbn [map].
  change (retype st (k, s)) with (k, rt st k s). rewrite !chan_data_cons, IH. reflexivity.
Qed.

Theorem norm_chan_data compress st f c :
  chan_data c (norm compress st f) = chan_data c (sortK (keep st f)).
Proof.
  unfold norm, wire_series. rewrite chan_data_retype. destruct compress; [apply merge_chan_data|reflexivity].
Qed.
