(* Properties/C16.v — The ontology graph stays acyclic, exact and free of dangling edges.
   (work in progress: witnesses first) *)
From stdpp Require Import gmap.
From Coq Require Import NArith.
From Synnax Require Import Core.Ontology.
Local Open Scope N_scope.

Definition a1 := Id [97] [49].
Definition a10 := Id [97] [49; 48].
Definition a2 := Id [97] [50].
Definition w_ops := [DefRes a1; DefRes a10; DefRes a2; DefRel a10 s_parent a2].

(* F10: pinned prefix scan without the separator refuses a legal edge as cyclic *)
Theorem C16_f10_prefix_refuted :
  (step pinned (run pinned init w_ops) (DefRel a2 s_parent a1)).2 = ECyclic /\
  (step fixed (run fixed init w_ops) (DefRel a2 s_parent a1)).2 = EOk.
Proof. vm_compute. auto. Qed.
Print Assumptions C16_f10_prefix_refuted.

(* F11: pinned code accepts a self edge *)
Theorem C16_f11_self_edge_refuted :
  (step pinned (run pinned init w_ops) (DefRel a1 s_parent a1)).2 = EOk /\
  (step fixed (run fixed init w_ops) (DefRel a1 s_parent a1)).2 = ECyclic.
Proof. vm_compute. auto. Qed.
Print Assumptions C16_f11_self_edge_refuted.
