(* Properties/C16.v — The ontology graph stays acyclic, exact and free of dangling edges.
   Only statements, closed by [exact]/short glue, each followed by Print Assumptions.

   Vocabulary (Core/OntologyProofs.v): a store [st] denotes the digraph whose vertices are the
   resources ([has st i]) and whose edges are the stored relationships of any type
   ([edge st a b]); [reach st] is the transitive closure, [acyclic st] its irreflexivity.
   [wf st] = keys are the GorpKeys of the stored values, every stored id is [good_id], no edge
   dangles, the graph is acyclic.  [good_id i]: non-empty type without ':' and no "->" inside
   type:key.  The theorems are stated for good identifiers (suffix _partial): identifiers that
   are prefixes / suffixes of one another (a:1, a:10, a:21, ab:1, a:1-, a:>1 ...) are all good;
   the excluded ones are exactly those containing the key separator, for which the
   C16_sep_*_refuted theorems show each clause failing (known finding F20). *)
From stdpp Require Import gmap relations.
From Coq Require Import NArith.
From Synnax Require Import Core.Ontology Core.OntologyStr Core.OntologyProofs Monitors.Mon_C16
  Core.OntologyMonProofs.
Local Open Scope N_scope.

(* (1) At all times — after every history of define/delete resource, define (single,
   one-to-many) / delete relationship inside committed and aborted transactions — the committed
   graph and the open transaction's view are acyclic and free of dangling edges. *)
Theorem C16_invariant_partial : forall ops,
  Forall good_op ops ->
  let s := run fixed init ops in
  (acyclic (s_db s) /\ (forall a b, edge (s_db s) a b -> has (s_db s) a /\ has (s_db s) b)) /\
  (acyclic (cur s) /\ (forall a b, edge (cur s) a b -> has (cur s) a /\ has (cur s) b)).
Proof.
  intros ops Hops s.
  pose proof (run_wf fixed ops init eq_refl eq_refl wf_sys_init Hops) as Hs.
  pose proof (wf_cur _ Hs) as Hc. destruct Hs as [Hdb _]. fold s in Hdb, Hc.
  split; (split; [apply wf_acyclic; auto|intros a b; apply edge_has; auto]).
Qed.
Print Assumptions C16_invariant_partial.

Theorem C16_reachable_wf_partial : forall ops,
  Forall good_op ops -> wf_sys (run fixed init ops).
Proof. intros ops H. exact (run_wf fixed ops init eq_refl eq_refl wf_sys_init H). Qed.
Print Assumptions C16_reachable_wf_partial.

(* (2) DefineRelationship succeeds exactly when both resources exist and the new edge closes
   no cycle (t does not reach f, reflexively); it is then a no-op if the relationship exists
   and otherwise adds exactly that relationship; a refusal changes nothing. *)
Theorem C16_define_iff_partial : forall st f ty t,
  wf st -> good_id f -> good_id t -> good_ty ty ->
  let r := define_relationship fixed st f ty t in
  (r.2 = EOk <-> has st f /\ has st t /\ ~ rtc (edge st) t f) /\
  (r.2 = EOk -> r.1 = if has_rel st (Rel f ty t) then st else add_rel st (Rel f ty t)) /\
  (r.2 <> EOk -> r.1 = st /\ (r.2 = ENotFound \/ r.2 = ECyclic)) /\
  wf r.1.
Proof.
  intros st f ty t Hwf Hf Ht Hty r.
  pose proof (define_relationship_wf fixed st f ty t eq_refl eq_refl Hwf Hf Ht Hty) as Hw.
  destruct (define_relationship_spec fixed st f ty t eq_refl eq_refl Hwf Hf Ht Hty)
    as [[Hl E]|[Hn (e & E & He)]]; subst r; rewrite E in *; simpl.
  - split; [split; [intros _; exact Hl|auto]|].
    split; [intros _; reflexivity|]. split; [intros H; congruence|exact Hw].
  - assert (e <> EOk) by (destruct He; congruence).
    split; [split; [intros; congruence|intros Hl; exfalso; exact (Hn Hl)]|].
    split; [intros; congruence|]. split; [intros _; split; [reflexivity|exact He]|exact Hw].
Qed.
Print Assumptions C16_define_iff_partial.

(* the added relationship is the only change to the edge relation *)
Theorem C16_define_adds_only_partial : forall st r a b,
  wf st -> good_rel r ->
  edge (add_rel st r) a b <-> edge st a b \/ (a = r_from r /\ b = r_to r).
Proof. exact edge_add_rel. Qed.
Print Assumptions C16_define_adds_only_partial.

(* (2') one-to-many: succeeds exactly when the source and every target exist and no target
   reaches the source; adds exactly the listed edges. *)
Theorem C16_define_many_iff_partial : forall st f ty ts,
  wf st -> good_id f -> good_ty ty -> Forall good_id ts ->
  let r := define_many fixed st f ty ts in
  (r.2 = EOk <-> has st f /\ forall t, t ∈ ts -> has st t /\ ~ rtc (edge st) t f) /\
  (r.2 = EOk -> r.1 = add_rels st f ty ts /\
                forall x y, edge r.1 x y <-> edge st x y \/ (x = f /\ y ∈ ts)) /\
  (r.2 <> EOk -> r.1 = st /\ (r.2 = ENotFound \/ r.2 = ECyclic)).
Proof.
  intros st f ty ts Hwf Hf Hty Hts r.
  destruct (define_many_spec fixed st f ty ts eq_refl eq_refl Hwf Hf Hty Hts)
    as [[Hl E]|[Hn (e & E & He)]]; subst r; rewrite E in *; simpl.
  - split; [split; [intros _; exact Hl|auto]|]. split; [|congruence].
    intros _. split; [auto|]. apply add_rels_wf; auto.
  - assert (e <> EOk) by (destruct He; congruence).
    split; [split; [congruence|intros Hl; contradiction]|]. split; [congruence|auto].
Qed.
Print Assumptions C16_define_many_iff_partial.

(* (3) DeleteResource removes the resource and exactly the relationships touching it. *)
Theorem C16_delete_cleans_partial : forall st x,
  wf st -> good_id x ->
  let st' := (delete_resource st x).1 in
  o_res st' = delete (id_str x) (o_res st) /\
  (forall k r, o_rels st' !! k = Some r <->
               o_rels st !! k = Some r /\ r_from r <> x /\ r_to r <> x) /\
  (forall a b, edge st' a b -> a <> x /\ b <> x) /\
  wf st'.
Proof.
  intros st x Hwf Hx st'. split; [reflexivity|]. split; [|split].
  - intros k r. apply delete_resource_rels; auto.
  - intros a b (k & r & H & <- & <-). apply delete_resource_rels in H; tauto.
  - apply delete_resource_wf; auto.
Qed.
Print Assumptions C16_delete_cleans_partial.

(* (3') DeleteManyResources (any batch: missing, existing, repeated ids) removes exactly the
   listed resources and exactly the relationships touching one of them. *)
Theorem C16_delete_many_cleans_partial : forall st xs,
  wf st -> Forall good_id xs ->
  let st' := (delete_many_resources st xs).1 in
  (forall j, good_id j -> has st' j <-> has st j /\ j ∉ xs) /\
  (forall k r, o_rels st' !! k = Some r <->
               o_rels st !! k = Some r /\ r_from r ∉ xs /\ r_to r ∉ xs) /\
  wf st'.
Proof.
  intros st xs Hwf Hx st'. destruct (delete_resources_char xs st Hwf Hx) as (H1 & H2 & H3). auto.
Qed.
Print Assumptions C16_delete_many_cleans_partial.

Theorem C16_delete_relationship_exact_partial : forall st f ty t,
  wf st -> good_rel (Rel f ty t) ->
  let st' := (delete_relationship st f ty t).1 in
  o_res st' = o_res st /\
  (forall k r, o_rels st' !! k = Some r <-> o_rels st !! k = Some r /\ r <> Rel f ty t) /\
  wf st'.
Proof.
  intros st f ty t Hwf Hr st'. split; [reflexivity|]. split.
  - intros k r. apply delete_relationship_rels; auto.
  - apply delete_relationship_wf; auto.
Qed.
Print Assumptions C16_delete_relationship_exact_partial.

(* (4) Traversals = graph search over the surviving resources: a query from an existing
   resource through any sequence of parents / children clauses returns exactly the vertices
   connected by that pattern of "parent" edges, all of them existing resources; from a missing
   resource it fails with NotFound. *)
Theorem C16_traversals_partial : forall st x ts,
  wf st -> good_id x ->
  (has st x ->
   exists l, query st x ts = Ok l /\ (forall y, y ∈ l <-> tpath st ts x y) /\ Forall (has st) l) /\
  (~ has st x -> query st x ts = Err ENotFound).
Proof.
  intros st x ts Hwf Hx. split.
  - apply query_ok; auto.
  - apply query_missing; auto.
Qed.
Print Assumptions C16_traversals_partial.

(* descendants = vertices reachable by one or more edges; the recursion never runs out of
   fuel |rels|+1 (the Go recursion terminates), never meets a missing resource. *)
Theorem C16_descendants_partial : forall st x,
  wf st -> good_id x ->
  exists l, descendants fixed st x = Ok l /\
            (forall y, y ∈ l <-> reach st x y) /\ Forall (has st) l.
Proof.
  intros st x Hwf Hx.
  destruct (descendants_ok fixed eq_refl st Hwf x Hx) as (l & E & Hl).
  exists l. split; [auto|split; [auto|]].
  apply Forall_forall. intros y Hy. apply Hl in Hy. exact (proj2 (reach_has _ _ _ Hwf Hy)).
Qed.
Print Assumptions C16_descendants_partial.

(* (5) transactions: writes inside a transaction do not touch the committed graph, abort
   drops them, commit publishes exactly the transaction's view. *)
Theorem C16_transactions : forall c s o st,
  s_tx s = Some st ->
  (o <> Commit -> s_db (step c s o).1 = s_db s) /\
  (step c s Abort).1 = Sys (s_db s) None /\
  (step c s Commit).1 = Sys st None.
Proof.
  intros c s o st E. split; [|split].
  - intros Hne. pose proof (step_data c s o) as Hd.
    destruct o; try (rewrite Hd; unfold set_cur; rewrite E; reflexivity); try congruence.
    + simpl. rewrite E. reflexivity.
    + reflexivity.
  - reflexivity.
  - simpl. rewrite E. reflexivity.
Qed.
Print Assumptions C16_transactions.

(* (6) the graph search of the monitor (Monitors/Mon_C16.v), which is applied to the
   implementation's observed edge lists — cyclic ones included —, is correct: it lists exactly
   the vertices reachable by one or more edges, decides acyclicity and decides whether an edge
   may be added. *)
Theorem C16_monitor_search_correct : forall E,
  (forall a y, y ∈ reachable E a <-> tc (ledge E) a y) /\
  (acyclic_obs E = true <-> forall a, ~ tc (ledge E) a a) /\
  (forall f t, closes_no_cycle E f t = true <-> ~ rtc (ledge E) t f).
Proof.
  intros E. split; [intros; apply reachable_spec|].
  split; [apply acyclic_obs_spec|intros; apply closes_no_cycle_spec].
Qed.
Print Assumptions C16_monitor_search_correct.

(* ---- what the pinned upstream code did (findings F10, F11, repaired in /repo) ---- *)
Definition a1 := Id [97] [49].
Definition a10 := Id [97] [49; 48].
Definition a2 := Id [97] [50].
Definition ab1 := Id [97; 98] [49].
Definition w_ops := [DefRes a1; DefRes a10; DefRes a2; DefRel a10 s_parent a2].

(* F10: the prefix scan without the separator takes a:10's edge for a:1's and refuses the
   legal edge a:2 -> a:1 as cyclic *)
Theorem C16_f10_prefix_refuted :
  (step pinned (run pinned init w_ops) (DefRel a2 s_parent a1)).2 = ECyclic /\
  (step fixed (run fixed init w_ops) (DefRel a2 s_parent a1)).2 = EOk.
Proof. vm_compute. auto. Qed.
Print Assumptions C16_f10_prefix_refuted.

(* F11: a self edge is accepted and the next descendants computation does not terminate *)
Theorem C16_f11_self_edge_refuted :
  let s := (step pinned (run pinned init w_ops) (DefRel a1 s_parent a1)).1 in
  (step pinned (run pinned init w_ops) (DefRel a1 s_parent a1)).2 = EOk /\
  descendants pinned (cur s) a1 = Err EFuel /\
  (step fixed (run fixed init w_ops) (DefRel a1 s_parent a1)).2 = ECyclic.
Proof. vm_compute. auto. Qed.
Print Assumptions C16_f11_self_edge_refuted.

(* ---- identifiers containing "->" (known finding F20): every clause fails ---- *)
(* y = a:"1->ab:1", string form "a:1->ab:1" *)
Definition y_sep := Id [97] [49; 45; 62; 97; 98; 58; 49].
Definition sep_ops := [DefRes a1; DefRes y_sep; DefRes a2; DefRes ab1].

(* DeleteResource(ab:1) also deletes the relationship a:2 -> y, which does not touch ab:1 *)
Theorem C16_sep_overdelete_refuted :
  let s := run fixed init (sep_ops ++ [DefRel a2 s_parent y_sep]) in
  size (o_rels (cur s)) = 1%nat /\
  size (o_rels (cur (step fixed s (DelRes ab1)).1)) = 0%nat.
Proof. vm_compute. auto. Qed.
Print Assumptions C16_sep_overdelete_refuted.

(* the parents traversal of y fails: its incoming key does not parse back *)
Theorem C16_sep_parents_refuted :
  let s := run fixed init (sep_ops ++ [DefRel a2 s_parent y_sep]) in
  query (cur s) y_sep [TParents] = Err EValidation.
Proof. vm_compute. auto. Qed.
Print Assumptions C16_sep_parents_refuted.

(* with y -> a:2 stored, the legal edge a:2 -> a:1 is refused as cyclic *)
Theorem C16_sep_false_cycle_refuted :
  let s := run fixed init (sep_ops ++ [DefRel y_sep s_parent a2]) in
  (step fixed s (DefRel a2 s_parent a1)).2 = ECyclic.
Proof. vm_compute. auto. Qed.
Print Assumptions C16_sep_false_cycle_refuted.

(* with y -> a:1 stored, descendants(a:1) finds a:1 among its own children and diverges *)
Theorem C16_sep_divergence_refuted :
  let s := run fixed init (sep_ops ++ [DefRel y_sep s_parent a1]) in
  descendants fixed (cur s) a1 = Err EFuel.
Proof. vm_compute. auto. Qed.
Print Assumptions C16_sep_divergence_refuted.

(* ---- non-vacuity: a history over colliding good identifiers (a:1, a:10, ab:1, a:2) with a
   diamond, a refused cycle, a transaction and a resource deletion meets every hypothesis ---- *)
Definition ex_ops : list op :=
  [DefRes a1; DefRes a10; DefRes a2; DefRes ab1;
   DefRel a1 s_parent a10; DefRel a1 s_parent ab1; DefRel a10 s_parent a2; DefRel ab1 s_parent a2;
   DefRel a2 s_parent a1;                     (* refused: closes a cycle *)
   Begin; DefMany a10 s_parent [ab1]; DelRes a2; Commit].
Example C16_nonvacuous :
  Forall good_op ex_ops /\
  (step fixed (run fixed init (take 8 ex_ops)) (DefRel a2 s_parent a1)).2 = ECyclic /\
  size (o_rels (s_db (run fixed init (take 9 ex_ops)))) = 4%nat /\
  size (o_rels (s_db (run fixed init ex_ops))) = 3%nat /\
  descendants fixed (s_db (run fixed init (take 9 ex_ops))) a1 = Ok [a2; a10; a2; ab1].
Proof.
  split.
  - apply (bool_decide_unpack _). vm_compute. exact I.
  - vm_compute. auto.
Qed.
