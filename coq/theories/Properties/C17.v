(* Properties/C17.v — placeholder while the proofs are being built. *)
From Synnax Require Import Core.Gorp Core.GorpSpec.
Theorem C17_placeholder : True.
Proof. exact I. Qed.
Print Assumptions C17_placeholder.
