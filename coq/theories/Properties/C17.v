(* Properties/C17.v — Indexed queries equal full scans; uncommitted writes stay private,
   aborts vanish (x/go/gorp). Only statements, each closed by [exact] (or short glue), each
   followed by Print Assumptions.

   Objects: [st]/[step]/[run] (Core/Gorp.v) copy the Go index machinery; [sst]/[sp_step]/[sp_run]
   (Core/GorpSpec.v) are the specification: a table plus one write set per open transaction.
   [op_in_scope] (Core/GorpRefineProofs.v) excludes exactly: the crossed commit [Commit2] (finding
   F22, refuted below), replicated rows stored under a foreign key, and filter-driven writes whose
   MatchKeys leaves repeat a key / whose Update filter has no index leaf (bare-keys NotFound
   contract). The initial state is the one OpenTable produces over arbitrary pre-existing rows
   (bulk populate); [get_skips_repeated_values] is re-read from index.go on every run. *)
From Coq Require Import NArith ZArith List.
From stdpp Require Import gmap.
From Synnax Require Import Core.Gorp Core.GorpSpec Core.GorpListProofs Core.GorpLookupProofs
     Core.GorpSortedProofs Core.GorpDeltaProofs Core.GorpFilterProofs Core.GorpSystemProofs
     Core.GorpRefineProofs Core.GorpOrderedProofs Core.GorpPropsProofs Generated.Consts_C17.
Import ListNotations.
Local Open Scope Z_scope.

(* (1) LookupIndex: over every sequence of committed-state mutations, a key is in the bucket of v
   exactly when the reverse map sends it to v, buckets are duplicate-free, none is empty. *)
Theorem C17_lookup_invariant : forall ms,
  let l := fold_left l_apply ms l_empty in
  l_wf l /\ l_rev l = fold_left rev_apply ms ∅ /\
  forall v k, k ∈ l_get1 v l <-> l_rev l !! k = Some v.
Proof.
  intros ms l. pose proof (l_history_wf ms l_empty l_wf_empty) as H. split; [done|].
  split; [apply l_history_rev|]. intros v k. by apply l_get1_spec.
Qed.
Print Assumptions C17_lookup_invariant.

(* (2) SortedIndex: sort.Search returns the least index of a monotone predicate; over every
   sequence of mutations the slice stays sorted by value, keys unique, in step with the reverse
   map; Get answers exactly the keys of a value. *)
Theorem C17_binary_search : forall (f : nat -> bool) n,
  (forall x y, (x <= y < n)%nat -> f x = true -> f y = true) ->
  (search n f <= n)%nat /\ (forall x, (x < search n f)%nat -> f x = false) /\
  (forall x, (search n f <= x < n)%nat -> f x = true).
Proof. exact search_spec. Qed.
Print Assumptions C17_binary_search.

Theorem C17_sorted_invariant : forall ms,
  let x := fold_left s_apply ms s_empty in
  s_wf x /\ forall v k, k ∈ s_get1 v x <-> s_rev x !! k = Some v.
Proof.
  intros ms x. pose proof (s_history_wf ms s_empty s_wf_empty) as H. split; [done|].
  intros v k. by apply s_get1_spec.
Qed.
Print Assumptions C17_sorted_invariant.

(* (3) delta merge: a key staged in the transaction's delta is decided by the delta alone (live
   with a listed value: in; deleted or moved to an unlisted value: out); any other key by the
   committed answer; no duplicates. *)
Theorem C17_merge_spec : forall committed vs d k,
  d_wf d ->
  (k ∈ d_merge committed vs d <->
   match d_state d !! k with
   | None => k ∈ committed
   | Some None => False
   | Some (Some v) => v ∈ vs
   end) /\ (NoDup committed -> NoDup (d_merge committed vs d)).
Proof. intros. split; [by apply d_merge_spec|apply d_merge_nodup]. Qed.
Print Assumptions C17_merge_spec.

(* (4) filter machinery alone: for ANY index answers that are complete for the reader's view,
   every filter tree executed through And/Or/Not/materialize/intersect/union/execKeys returns
   exactly the rows the scan with the denotation returns. *)
Theorem C17_filter_exec_eq_scan : forall env (v : table) f,
  key_ok v -> env_ok env v ->
  (forall r, r ∈ q_rows (exec_query env v (build f)) <-> r ∈ List.filter (holds f) (sorted_rows v)) /\
  (env_nodup env -> nodup_keys f = true ->
   q_rows (exec_query env v (build f)) ≡ₚ List.filter (holds f) (sorted_rows v)).
Proof. intros. split; [intros r; by apply exec_query_rows|by apply exec_query_perm]. Qed.
Print Assumptions C17_filter_exec_eq_scan.

(* (5) the system invariant holds after OpenTable over any pre-existing rows and after every
   history in scope: committed indexes are a function of the committed table, every delta mirrors
   its transaction's write set. *)
Theorem C17_invariant_all_histories : forall m1 seed ops,
  Forall op_in_scope ops -> coh (run (init m1 get_skips_repeated_values seed) ops).
Proof. intros m1 seed ops H. by apply reach_coh. Qed.
Print Assumptions C17_invariant_all_histories.

(* (6) THE PROPERTY, first sentence: in every reachable state, for every reader (the DB or any
   transaction, with whatever pending writes) and every filter tree, the indexed execution
   returns exactly the rows of the full scan with the equivalent predicate; each once, with equal
   Count, when no MatchKeys leaf repeats a key; an index-leaf query never fails and Exists agrees. *)
Theorem C17_index_eq_scan : forall m1 seed ops t f,
  Forall op_in_scope ops ->
  let s := run (init m1 get_skips_repeated_values seed) ops in
  (forall r, r ∈ q_rows (run_query s t (build f)) <-> r ∈ q_rows (run_query s t (mk_pred (holds f)))) /\
  (nodup_keys f = true ->
   q_rows (run_query s t (build f)) ≡ₚ q_rows (run_query s t (mk_pred (holds f))) /\
   q_cnt (run_query s t (build f)) = q_cnt (run_query s t (mk_pred (holds f)))) /\
  (has_idx f = true ->
   q_err (run_query s t (build f)) = 0%N /\
   q_ex (run_query s t (build f)) = negb (Nat.eqb (length (q_rows (run_query s t (build f)))) 0)).
Proof. exact index_eq_scan. Qed.
Print Assumptions C17_index_eq_scan.

(* (6') the exact observable the correspondence compares: the indexed answer sorted by key is,
   as a list, the answer of the full scan. *)
Theorem C17_index_eq_scan_sorted : forall m1 seed ops t f,
  Forall op_in_scope ops -> nodup_keys f = true ->
  let s := run (init m1 get_skips_repeated_values seed) ops in
  sort_rows (q_rows (run_query s t (build f))) = q_rows (run_query s t (mk_pred (holds f))).
Proof. exact index_eq_scan_sorted. Qed.
Print Assumptions C17_index_eq_scan_sorted.

(* (7) ordered cursor pagination (readers without pending writes): the unlimited walk is a
   permutation of the scan with the cursor predicate, ordered by the indexed value in the walk
   direction; a page is its first [limit] rows; a Where filter post-filters the page. *)
Theorem C17_ordered_pagination : forall m1 seed ops t desc cursor limit fo,
  Forall op_in_scope ops ->
  let s := run (init m1 get_skips_repeated_values seed) ops in
  view s t = rows s ->
  full_walk s desc cursor ≡ₚ sp_select (abs s) t (ord_holds desc cursor None) /\
  lsorted (dir_rows_leb desc) (full_walk s desc cursor) /\
  exec_ordered (renv_of s t) (view s t) (si s) desc cursor limit (option_map build fo) =
  List.filter (fun r => match fo with Some f => holds f r | None => true end)
              (lim_take limit (full_walk s desc cursor)).
Proof.
  intros m1 seed ops t desc cursor limit fo Ho s Hv.
  destruct (reach_coh m1 seed ops Ho) as [Hc _].
  split; [by apply full_walk_perm|]. split; [by apply full_walk_sorted|by apply page_spec].
Qed.
Print Assumptions C17_ordered_pagination.

(* (8) refinement: the abstraction of the model state (forget indexes and deltas) follows the
   specification step by step; so every answer is the specification's answer over the reader's
   own view = committed table overlaid with the reader's own write set. *)
Theorem C17_refines_spec : forall m1 seed ops t f,
  Forall op_in_scope ops ->
  let s := run (init m1 get_skips_repeated_values seed) ops in
  let sp := sp_run (sp_init seed) ops in
  abs s = sp /\
  (forall r, r ∈ q_rows (run_query s t (build f)) <-> r ∈ sp_select sp t (holds f)) /\
  (nodup_keys f = true -> q_rows (run_query s t (build f)) ≡ₚ sp_select sp t (holds f)).
Proof.
  intros m1 seed ops t f Ho s sp. destruct (reach_coh m1 seed ops Ho) as [_ Ha].
  split; [exact Ha|]. by apply answers_spec.
Qed.
Print Assumptions C17_refines_spec.

(* (9) isolation: a reader's answers depend on the committed table and its own write set only;
   its own uncommitted write is visible to it and to no other reader. *)
Theorem C17_isolation : forall sp sp' t u k w p,
  (sp_rows sp = sp_rows sp' -> sp_txs sp !! t = sp_txs sp' !! t -> sp_select sp t p = sp_select sp' t p) /\
  sp_view (sp_write (S t) k w sp) (S t) !! k = w /\
  (u ≠ S t -> sp_view (sp_write (S t) k w sp) u = sp_view sp u).
Proof.
  intros. split; [apply isolation_frame|]. split; [apply own_write_visible|apply others_write_invisible].
Qed.
Print Assumptions C17_isolation.

(* (10) commit visibility: after commit every other reader sees the committed writes (unless it
   has itself overwritten the key in its own open transaction). *)
Theorem C17_commit_visible : forall sp t u k,
  u ≠ S t ->
  sp_view (sp_commit (S t) sp) u !! k =
  match (match u with O => None | _ => default ∅ (sp_txs sp !! u) !! k end) with
  | Some own => own
  | None => match default ∅ (sp_txs sp !! S t) !! k with
            | Some w => w
            | None => sp_rows sp !! k
            end
  end.
Proof. exact commit_visible. Qed.
Print Assumptions C17_commit_visible.

(* (11) abort: nobody sees the aborted writes; in the index machinery the committed table, both
   committed indexes and every other transaction's batch and deltas are exactly what they were
   before the transaction's first operation, and no delta or batch of it remains. *)
Theorem C17_abort_vanishes : forall t ops s sp u,
  Forall (by_tx (S t)) ops ->
  (let s' := abort (S t) (run s ops) in
   committed_part s' = committed_part s /\ (lov s', sov s', txs s') = others (S t) s /\
   lov s' !! S t = None /\ sov s' !! S t = None /\ txs s' !! S t = None) /\
  sp_rows (sp_step sp (Abort (S t))) = sp_rows sp /\
  (u ≠ S t -> sp_view (sp_step sp (Abort (S t))) u = sp_view sp u) /\
  sp_view (sp_step sp (Abort (S t))) (S t) = sp_rows sp.
Proof. intros t ops s sp u Ho. split; [by apply abort_leaves_nothing|apply abort_invisible]. Qed.
Print Assumptions C17_abort_vanishes.

(* (12) no residue: in every reachable state the committed indexes hold exactly the committed rows
   (nothing for deleted, uncommitted or aborted rows, no empty bucket) and every live delta
   belongs to an open transaction. *)
Theorem C17_no_residue : forall m1 seed ops,
  Forall op_in_scope ops ->
  let s := run (init m1 get_skips_repeated_values seed) ops in
  (forall k v, k ∈ l_get1 v (li s) <-> exists r, rows s !! k = Some r /\ ra r = v) /\
  (forall v, l_fwd (li s) !! v ≠ Some []) /\
  (forall k, l_rev (li s) !! k = ra <$> rows s !! k) /\
  (forall k v, (v, k) ∈ s_ents (si s) <-> exists r, rows s !! k = Some r /\ rb r = v) /\
  (forall k, s_rev (si s) !! k = rb <$> rows s !! k) /\
  (forall t, is_Some (lov s !! t) \/ is_Some (sov s !! t) -> is_Some (txs s !! t)).
Proof. intros m1 seed ops Ho s. apply no_residue. by apply reach_coh. Qed.
Print Assumptions C17_no_residue.

(* (13) populate equivalence: re-opening the table (bulk populate) yields indexes that answer as
   the incrementally maintained ones. *)
Theorem C17_populate_eq : forall m1 seed ops,
  Forall op_in_scope ops ->
  let s := run (init m1 get_skips_repeated_values seed) ops in
  (forall v k, k ∈ l_get1 v (l_populate (rows s)) <-> k ∈ l_get1 v (li s)) /\
  (forall v k, k ∈ s_get1 v (s_populate (rows s)) <-> k ∈ s_get1 v (si s)) /\
  (forall desc cursor, map snd (walk_full desc cursor (s_ents (s_populate (rows s)))) ≡ₚ
                       map snd (walk_full desc cursor (s_ents (si s)))).
Proof. intros m1 seed ops Ho s. apply populate_eq. by apply reach_coh. Qed.
Print Assumptions C17_populate_eq.

(* F21 (fixed in /repo, 98c2e16): with the pinned upstream Get a value listed twice is answered
   twice — Count 2 against the scan's 1. The model's [dedup = false] keeps the old code. *)
Theorem C17_repeated_value_refuted :
  let s := init false false f21_seed in
  q_cnt (run_query s O (build f21_filter)) = 2%nat /\
  q_cnt (run_query s O (mk_pred (holds f21_filter))) = 1%nat.
Proof. exact dup_values_refuted. Qed.
Print Assumptions C17_repeated_value_refuted.

(* F22 (known finding): when U commits entirely between T's kv commit and T's index flush and
   both wrote key 1, the table keeps U's row, the index keeps T's value: the indexed query for
   U's value is empty, the scan finds the row. Hence the guard [op_in_scope] (no Commit2) in
   (5)-(8), (12), (13) — these are the [_partial] statements of the property over schedules. *)
Theorem C17_crossed_commit_refuted :
  let s := run (init false true f22_seed) f22_ops in
  q_rows (run_query s O (build (FIdx IA [3]))) = [] /\
  q_rows (run_query s O (mk_pred (holds (FIdx IA [3])))) = [Row 1 3 3 0] /\
  l_rev (li s) !! 1%N = Some 2 /\ (ra <$> rows s !! 1%N) = Some 3.
Proof. exact crossed_commit_refuted. Qed.
Print Assumptions C17_crossed_commit_refuted.

(* Non-vacuity: an in-scope history over pre-existing rows with two interleaved transactions
   (one commits, one aborts), colliding and changing indexed values, a replicated write and a
   re-open; the hypotheses of (6)/(8) hold and the answers differ between readers. *)
Definition ex_seed : list row := [Row 1 1 3 0; Row 2 1 3 1; Row 3 2 0 2].
Definition ex_ops : list op :=
  [Begin 1; Begin 2;
   UpdateK 1 2 (Some 2) (Some 5) None; Create 2 [Row 4 1 1 0]; DeleteK 2 [1%N];
   Repl [(5%N, Some (Row 5 1 4 1))];
   Commit 1; Reopen].
Definition ex_f : ftree := FAnd [FIdx IA [1; 2]; FNot (FIdx IB [0])].
Example C17_nonvacuous :
  Forall op_in_scope (firstn 7 ex_ops) /\
  (let s := run (init false true ex_seed) (firstn 6 ex_ops) in
   map rk (sort_rows (q_rows (run_query s 0 (build ex_f)))) = [1; 2; 5]%N /\
   map rk (sort_rows (q_rows (run_query s 1 (build ex_f)))) = [1; 2; 5]%N /\
   map rb (sort_rows (q_rows (run_query s 1 (build ex_f)))) = [3; 5; 4] /\
   map rk (sort_rows (q_rows (run_query s 2 (build ex_f)))) = [2; 4; 5]%N) /\
  (let s := run (init false true ex_seed) ex_ops in
   map rk (sort_rows (q_rows (run_query s 0 (build ex_f)))) = [1; 2; 5]%N /\
   map rb (sort_rows (q_rows (run_query s 0 (build ex_f)))) = [3; 5; 4]).
Proof.
  split; [|vm_compute; auto].
  repeat constructor; simpl; auto.
  intros k r H. apply elem_of_list_singleton in H. by injection H as -> ->.
Qed.
