(* Properties/C03.v — placeholder while the proofs are being built. *)
From Coq Require Import ZArith List.
From Synnax Require Import Common.Telem Cesium.Domain.
Theorem C03_placeholder : d_ptrs (init 1 1) = nil.
Proof. reflexivity. Qed.
Print Assumptions C03_placeholder.
