(* Properties/C03.v — Cesium never stores overlapping data; conflicting writes fail cleanly.
   Only statements, each closed by [exact]/short glue, each followed by Print Assumptions.

   Model: Cesium/Domain.v (a faithful copy of cesium/internal/domain index / writer /
   delete / iterator and the writer pool), interval algebra: Common/Telem.v.
   Histories: any list of Open / Write / Commit / Close / Delete over any number of
   concurrently open writers on one channel, with any file-choice oracle values.
   [legal_run] only asks that every stamp is a non-negative int64 and that no data file
   reaches 2^32 bytes (pointer offsets and sizes are uint32 in the Go code). *)
From stdpp Require Import gmap.
From Coq Require Import ZArith NArith List Bool Lia.
From Synnax Require Import Common.Telem Common.TelemProofs
  Cesium.Domain Cesium.DomainProofs Cesium.DomainInv Monitors.Mon_C03 Monitors.Mon_C03_Sound.
From Synnax Require Common.Telem Common.TelemSrc.
Import ListNotations.
Local Open Scope Z_scope.

(* (1) The invariant holds in every reachable state, for every history. *)
Theorem C03_inv_reachable : forall nominal cap ops,
  legal_run (init nominal cap) ops -> Inv (run (init nominal cap) ops).
Proof. intros. apply run_inv; [apply Inv_init|assumption]. Qed.
Print Assumptions C03_inv_reachable.

Theorem C03_inv_every_state : forall nominal cap ops,
  legal_run (init nominal cap) ops ->
  Forall (fun sr => Inv (fst sr)) (trace (init nominal cap) ops).
Proof. intros. apply trace_inv; [apply Inv_init|assumption]. Qed.
Print Assumptions C03_inv_every_state.

(* What the invariant says, spelled out: the committed ranges are time-ordered and pairwise
   non-overlapping (earlier position ends at or before the later one starts), non-empty,
   and every pointer's bytes lie within its file. *)
Theorem C03_no_overlap_within_files : forall nominal cap ops,
  legal_run (init nominal cap) ops ->
  let st := run (init nominal cap) ops in
  (forall i j p q, getp (d_ptrs st) i = Some p -> getp (d_ptrs st) j = Some q -> i < j ->
                   p_end p <= p_start q) /\
  (forall p, In p (d_ptrs st) ->
     0 <= p_start p < p_end p /\ p_end p <= ts_max /\
     exists f, get_file (d_files st) (p_file p) = Some f /\
               (p_off p + p_size p <= f_size f)%N /\ (0 < p_size p)%N).
Proof.
  intros nominal cap ops Hl st. destruct (C03_inv_reachable nominal cap ops Hl) as (Hok & Hpf & _).
  fold st in Hok, Hpf. split.
  - intros i j p q Hi Hj Hlt. exact (idx_ok_lookup_lt _ Hok i j p q Hi Hj Hlt).
  - intros p Hp. destruct Hok as [_ Hwf]. rewrite Forall_forall in Hwf, Hpf.
    destruct (Hwf p Hp) as [[[H0 _] [_ H1]] Hlt]. unfold p_start, p_end, ts_min in *.
    split; [split; assumption|]. split; [assumption|]. exact (Hpf p Hp).
Qed.
Print Assumptions C03_no_overlap_within_files.

(* (2) A failed operation (any error class) leaves the whole database state as it was: the
   index, and therefore everything that can be read, is unchanged.  ([nested_free] only
   excludes a DeleteC that carries writer operations inside its resolvers — for that one
   see C03_delete_during_commits_fail_atomic.) *)
Theorem C03_fail_atomic : forall st o st' r,
  nested_free o -> step st o = (st', r) -> r <> ROk ->
  st' = st /\ d_ptrs st' = d_ptrs st /\ readable st' = readable st.
Proof.
  intros st o st' r Hn Hs Hr. pose proof (step_fail_unchanged st o st' r Hn Hs Hr) as ->. auto.
Qed.
Print Assumptions C03_fail_atomic.

(* A delete during which other writers commit and which then fails leaves the database
   exactly as the last of those writer operations left it. *)
Theorem C03_delete_during_commits_fail_atomic : forall st a b sops eops,
  let '(st', r, nested) := delete_c st a b sops eops in
  r <> ROk -> st' = last (map fst nested) st.
Proof. exact delete_c_fail. Qed.
Print Assumptions C03_delete_during_commits_fail_atomic.

(* (1') Commits that land while DB.Delete runs its offset resolvers (the index is unlocked
   then): the invariant holds after every nested writer operation and after the delete,
   whatever positions the commits shifted — the re-resolution ("repêchage") of BOTH the
   start and the end position finds the captured domains again.  [legal] asks that the
   nested operations are legal and leave the two captured domains untouched. *)
Theorem C03_delete_during_commits_inv : forall st a b sops eops,
  Inv st -> legal st (DeleteC a b sops eops) ->
  Inv (fst (step st (DeleteC a b sops eops))) /\
  Forall (fun sr => Inv (fst sr)) (step_nested st (DeleteC a b sops eops)).
Proof.
  intros st a b sops eops HI Hl. split; [apply step_inv; assumption|apply step_nested_inv; assumption].
Qed.
Print Assumptions C03_delete_during_commits_inv.

Theorem C03_repechage_finds : forall ps sd ed s e,
  idx_ok ps -> In s ps -> In e ps ->
  getp ps (repechage_start ps sd s) = Some s /\ getp ps (repechage_end ps ed e) = Some e.
Proof.
  intros. split; [apply repechage_start_finds|apply repechage_end_finds]; assumption.
Qed.
Print Assumptions C03_repechage_finds.

(* The side condition of [legal] for a DeleteC holds whenever no nested commit is an update
   of one of the two captured domains — e.g. the concurrent writers are fresh or work on
   other domains, which is all the control gate of unary.DB.delete lets through. *)
Theorem C03_delete_during_commits_legal : forall st a b sops eops,
  Inv st -> ts_in_range a -> ts_in_range b ->
  (forall sd s so a', delete_start lin_resolver (d_ptrs st) a = inl (Some (sd, s, so, a')) ->
     let called1 := snd (usearch (d_ptrs st) (ts_span_range a 0)) in
     let st1 := if called1 then wrun st sops else st in
     (called1 = true -> wlegal_run st sops /\ no_update_run st sops s) /\
     forall ed e eo b', delete_end lin_resolver (d_ptrs st1) b = inl (Some (ed, e, eo, b')) ->
       let called2 := snd (usearch (d_ptrs st1) (ts_span_range b 0)) in
       (called2 = true -> wlegal_run st1 eops /\ no_update_run st1 eops s /\ no_update_run st1 eops e)) ->
  legal st (DeleteC a b sops eops).
Proof.
  intros st a b sops eops HI Ha Hb H. split; [split; assumption|].
  apply delc_legal_intro; assumption.
Qed.
Print Assumptions C03_delete_during_commits_legal.

(* The invariant clause of the monitor (ordering, non-overlap, within files, everything
   readable) accepts every state of every legal history of the model, including the states
   between the writer operations nested in a delete: it raises no alarm that the theorems
   exclude. *)
Theorem C03_monitor_invariant_sound : forall nominal cap ops,
  legal_run (init nominal cap) ops ->
  Forall (fun sr => inv_ok (m_obs (fst sr)) = true) (trace (init nominal cap) ops).
Proof.
  intros nominal cap ops Hl. eapply Forall_impl; [|apply C03_inv_every_state; eassumption].
  intros sr H. apply inv_ok_sound. exact H.
Qed.
Print Assumptions C03_monitor_invariant_sound.

Theorem C03_monitor_invariant_sound_nested : forall st o,
  Inv st -> legal st o -> Forall (fun sr => inv_ok (m_obs (fst sr)) = true) (step_nested st o).
Proof.
  intros st o HI Hl. eapply Forall_impl; [|apply step_nested_inv; eassumption].
  intros sr H. apply inv_ok_sound. exact H.
Qed.
Print Assumptions C03_monitor_invariant_sound_nested.

(* With no writer acting inside the resolvers, DeleteC is Delete. *)
Theorem C03_delete_c_nil : forall st a b, fst (delete_c st a b [] []) = step st (Delete a b).
Proof. exact delete_c_nil. Qed.
Print Assumptions C03_delete_c_nil.

(* Opening a writer, writing uncommitted bytes and closing never change committed data. *)
Theorem C03_uncommitted_ops_invisible : forall st o,
  Inv st -> match o with Open _ _ _ _ | Write _ _ | Close _ => True | _ => False end ->
  d_ptrs (fst (step st o)) = d_ptrs st /\ readable (fst (step st o)) = readable st.
Proof. exact noncommit_preserves_readable. Qed.
Print Assumptions C03_uncommitted_ops_invisible.

(* A restart (all writers closed, DB closed and opened again on the same files) keeps the
   invariant and every committed domain with its bytes; no writer survives it.  (That the
   index FILE equals the in-memory index at that point is the persistence protocol, C02;
   here it is tied to the code by the correspondence check, which reopens the real
   database and compares the loaded index.) *)
Theorem C03_reopen : forall st, Inv st ->
  Inv (fst (step st Reopen)) /\ d_ptrs (fst (step st Reopen)) = d_ptrs st /\
  readable (fst (step st Reopen)) = readable st /\
  map_Forall (fun _ wr => w_closed wr = true) (d_writers (fst (step st Reopen))).
Proof. exact reopen_spec. Qed.
Print Assumptions C03_reopen.

(* Everything committed is readable: the iterator over TimeRangeMax enumerates every
   pointer of the index, in order. *)
Theorem C03_committed_is_readable : forall st, Inv st ->
  readable st = map (fun p => (p_tr p, p_size p, content (d_files st) p)) (d_ptrs st).
Proof. exact DomainInv.readable_all. Qed.
Print Assumptions C03_committed_is_readable.

(* (3) A writer whose start lies inside existing data fails to open (write-conflict
   validation error, or the configuration error for an inverted preset end); nothing
   changes. *)
Theorem C03_open_inside_fails : forall st w s e k p,
  Inv st -> ts_in_range s -> ts_in_range e -> d_writers st !! w = None ->
  In p (d_ptrs st) -> contains_stamp (p_tr p) s = true ->
  step st (Open w s e k) = (st, RErr (if cfg_validate s e then EConflict else EOther)).
Proof. exact open_inside_fails. Qed.
Print Assumptions C03_open_inside_fails.

(* (4) A commit whose range [Start, commitEnd) overlaps a domain other than the writer's own
   one fails with a validation-class error and changes nothing.  The hypotheses name the
   live writer with pending bytes and the commit end that resolveCommitEnd yields; the own
   pointer is the one a previous commit of this writer stored (C03_own_pointer_present
   shows it is there in every history whose deletes respect the control gate). *)
Theorem C03_commit_overlap_fails : forall st w wr f e k ce sw q,
  d_writers st !! w = Some wr -> w_closed wr = false ->
  w_preset wr && (w_end wr <? e) = false ->
  get_file (d_files st) (w_file wr) = Some f -> f_len f <> 0%N ->
  resolve_commit_end (d_cap st) wr e = (ce, sw) ->
  Inv st -> ts_in_range e ->
  (w_prev wr <> 0 -> exists i own, getp (d_ptrs st) i = Some own /\ p_start own = w_start wr) ->
  In q (d_ptrs st) -> (w_prev wr <> 0 -> p_start q <> w_start wr) ->
  overlaps_math (p_tr q) (mkTR (w_start wr) ce) ->
  exists err, commit st w e k = (st, RErr err) /\ is_validation (RErr err) = true.
Proof. intros. eapply commit_overlap_fails; eauto. Qed.
Print Assumptions C03_commit_overlap_fails.

(* In every history whose deletes stay at or before the start of every open writer (what
   the control gate of unary.DB.delete enforces: [gated_run]), a live writer that has
   committed finds its own pointer in the index ... *)
Theorem C03_own_pointer_present : forall nominal cap ops w wr,
  legal_run (init nominal cap) ops -> gated_run (init nominal cap) ops ->
  let st := run (init nominal cap) ops in
  d_writers st !! w = Some wr -> w_closed wr = false -> w_prev wr <> 0 ->
  exists i own, getp (d_ptrs st) i = Some own /\ p_start own = w_start wr.
Proof.
  intros nominal cap ops w wr Hl Hg st Hw Hc Hp.
  apply (coh_own st w wr); try assumption.
  apply run_coh; [apply Inv_init|apply Coh_init|assumption|assumption].
Qed.
Print Assumptions C03_own_pointer_present.

(* ... hence a commit in such a history fails only with a declared error class: index.update
   never reaches its out-of-range index (a panic holding the index lock) nor its
   "range not found" branches. *)
Theorem C03_commit_fails_cleanly : forall nominal cap ops w e k,
  legal_run (init nominal cap) ops -> gated_run (init nominal cap) ops -> ts_in_range e ->
  let st := run (init nominal cap) ops in
  snd (commit st w e k) <> RErr EPanic /\ snd (commit st w e k) <> RErr ENotFound.
Proof.
  intros nominal cap ops w e k Hl Hg He st. apply commit_clean; [| |assumption].
  - apply run_inv; [apply Inv_init|assumption].
  - apply run_coh; [apply Inv_init|apply Coh_init|assumption|assumption].
Qed.
Print Assumptions C03_commit_fails_cleanly.

(* Without the gate the faithful model does reach them: deleting an open writer's own
   domain makes its next commit panic in index.update (ptrs[-1]) — the reason the gate
   exists; the domain package alone does not protect itself. *)
Theorem C03_ungated_delete_panics_refuted :
  exists ops, legal_run (init 8 10) ops /\
    snd (step (run (init 8 10) ops) (Commit 1 25 0)) = RErr EPanic.
Proof.
  exists [Open 1 10 0 0; Write 1 [1]%N; Commit 1 20 0; Open 2 30 0 0; Write 2 [2]%N; Commit 2 40 0;
          Delete 10 20; Write 1 [3]%N].
  split; [apply legal_runb_sound; vm_compute; reflexivity|vm_compute; reflexivity].
Qed.
Print Assumptions C03_ungated_delete_panics_refuted.

(* A commit that moves backwards fails with a validation error.  The guard [sw && preset =
   false] is the documented design exception: a writer with a preset end commits that
   preset end, except on a file switch where it commits the given stamp. *)
Theorem C03_commit_backwards_fails : forall st w wr f e k ce sw,
  d_writers st !! w = Some wr -> w_closed wr = false ->
  w_preset wr && (w_end wr <? e) = false ->
  get_file (d_files st) (w_file wr) = Some f -> f_len f <> 0%N ->
  resolve_commit_end (d_cap st) wr e = (ce, sw) ->
  w_prev wr <> 0 -> sw && w_preset wr = false -> ce < w_prev wr ->
  commit st w e k = (st, RErr EValidation).
Proof. exact commit_backwards_fails. Qed.
Print Assumptions C03_commit_backwards_fails.

Theorem C03_commit_not_after_start_fails : forall st w wr f e k ce sw,
  d_writers st !! w = Some wr -> w_closed wr = false ->
  w_preset wr && (w_end wr <? e) = false ->
  get_file (d_files st) (w_file wr) = Some f -> f_len f <> 0%N ->
  resolve_commit_end (d_cap st) wr e = (ce, sw) ->
  ce <= w_start wr ->
  commit st w e k = (st, RErr EValidation).
Proof. exact commit_not_after_start_fails. Qed.
Print Assumptions C03_commit_not_after_start_fails.

(* (5) The binary search used for conflict detection, on a well-formed index and an ordered
   query: it reports an overlapping position if there is one, otherwise the predecessor
   position (-1 before all, len-1 after all), with everything at or left of it ending at
   or before the query start and everything right of it starting at or after the query
   end. *)
Theorem C03_search_spec : forall ps tr,
  idx_ok ps -> tr_in_range tr -> tr_start tr <= tr_end tr ->
  match usearch ps tr with
  | (i, true) => exists p, getp ps i = Some p /\ overlaps_with (p_tr p) tr = true
  | (i, false) =>
      -1 <= i < zlen ps /\
      (forall j p, getp ps j = Some p -> j <= i -> p_end p <= tr_start tr) /\
      (forall j p, getp ps j = Some p -> i < j -> tr_start tr < p_start p /\ tr_end tr <= p_start p)
  end.
Proof. exact usearch_spec. Qed.
Print Assumptions C03_search_spec.

Theorem C03_search_complete : forall ps tr q,
  idx_ok ps -> tr_in_range tr -> tr_start tr <= tr_end tr ->
  In q ps -> overlaps_with (p_tr q) tr = true -> snd (usearch ps tr) = true.
Proof. exact usearch_finds. Qed.
Print Assumptions C03_search_complete.

(* insert (with its append / prepend fast paths) either splices the pointer in at one
   position of a still well-formed index, or — whenever it overlaps anything — refuses. *)
Theorem C03_insert_spec : forall ps p,
  idx_ok ps -> ptr_wf p ->
  (forall ps', insert ps p = inl ps' ->
     idx_ok ps' /\ exists n, ps' = firstn n ps ++ p :: skipn n ps) /\
  (forall q, (p_file p <> 0)%N -> In q ps -> overlaps_math (p_tr q) (p_tr p) ->
     insert ps p = inr EConflict).
Proof.
  intros ps p Hok Hwf. split.
  - intros ps' H. exact (insert_ok ps p ps' Hok Hwf H).
  - intros q Hf Hq Hov. exact (insert_conflict ps p q Hok Hwf Hf Hq Hov).
Qed.
Print Assumptions C03_insert_spec.

(* OverlapsWith on ordered representable ranges is the mathematical half-open overlap test
   (equal starts, or each starts before the other ends). *)
Theorem C03_overlaps_with_spec : forall a b,
  tr_in_range a -> tr_in_range b -> tr_start a <= tr_end a -> tr_start b <= tr_end b ->
  (overlaps_with a b = true <->
   tr_start a = tr_start b \/ (tr_start a < tr_end b /\ tr_start b < tr_end a)).
Proof. exact overlaps_with_spec. Qed.
Print Assumptions C03_overlaps_with_spec.

(* The range hypothesis [tr_in_range] (stamps in [TimeStampMin, TimeStampMax] = [0, 2^63-1])
   is needed: TimeRange.Span is an int64 subtraction, so a range reaching below zero with a
   span of 2^63 or more is taken for inverted and OverlapsWith misses a genuine overlap.
   (x/go/telem agrees with the model on this input: the function-level differential test of
   the check covers the int64 extremes.) *)
Theorem C03_range_hypothesis_needed_refuted :
  exists a b, tr_start a <= tr_end a /\ tr_start b <= tr_end b /\
    (tr_start a < tr_end b /\ tr_start b < tr_end a) /\ overlaps_with a b = false.
Proof.
  exists (mkTR 0 5), (mkTR (- 2 ^ 62 - 1) (2 ^ 62 + 1)).
  split; [simpl; lia|]. split; [simpl; lia|]. split; [simpl; lia|]. vm_compute. reflexivity.
Qed.
Print Assumptions C03_range_hypothesis_needed_refuted.

(* The two defects this check found in the pinned upstream tree (both repaired by fix:
   commits in /repo; the model copies the repaired code): *)
(* F18 — validateCommitRange skipped the backwards test on every file switch. *)
Theorem C03_upstream_backwards_refuted :
  exists wr e, w_prev wr <> 0 /\ e < w_prev wr /\ w_preset wr = false /\
    validate_commit_range_upstream wr e true = true /\ validate_commit_range wr e true = false.
Proof. exact upstream_backwards_refuted. Qed.
Print Assumptions C03_upstream_backwards_refuted.

(* F19 — WriterConfig.Validate returned nil: an inverted preset end opened a writer at the
   start of existing data. *)
Theorem C03_upstream_inverted_end_refuted :
  exists p s e, contains_stamp (p_tr p) s = true /\ cfg_validate_upstream s e = true /\
    idx_overlap [p] (cfg_domain s e) = false /\ cfg_validate s e = false.
Proof. exact upstream_inverted_end_refuted. Qed.
Print Assumptions C03_upstream_inverted_end_refuted.

(* Non-vacuity for the concurrent form: three domains, a delete [15,55) spanning all of
   them, and a commit of [1,5) by another writer while the END offset is being resolved
   (both captured positions go stale).  The history is legal, both positions are
   re-resolved, the result is ordered. *)
Definition ex_ops_c : list op :=
  [ Open 1 10 20 0; Write 1 [1;2;3;4;5;6;7;8;9;10]%N; Commit 1 20 0; Close 1;
    Open 2 30 40 0; Write 2 [1;2;3;4;5;6;7;8;9;10]%N; Commit 2 40 0; Close 2;
    Open 3 50 60 0; Write 3 [1;2;3;4;5;6;7;8;9;10]%N; Commit 3 60 0; Close 3;
    DeleteC 15 55 [] [WOpen 4 1 5 0; WWrite 4 [1;2;3;4]%N; WCommit 4 5 0; WClose 4] ]%Z.
Example C03_nonvacuous_concurrent :
  legal_run (init 800 1000) ex_ops_c /\
  map (fun p => (p_start p, p_end p, p_size p)) (d_ptrs (run (init 800 1000) ex_ops_c)) =
    [(1, 5, 4%N); (10, 15, 5%N); (55, 60, 5%N)].
Proof.
  split; [apply legal_runb_sound; vm_compute; reflexivity|vm_compute; reflexivity].
Qed.

(* Non-vacuity: a legal history with three writers, a file switch, adjacency, a refused
   open inside data, a refused overlapping commit, a refused backwards commit and a
   splitting delete; it ends with four domains. *)
Definition ex_ops : list op :=
  [ Open 1 10 0 0; Write 1 [1;2;3;4;5]%N; Commit 1 20 0;          (* [10,20) *)
    Open 2 15 0 0;                                                  (* refused: inside *)
    Open 2 30 0 0; Write 2 [6;7]%N; Commit 2 40 0;                 (* [30,40) *)
    Open 3 20 0 0; Write 3 [8;9;10]%N; Commit 3 35 0;              (* refused: overlaps [30,40) *)
    Commit 3 30 0;                                                  (* [20,30) adjacent both sides *)
    Commit 1 15 0;                                                  (* refused: backwards *)
    Write 2 [11;12;13;14;15;16;17;18;19]%N; Commit 2 50 0;          (* file switch at cap 10 *)
    Delete 12 14 ]%Z.
Example C03_nonvacuous :
  legal_run (init 8 10) ex_ops /\
  map snd (trace (init 8 10) ex_ops) =
    [ROk; ROk; ROk; RErr EConflict; ROk; ROk; ROk; ROk; ROk; RErr EConflict; ROk;
     RErr EValidation; ROk; ROk; ROk] /\
  map (fun p => (p_start p, p_end p, p_size p)) (d_ptrs (run (init 8 10) ex_ops)) =
    [(10, 12, 2%N); (14, 20, 1%N); (20, 30, 3%N); (30, 50, 11%N)].
Proof.
  split; [|split]; [|vm_compute; reflexivity|vm_compute; reflexivity].
  apply legal_runb_sound. vm_compute. reflexivity.
Qed.

(* ---- tie to the source by translation: the interval algebra (x/go/telem TimeRange / TimeStamp, x/go/clamp) that the
   cesium models are written over (Common/Telem.v) is EQUAL to the Gallina that translator/go2coq regenerates from
   the Go source on every run (Generated/Src_Telem.v; proofs in Common/TelemSrc.v). *)
Theorem C03_interval_algebra_from_source :
  (forall tr ts, TelemSrc.S.TimeRange_ContainsStamp (TelemSrc.src tr) ts = Telem.contains_stamp tr ts) /\
  (forall tr rng, TelemSrc.S.TimeRange_ContainsRange (TelemSrc.src tr) (TelemSrc.src rng) = Telem.contains_range tr rng) /\
  (forall tr rng, TelemSrc.S.TimeRange_OverlapsWith (TelemSrc.src tr) (TelemSrc.src rng) = Telem.overlaps_with tr rng) /\
  (forall tr b, TelemSrc.S.TimeRange_BoundBy (TelemSrc.src tr) (TelemSrc.src b) = TelemSrc.src (Telem.bound_by tr b)) /\
  (forall tr, TelemSrc.S.TimeRange_MakeValid (TelemSrc.src tr) = TelemSrc.src (Telem.tr_make_valid tr)) /\
  (forall tr, TelemSrc.S.TimeRange_Span (TelemSrc.src tr) = Telem.tr_span tr) /\
  (forall tr rng, TelemSrc.S.TimeRange_Intersection (TelemSrc.src tr) (TelemSrc.src rng) =
                  TelemSrc.src (Telem.tr_intersection tr rng)) /\
  (forall tr o, TelemSrc.S.TimeRange_Union (TelemSrc.src tr) (TelemSrc.src o) = TelemSrc.src (Telem.tr_union tr o)) /\
  (forall ts span, TelemSrc.int64 ts -> TelemSrc.int64 span ->
                   TelemSrc.S.TimeStamp_SpanRange ts span = TelemSrc.src (Telem.ts_span_range ts span)) /\
  (TelemSrc.S.TimeStampMin = Telem.ts_min /\ TelemSrc.S.TimeStampMax = Telem.ts_max).
Proof. exact TelemSrc.telem_from_source. Qed.
Print Assumptions C03_interval_algebra_from_source.
