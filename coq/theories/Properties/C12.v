(* Properties/C12.v — Membership gossip only moves views forward and converges.
   Only statements, each closed by [exact], each followed by Print Assumptions. *)
From stdpp Require Import gmap.
From Coq Require Import NArith.
From Synnax Require Import Aspen.Membership Aspen.MembershipProofs Aspen.MembershipConv
  Monitors.Mon_C12 Aspen.MembershipMonitor.
From Synnax Require Aspen.VersionSrc.
Local Open Scope N_scope.

(* (1) No step of any kind — exchange, tick, state change, restart — and no sequence of
   them makes any node's record of any member older; a record with the same heartbeat is
   never overwritten. Holds for both comparisons ack may use. *)
Theorem C12_never_regresses : forall strict c ops i v k n,
  c !! i = Some v -> v !! k = Some n ->
  exists v' n', run strict c ops !! i = Some v' /\ v' !! k = Some n' /\
                (n' = n \/ older (m_hb n') (m_hb n) = true).
Proof.
  intros strict c ops i v k n Hi Hk.
  destruct (run_grows strict ops c i v Hi) as (v' & Hi' & Hle).
  destruct (Hle k n Hk) as (n' & Hk' & Hr). exists v', n'. auto.
Qed.
Print Assumptions C12_never_regresses.

Theorem C12_merge_monotone : forall v o k n,
  v !! k = Some n ->
  exists n', merge v o !! k = Some n' /\ older (m_hb n) (m_hb n') = false /\
             (m_hb n' = m_hb n -> n' = n).
Proof. exact merge_monotone. Qed.
Print Assumptions C12_merge_monotone.

(* (2) One exchange leaves both sides at the join of the two views. *)
Theorem C12_exchange_join : forall vi vj,
  exchange false vi vj = (join vi vj, join vj vi) /\
  (coherent vi vj -> join vi vj = join vj vi).
Proof.
  intros vi vj. split.
  - rewrite <- (exchange_fst false vi vj), <- (exchange_snd vi vj).
    destruct (exchange false vi vj); reflexivity.
  - exact (join_comm vi vj).
Qed.
Print Assumptions C12_exchange_join.

(* (3) After every pair has exchanged at least once (any order, any repetitions, no
   other changes) all views are identical, dominate every initial view, and contain
   every member that knew itself. *)
Theorem C12_converge : forall c ops,
  Coh c -> Forall is_exchange ops -> covers c ops ->
  let c' := run false c ops in
  (forall i j vi vj, c' !! i = Some vi -> c' !! j = Some vj -> vi = vj) /\
  (forall i j vj0 vi, c !! j = Some vj0 -> c' !! i = Some vi -> vle vj0 vi) /\
  (forall i, is_Some (c' !! i) <-> is_Some (c !! i)).
Proof. exact converge. Qed.
Print Assumptions C12_converge.

Theorem C12_converge_all_members : forall c ops,
  Coh c -> Forall is_exchange ops -> covers c ops ->
  (forall j vj, c !! j = Some vj -> is_Some (vj !! j)) ->
  forall i vi j, run false c ops !! i = Some vi -> is_Some (c !! j) -> is_Some (vi !! j).
Proof. exact converge_all_members. Qed.
Print Assumptions C12_converge_all_members.

(* (4) A record of the restarted generation wins every merge against the previous run. *)
Theorem C12_restart_supersedes : forall old new,
  gen (m_hb old) < gen (m_hb new) -> pick old new = new /\ pick new old = new.
Proof. exact restart_supersedes. Qed.
Print Assumptions C12_restart_supersedes.

Theorem C12_restart_heartbeat : forall h h',
  gen h' <= gen h -> older (hb_restart h) h' = true.
Proof. exact hb_restart_older. Qed.
Print Assumptions C12_restart_heartbeat.

(* The comparison of the pinned upstream tree (strict OlderThan) does not satisfy (2):
   a record at the zero heartbeat known only to the initiator is never transferred.
   This is finding F7; /repo carries the fix and the model's [strict=false] copies it. *)
Theorem C12_strict_ack_refuted :
  (exchange true f7_vi f7_vj).2 <> join f7_vj f7_vi.
Proof. exact strict_exchange_refuted. Qed.
Print Assumptions C12_strict_ack_refuted.

(* The decidable monitor used on the implementation's observations accepts every run of the
   model: its per-step clause (nothing regresses; a restart brings a strictly newer
   generation) with no hypothesis at all, its convergence clause from every coherent
   cluster. Together with the correspondence (implementation = model on the explored
   cases) this means the monitor cannot raise a false alarm there. *)
Theorem C12_monitor_steps_sound : forall strict ops c,
  ok_steps c (combine ops (model_trace strict c ops)) = true.
Proof. exact monitor_steps_sound. Qed.
Print Assumptions C12_monitor_steps_sound.

Theorem C12_monitor_conv_sound : forall c ops,
  Coh c -> conv_ok c ops (run false c ops) = true.
Proof. exact monitor_conv_sound. Qed.
Print Assumptions C12_monitor_conv_sound.

(* Non-vacuity: a coherent three-node cluster whose nodes know disjoint subsets, with a
   covering exchange list; hypotheses of C12_converge are met and the result is
   non-trivial. *)
Definition ex_c : cluster := mk_cluster
  [(1, [(1, (0, 4, 0, 1))]);
   (2, [(2, (1, 0, 0, 2)); (3, (0, 1, 0, 3))]);
   (3, [(3, (0, 2, 1, 3))])].
Definition ex_ops := [Exchange 1 2; Exchange 3 2; Exchange 1 3].
Example C12_nonvacuous :
  Forall is_exchange ex_ops /\
  bool_decide (run false ex_c ex_ops !! 1 = run false ex_c ex_ops !! 2) = true /\
  bool_decide (run false ex_c ex_ops !! 2 = run false ex_c ex_ops !! 3) = true /\
  bool_decide (run false ex_c ex_ops !! 1 = ex_c !! 1) = false.
Proof.
  split; [repeat constructor; eexists _, _; reflexivity|].
  vm_compute. auto.
Qed.

(* An exchange during which other exchanges / ticks complete (GossipOnceWith holds no lock across its round trip) is
   observed in the middle as well; the monitor's middle check (nothing regresses from before to the middle, nor from
   the middle to the end) passes on every model run: what the initiator learnt meanwhile survives its own merge. *)
Theorem C12_monitor_mids_sound : forall strict ops c,
  ok_mids c (combine ops (model_trace strict c ops)) (model_mids strict c ops) = true.
Proof. exact monitor_mids_sound. Qed.
Print Assumptions C12_monitor_mids_sound.

(* ---- tie to the source by translation: the heartbeat order and the heartbeat updates of the model are EQUAL to the
   Gallina that translator/go2coq regenerates from x/go/version/heartbeat.go on every run (Generated/Src_Version.v):
   OlderThan / YoungerThan for all heartbeats, Increment / Restart as long as the uint32 fields do not wrap. *)
Theorem C12_heartbeat_from_source :
  (forall h o, VersionSrc.S.Heartbeat_OlderThan (VersionSrc.src h) (VersionSrc.src o) = older h o) /\
  (forall h o, VersionSrc.S.Heartbeat_YoungerThan (VersionSrc.src h) (VersionSrc.src o) = younger h o) /\
  (forall h, (ver h + 1 < 2 ^ 32)%N -> VersionSrc.S.Heartbeat_Increment (VersionSrc.src h) = VersionSrc.src (hb_incr h)) /\
  (forall h, (gen h + 1 < 2 ^ 32)%N -> VersionSrc.S.Heartbeat_Restart (VersionSrc.src h) = VersionSrc.src (hb_restart h)).
Proof. exact VersionSrc.version_from_source. Qed.
Print Assumptions C12_heartbeat_from_source.
