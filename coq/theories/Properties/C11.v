(* Properties/C11.v — Node keys are unique under concurrent joins and juror failures.
   Only statements, each closed by [exact] (or short glue), each followed by
   Print Assumptions.

   The model (Aspen/Pledge.v) is a labelled transition system; [reachable pmax ms s]
   means: s is the state after SOME finite sequence of events from the initial cluster
   [ms] (any members, any — differing, stale — views, empty juror memories). The events
   are: a view changes to anything (EGossip), a pledge reaches / fails to reach a member
   (EPStart / EPFail), a responsible refreshes its snapshot and proposes (ESnap), a juror
   request is delivered / lost / answered but the answer lost / delivered with a
   cancelled context / delayed (EReq, how = 0..4) and delivered late (ELate), a run
   returns (EREnd) with its response reaching the pledge or not, a pledge returns
   (EPEnd). Runs of different pledges through the same or different members interleave
   in every order; quorums are any majority-size subset of the healthy candidates.
   So "for every reachable s" quantifies over all interleavings of k concurrent pledges
   through m members, all subsets of failing / late juror requests, and all retries. *)
From stdpp Require Import gmap.
From Coq Require Import NArith.
From Synnax Require Import Aspen.Pledge Aspen.PledgeQuorum Aspen.PledgeProofs Aspen.PledgeWitness.
From Synnax Require Import Monitors.Mon_C11 Monitors.Mon_C11_Sound.
From Synnax Require Import Aspen.PledgeCluster Aspen.PledgeClusterProofs.
Local Open Scope N_scope.

(* (1) A run decides for a key only with a full quorum: the jurors it consulted in its
   last round are distinct, are exactly |active snapshot|/2+1 many, are all healthy
   candidates of the snapshot, and EVERY one of them has returned an approval of exactly
   that key to exactly that run. *)
Theorem C11_admit_needs_full_quorum : forall pmax ms s r rn,
  reachable pmax ms s -> s_runs s !! r = Some rn -> admitted_run rn = true ->
  NoDup (quorum_of rn) /\
  length (quorum_of rn) = qsize (r_snap rn) /\
  (forall j, j ∈ quorum_of rn ->
      j ∈ map vaddr (healthy (r_snap rn)) /\ granted_to s j r (r_prop rn)).
Proof. intros pmax ms s r rn Hr. apply admit_needs_full_quorum. eapply reachable_Inv; eauto. Qed.
Print Assumptions C11_admit_needs_full_quorum.

(* (2) The joiner: whatever key a pledging node has been handed, it was handed it by a
   run of its own, after that run gathered the approval of every member of a majority
   quorum of the members known to the coordinator, and the cluster key it received is
   the coordinating member's. *)
Theorem C11_joiner_key_needs_full_quorum : forall pmax ms s p k c,
  reachable pmax ms s -> result_of s p = Some (k, c) ->
  exists r rn js,
    s_runs s !! r = Some rn /\ r_pledge rn = p /\ r_prop rn = k /\
    s_jur s !! r_member rn = Some js /\ j_ck js = c /\
    NoDup (quorum_of rn) /\ length (quorum_of rn) = qsize (r_snap rn) /\
    (forall j, j ∈ quorum_of rn ->
        j ∈ map vaddr (healthy (r_snap rn)) /\ granted_to s j r k).
Proof. intros pmax ms s p k c Hr. apply joiner_key_needs_full_quorum. eapply reachable_Inv; eauto. Qed.
Print Assumptions C11_joiner_key_needs_full_quorum.

(* pledge.Pledge returning (key, ck) is an event the model accepts only if that is what
   the node was handed *)
Theorem C11_pledge_returns_what_it_was_handed : forall pmax s p key ck s',
  step pmax s (EPEnd p true key ck) = Some s' -> result_of s p = Some (key, ck).
Proof. exact pend_accepts. Qed.
Print Assumptions C11_pledge_returns_what_it_was_handed.

(* (3) "that cluster's key": in a cluster whose members are all configured with ck0,
   every arbitrating node (including nodes that joined) and every response carry ck0. *)
Theorem C11_cluster_key : forall pmax ck0 ms s,
  Forall (fun m : member_cfg => m.1.1.2 = ck0) ms -> reachable pmax ms s ->
  (forall j js, s_jur s !! j = Some js -> j_ck js = ck0) /\
  (forall p k c, result_of s p = Some (k, c) -> c = ck0).
Proof. exact cluster_key_uniform. Qed.
Print Assumptions C11_cluster_key.

(* (3b) The same clause at the level of cluster.Open, over every script of bootstrap /
   join through any member / close / reopen-from-storage (Aspen/PledgeCluster.v; a reopened
   member arbitrates with the cluster key in its store, a joined node with the one it
   received): every cluster that opens — bootstrapper, joiner through a never-restarted,
   a restarted or a joined member, reopened node — holds the bootstrapper's cluster key
   ck0, and so does every store at the end. *)
Theorem C11_cluster_key_lifecycle : forall ck0 (sc : cscript),
  Forall (fun ob : cobs => ob.1.1 = true -> ob.2 = ck0) (crun ck0 ∅ sc) /\
  (forall i n, cfinal ck0 ∅ sc !! i = Some n -> cn_ck n = ck0).
Proof. exact cluster_key_lifecycle. Qed.
Print Assumptions C11_cluster_key_lifecycle.

(* (4) Juror memory: in every reachable state the approvals a juror has returned are for
   pairwise different keys, each is remembered, and each was above every key the juror
   knew when it voted. *)
Theorem C11_juror_memory : forall pmax ms s j js,
  reachable pmax ms s -> s_jur s !! j = Some js ->
  NoDup (map gkey (j_granted js)) /\
  (forall x, x ∈ j_granted js -> gkey x ∈ j_appr js /\ x.2 < gkey x).
Proof.
  intros pmax ms s j js Hr Hj. destruct (inv_jur s (reachable_Inv _ _ _ Hr) j js Hj) as [H1 H2]. auto.
Qed.
Print Assumptions C11_juror_memory.

(* (5) The decided key is above every key of the coordinator's first snapshot and above
   every key each quorum member knew at its vote. *)
Theorem C11_admitted_key_fresh : forall pmax ms s r rn,
  reachable pmax ms s -> s_runs s !! r = Some rn -> admitted_run rn = true ->
  r_base rn < r_prop rn /\
  forall j, j ∈ quorum_of rn ->
    exists js m, s_jur s !! j = Some js /\ (r, r_prop rn, m) ∈ j_granted js /\ m < r_prop rn /\
                 r_prop rn ∈ j_appr js.
Proof. intros pmax ms s r rn Hr. apply admitted_key_fresh. eapply reachable_Inv; eauto. Qed.
Print Assumptions C11_admitted_key_fresh.

(* (6) Uniqueness from juror memory: two different runs whose quorums share a juror
   never decide for the same key. *)
Theorem C11_unique_under_intersection : forall pmax ms s r1 r2 rn1 rn2,
  reachable pmax ms s ->
  s_runs s !! r1 = Some rn1 -> s_runs s !! r2 = Some rn2 -> r1 <> r2 ->
  admitted_run rn1 = true -> admitted_run rn2 = true ->
  (exists j, j ∈ quorum_of rn1 /\ j ∈ quorum_of rn2) ->
  r_prop rn1 <> r_prop rn2.
Proof. intros pmax ms s r1 r2 rn1 rn2 Hr. apply unique_under_intersection. eapply reachable_Inv; eauto. Qed.
Print Assumptions C11_unique_under_intersection.

(* (7) Quorum intersection. [compat v1 v2]: the active addresses of both snapshots lie in
   a duplicate-free universe smaller than the two quorum sizes together. *)
Theorem C11_quorums_intersect : forall v1 v2 Q1 Q2,
  compat v1 v2 -> NoDup Q1 -> NoDup Q2 ->
  Q1 ⊆ map vaddr (healthy v1) -> Q2 ⊆ map vaddr (healthy v2) ->
  length Q1 = qsize v1 -> length Q2 = qsize v2 ->
  exists j, j ∈ Q1 /\ j ∈ Q2.
Proof. exact quorums_intersect. Qed.
Print Assumptions C11_quorums_intersect.

Theorem C11_quorum_intersection_same_view : forall v,
  NoDup (map vaddr (active v)) -> compat v v.
Proof. exact compat_same_view. Qed.
Print Assumptions C11_quorum_intersection_same_view.

(* bounded staleness: one coordinator is at most one member behind the other *)
Theorem C11_quorum_intersection_bounded_staleness : forall v1 v2,
  NoDup (map vaddr (active v2)) ->
  map vaddr (active v1) ⊆ map vaddr (active v2) ->
  (length (active v2) <= S (length (active v1)))%nat ->
  compat v1 v2.
Proof. exact compat_one_behind. Qed.
Print Assumptions C11_quorum_intersection_bounded_staleness.

Theorem C11_quorum_intersection_arith : forall v1 v2 U,
  NoDup U -> map vaddr (active v1) ⊆ U -> map vaddr (active v2) ⊆ U ->
  (length U < length (active v1) / 2 + length (active v2) / 2 + 2)%nat ->
  compat v1 v2.
Proof. exact compat_arith. Qed.
Print Assumptions C11_quorum_intersection_arith.

(* (8) The uniqueness clause, under the guard the proof needs: the snapshots of the two
   deciding runs satisfy the intersection condition. All interleavings, losses, delays,
   retries and view changes are covered; nothing else is assumed. *)
Theorem C11_unique_partial : forall pmax ms s r1 r2 rn1 rn2,
  reachable pmax ms s ->
  s_runs s !! r1 = Some rn1 -> s_runs s !! r2 = Some rn2 -> r1 <> r2 ->
  admitted_run rn1 = true -> admitted_run rn2 = true ->
  compat (r_snap rn1) (r_snap rn2) ->
  r_prop rn1 <> r_prop rn2.
Proof. intros pmax ms s r1 r2 rn1 rn2 Hr. apply unique_partial. eapply reachable_Inv; eauto. Qed.
Print Assumptions C11_unique_partial.

Theorem C11_joiner_keys_unique_partial : forall pmax ms s p1 p2 k1 c1 k2 c2,
  reachable pmax ms s -> p1 <> p2 ->
  result_of s p1 = Some (k1, c1) -> result_of s p2 = Some (k2, c2) ->
  (forall r1 r2 rn1 rn2, s_runs s !! r1 = Some rn1 -> s_runs s !! r2 = Some rn2 ->
     admitted_run rn1 = true -> admitted_run rn2 = true -> r_pledge rn1 = p1 -> r_pledge rn2 = p2 ->
     compat (r_snap rn1) (r_snap rn2)) ->
  k1 <> k2.
Proof. intros pmax ms s p1 p2 k1 c1 k2 c2 Hr. apply joiner_keys_unique_partial. eapply reachable_Inv; eauto. Qed.
Print Assumptions C11_joiner_keys_unique_partial.

(* (9) Without the guard the statement is FALSE in the faithful model, and in the real
   code (finding disjoint_quorums_from_stale_view, DESIGN §9 F6): seven members, member 3
   only knows {1,2,3}; pledge 101 joins through member 1 (quorum {4,5,6,7} of 7) and is
   handed key 8; then pledge 102 joins through member 3 (quorum {2,3} of 3): keys 4..7
   are rejected by juror 2, key 8 is approved by both, and 102 is handed key 8 too. The
   event sequence below is the one the real pledge package produced. *)
Theorem C11_unique_refuted :
  exists ms tr s p1 p2 k c,
    exec w_pmax (init ms) tr = Some s /\ p1 <> p2 /\
    result_of s p1 = Some (k, c) /\ result_of s p2 = Some (k, c).
Proof. exact unique_refuted. Qed.
Print Assumptions C11_unique_refuted.

(* (10) The monitor that judges the implementation's event log (Monitors/Mon_C11.v:
   full-quorum approval, cluster key, no key handed out twice, no key an approving juror
   knew, no phantom response) agrees with the model: on every event sequence the model
   accepts, the only objection it can raise is "same key from disjoint approving quorums"
   (the signature of the finding), and it raises none when the candidate snapshots of the
   sequence pairwise satisfy the intersection guard. Hence on a run of the real code with
   mismatches = 0 a monitor rejection is exactly the known finding, and the monitor is
   never stricter than the model. *)
Theorem C11_monitor_sound : forall c : case_t,
  accepts c = true -> Forall (fun k => k = k_dup_disjoint) (viol_kinds c).
Proof. exact monitor_sound. Qed.
Print Assumptions C11_monitor_sound.

Theorem C11_monitor_sound_under_guard : forall c : case_t,
  accepts c = true ->
  (forall v1 v2, v1 ∈ snaps c.2 -> v2 ∈ snaps c.2 -> compat v1 v2) ->
  ok_C11 c = true.
Proof. exact monitor_sound_guarded. Qed.
Print Assumptions C11_monitor_sound_under_guard.

(* Non-vacuity: what the real code did with two concurrent pledges, a coordinator that
   is one member behind (member 1 does not know member 4), an unreachable juror and two
   retries: the model accepts it, both pledges are handed keys, the two snapshots differ
   and satisfy the guard of C11_unique_partial, and the keys differ. *)
Example C11_nonvacuous :
  match exec w_pmax (init e_ms) e_tr with
  | Some s => bool_decide (result_of s 101 = Some (6, 7)) && bool_decide (result_of s 102 = Some (5, 7))
              && bool_decide (map (fun x => r_snap x.2) (map_to_list (s_runs s)) = [full4; stale3])
  | None => false
  end = true /\ compat full4 stale3 /\ compatb w_view1 w_view3 = false.
Proof.
  split; [exact e_check|]. split; [apply compatb_compat; exact e_compat|exact w_not_compat].
Qed.
