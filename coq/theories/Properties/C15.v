(* Properties/C15.v — Channel keys are unique and metadata always matches the storage engines.
   Only statements, each closed by [exact] (short glue allowed), each followed by Print Assumptions.
   [step fixed validate] is the executable model of Core/Channel.v; [fixed = true] is /repo's working
   tree (after the fix: commits F9, F40, F44, F45), [fixed = false] the pinned upstream tree. *)
From stdpp Require Import gmap strings.
From Coq Require Import NArith.
From Synnax Require Import Generated.Consts_C15 Core.Channel Core.ChannelKeys Core.ChannelAssign Core.ChannelInv
  Core.ChannelShrink Core.ChannelCreate Core.ChannelHistory Core.ChannelCons Core.ChannelConsCreate
  Core.ChannelNames Core.ChannelWitness.
From Synnax Require Core.Channel Core.ChannelSrc Generated.Consts_C15.
Local Open Scope N_scope.

(* (1) A key embeds its leaseholder: NewKey is injective on (node <= 4095, local key <= 2^20-1) and
   Leaseholder / LocalKey recover the two parts. Re-checked against the split position, mask and
   limits read from the Go source on every run (Generated/Consts_C15.v). *)
Theorem C15_key_embeds_leaseholder : forall lease lkey,
  lease <= node_free -> lkey <= max_local ->
  leaseholder (new_key lease lkey) = lease /\ local_key (new_key lease lkey) = lkey /\
  (forall l2 k2, l2 <= node_free -> k2 <= max_local -> new_key lease lkey = new_key l2 k2 -> lease = l2 /\ lkey = k2).
Proof.
  intros lease lkey Hl Hk. split; [apply leaseholder_new_key; assumption|].
  split; [apply local_key_new_key; assumption|]. intros l2 k2 H2 H3. apply new_key_inj; assumption.
Qed.
Print Assumptions C15_key_embeds_leaseholder.

(* ... and past the 20-bit boundary it does not: the reason counter.add refuses to pass MaxUint20 *)
Theorem C15_key_overflow_refuted :
  new_key 2 (max_local + 1) = new_key 3 0 /\ leaseholder (new_key 2 (max_local + 1)) = 3 /\
  new_key 1 (max_local + 2) = new_key 1 1.
Proof. exact new_key_overflow_refuted. Qed.
Print Assumptions C15_key_overflow_refuted.

(* (2) Key assignment (retrieveExistingAndAssignKeys, current tree): over a table whose rows have
   non-zero local keys, for ANY request list and option, the j-th new channel gets local key
   counter+j+1, which is at most the advanced counter, which never passes 2^20-1; a failing call
   creates nothing and leaves the counter alone. *)
Theorem C15_counter_reserves_keys : forall t ctr chs retr er ctr' chs2 created amb,
  tab_pos t ->
  retrieve_assign true t ctr chs retr = (er, ctr', chs2, created, amb) ->
  (er <> EOk -> created = [] /\ ctr' = ctr) /\
  (er = EOk -> ctr <= ctr' /\ ctr' <= max_local /\
     forall j c, created !! j = Some c ->
       exists c0, c0 ∈ chs /\ keyed_from c0 c (ctr + N.of_nat j + 1) /\ ctr + N.of_nat j + 1 <= ctr').
Proof. exact retrieve_assign_spec. Qed.
Print Assumptions C15_counter_reserves_keys.

(* The pinned upstream code did not (finding F44): two existing channels of one requested name,
   the counter stays at 6 while key 7 is handed out. *)
Theorem C15_counter_reserves_keys_upstream_refuted :
  match retrieve_assign false f44_tab 6 f44_req true with
  | (er, ctr', _, created, _) => er = EOk /\ ctr' = 6 /\ (c_lkey <$> created) = [7]
  end.
Proof. exact retrieve_assign_unfixed_refuted. Qed.
Print Assumptions C15_counter_reserves_keys_upstream_refuted.

(* (3) The invariant — every row is stored under NewKey(its leaseholder, its local key), leased
   to a node of the cluster or free, with 0 < local key <= that leaseholder's counter <= 2^20-1;
   every engine holds only keys of its own node below its counter — is kept by EVERY operation
   issued through a node, succeeding or failing at any point of a batch, and so by every history:
   batched creates with both options, renames, deletes by key and name, restarts, counter bumps. *)
Theorem C15_invariant_step : forall validate s o,
  Inv s -> op_wf s o -> Inv (step true validate s o).1.
Proof. exact step_Inv. Qed.
Print Assumptions C15_invariant_step.

Theorem C15_invariant_history : forall validate ops s,
  Inv s -> Forall (op_wf s) ops -> Inv (run true validate s ops).
Proof. intros v ops s I H. exact (proj2 (run_ext v ops s I H)). Qed.
Print Assumptions C15_invariant_history.

(* (4) Any key that comes into use through an operation (metadata row or engine channel, on
   success or on a failing batch) is NewKey(lease, local) of a real leaseholder, decodes back to
   it, and its local part lies strictly above that leaseholder's counter before the operation:
   it was never handed out before. *)
Theorem C15_new_keys_fresh : forall validate s o s' r k,
  Inv s -> op_wf s o -> step true validate s o = (s', r) -> seen s' k -> ~ seen s k ->
  exists lease lkey, k = new_key lease lkey /\ leaseholder k = lease /\ local_key k = lkey /\
                     lease_ok s lease /\ ctr_of s lease < lkey /\ lkey <= ctr_of s' lease.
Proof. exact new_keys_fresh. Qed.
Print Assumptions C15_new_keys_fresh.

(* (5) Never reused: a key in use at some point of a history and in use nowhere (metadata, any
   engine) at a later point is in use at no point after that, whatever operations follow. *)
Theorem C15_keys_never_reused : forall validate s ops1 ops2 ops3 k,
  Inv s -> Forall (op_wf s) (ops1 ++ ops2 ++ ops3) ->
  let s1 := run true validate s ops1 in
  let s2 := run true validate s1 ops2 in
  let s3 := run true validate s2 ops3 in
  seen s1 k -> ~ seen s2 k -> ~ seen s3 k.
Proof. exact keys_never_reused. Qed.
Print Assumptions C15_keys_never_reused.

(* The pinned upstream tree reused a key that was still in use (finding F44, replayed on the
   implementation by corpus/C15/03_*; fixed by 79ffb52). *)
Theorem C15_keys_unique_upstream_refuted : all_ok false false w_s0 w_f44 = true /\ reuses false = true.
Proof. exact f44_unfixed. Qed.
Print Assumptions C15_keys_unique_upstream_refuted.

(* (6) Cluster-wide uniqueness and placement: two rows have the same key iff they have the same
   (leaseholder, local key); the key decodes to the row's leaseholder; an engine channel's key
   decodes to the node whose engine holds it. *)
Theorem C15_rows_keyed : forall s k1 k2 c1 c2,
  Inv s -> s_tab s !! k1 = Some c1 -> s_tab s !! k2 = Some c2 ->
  (k1 = k2 <-> (c_lease c1 = c_lease c2 /\ c_lkey c1 = c_lkey c2)) /\
  leaseholder k1 = c_lease c1 /\ local_key k1 = c_lkey c1.
Proof. exact rows_keyed. Qed.
Print Assumptions C15_rows_keyed.

Theorem C15_engine_keys_local : forall s n k, Inv s -> is_Some (eng_of s n !! k) -> leaseholder k = n.
Proof. exact engine_keys_local. Qed.
Print Assumptions C15_engine_keys_local.

(* (7) Metadata = engines, current tree. [Cons]: every leased row is in its leaseholder's engine
   with the same key, name, data type, index flag, index and virtual flag, and every engine channel
   is such a row. Every SUCCESSFUL operation through any node keeps it — batched create with or
   without retrieve-if-exists (no overwrite option, callers do not pass local keys), rename (each
   key listed once), delete by key or by name, restart, counter bump — and so does every history of
   such operations. The two guards are exactly the known findings F42 / F43 refuted below. *)
Theorem C15_meta_eq_engine_partial : forall validate s o s' out,
  Inv s -> Cons s -> op_wf s o -> plain_op o -> step true validate s o = (s', (EOk, out)) -> Cons s'.
Proof. exact step_Cons. Qed.
Print Assumptions C15_meta_eq_engine_partial.

Theorem C15_meta_eq_engine_history_partial : forall validate ops s,
  Inv s -> Cons s -> Forall (op_wf s) ops -> Forall plain_op ops -> all_ok_run validate s ops ->
  Cons (run true validate s ops).
Proof. exact run_Cons. Qed.
Print Assumptions C15_meta_eq_engine_history_partial.

(* the decidable check of the witnesses below is implied by [Cons] *)
Theorem C15_cons_decidable : forall s, Cons s -> consistent_b s = true.
Proof. exact Cons_consistent_b. Qed.
Print Assumptions C15_cons_decidable.

(* (7') Deleted channels are gone: after a successful delete from a consistent state none of the
   listed keys is a metadata row or a channel of any node's engine (so retrieve / open writer / open
   iterator on it find nothing at either layer), and by (5) it never is again. *)
Theorem C15_deleted_gone : forall validate s gw keys s' out,
  Inv s -> Cons s -> is_Some (s_eng s !! gw) ->
  step true validate s (Delete gw keys) = (s', (EOk, out)) ->
  forall k, k ∈ keys -> ~ seen s' k.
Proof. exact delete_gone. Qed.
Print Assumptions C15_deleted_gone.

(* (7'') A REJECTED rename changes nothing: renameGateway validates in the metadata update (every
   key exists, none internal) before anything is written, and from a consistent state the engine
   cannot refuse afterwards — whatever error it returns, metadata and engine are untouched. *)
Theorem C15_rename_rejected_no_effect : forall host s keys names s' er,
  Inv s -> Cons s -> is_Some (s_eng s !! host) -> length keys = length names ->
  Forall (fun n => n <> "") names ->
  (forall k, k ∈ keys -> leaseholder k = host) ->
  rename_gateway host s keys names = (s', er) -> er <> EOk -> s' = s.
Proof. exact rename_gateway_rejected. Qed.
Print Assumptions C15_rename_rejected_no_effect.

(* The non-empty-name hypothesis is needed: the engine refuses an empty name AFTER the metadata row
   was renamed. Upstream nothing rejected it earlier when validation is off (finding F91, fixed by
   f2d9cf3: rename now requires a name before writing anything). *)
Theorem C15_rename_empty_name_upstream_refuted :
  consistent_b (run false false w_s0 w_f91) = false /\ consistent_b (run true false w_s0 w_f91) = true.
Proof. exact (conj f91_unfixed (proj1 f91_fixed)). Qed.
Print Assumptions C15_rename_empty_name_upstream_refuted.

(* (7 d) A request hit by a storage fault — the leaseholder's engine cannot persist a channel's
   meta file — issued in a transaction: in the situations the model decides (every entry leased to
   the faulty node, request otherwise acceptable; the rest is flagged) it fails and every metadata
   row and every engine is exactly as before. *)
Theorem C15_faulted_request_no_effect : forall validate s o s' r,
  match o with FaultedCreate _ _ _ | FaultedRename _ _ _ _ => True | _ => False end ->
  step true validate s o = (s', r) -> s_amb s' = false ->
  r.1 = EFault /\ s_tab s' = s_tab s /\ s_eng s' = s_eng s.
Proof. exact faulted_no_effect. Qed.
Print Assumptions C15_faulted_request_no_effect.

(* The pinned upstream tree breaks (7) with one successful delete of a leased virtual channel
   (finding F9, fixed by a4733ea): the deleted key stays in use in the engine. On the current tree
   the same history is consistent and the key is gone. *)
Theorem C15_meta_eq_engine_upstream_refuted :
  all_ok false true w_s0 w_f9 = true /\ consistent_b (run false true w_s0 w_f9) = false /\
  key_in_use_b (run false true w_s0 w_f9) (new_key 2 1) = true.
Proof. exact f9_unfixed. Qed.
Print Assumptions C15_meta_eq_engine_upstream_refuted.

(* Two successful requests still break it on the current tree: overwrite of a channel leased to
   another node (known finding F42) and a rename listing a key twice (known finding F43). *)
Theorem C15_meta_eq_engine_refuted :
  (all_ok true true w_s0 w_f42 = true /\ consistent_b (run true true w_s0 w_f42) = false) /\
  (all_ok true true w_s0 w_f43 = true /\ consistent_b (run true true w_s0 w_f43) = false).
Proof. exact (conj f42_current f43_current). Qed.
Print Assumptions C15_meta_eq_engine_refuted.

(* A FAILING delete (index with dependants) removes the metadata row before the engine refuses:
   the clause is about successful operations. *)
Theorem C15_failed_delete_diverges :
  all_ok true true w_s0 w_fail = false /\ consistent_b (run true true w_s0 w_fail) = false.
Proof. exact failed_delete_diverges. Qed.
Print Assumptions C15_failed_delete_diverges.

(* (8) Names. What an accepted validation guarantees, for every table and request: each name
   matches the pattern, the request's names are pairwise different, and no row other than the
   request's own key holds any of them (create passes keys that no row has, rename its own). *)
Theorem C15_validate_names_sound : forall t keys names,
  length keys = length names ->
  validate_names t keys names false = (EOk, false) ->
  Forall (fun n => valid_name n = true) names /\ NoDup names /\
  forall i k n, keys !! i = Some k -> names !! i = Some n ->
    forall k' c, t !! k' = Some c -> c_name c = n -> k' = k.
Proof. exact validate_names_sound. Qed.
Print Assumptions C15_validate_names_sound.

(* Upstream: a calculated channel created through a non-bootstrapper node gets two
   indexes of the same name (finding F40, fixed by 34864a2). Current tree: the generated index
   name is still not validated on the bootstrapper (known finding F41). *)
Theorem C15_names_unique_upstream_refuted :
  all_ok false true w_s0 w_f40 = true /\ names_ok_b (run false true w_s0 w_f40) = false.
Proof. exact f40_unfixed. Qed.
Print Assumptions C15_names_unique_upstream_refuted.

Theorem C15_names_unique_refuted :
  all_ok true true w_s0 w_f41 = true /\ names_ok_b (run true true w_s0 w_f41) = false.
Proof. exact f41_current. Qed.
Print Assumptions C15_names_unique_refuted.

(* re-submission of an existing calculated channel with its key next to a new channel: keys 1..4,
   counter 4, nothing reused (the history that seeded change C15_1 breaks) *)
Example C15_resubmit_with_key :
  all_ok true true w_s0 w_resubmit = true /\
  bool_decide (dom (s_tab (run true true w_s0 w_resubmit)) =
               {[new_key node_free 1; new_key node_free 2; new_key node_free 3; new_key node_free 4]}) = true /\
  s_free (run true true w_s0 w_resubmit) = 4.
Proof. exact w_resubmit_facts. Qed.

(* Non-vacuity: the empty two-node cluster satisfies the invariant and is consistent; a history of
   plain operations creating an index, a
   leased virtual, a free and a calculated channel through node 2, a data channel through node 1,
   renaming, deleting and retrieving succeeds at every step, ends consistent with valid unique
   names, the deleted key is in use nowhere and six keys are live. *)
Example C15_nonvacuous :
  Inv w_s0 /\ Cons w_s0 /\ Forall plain_op w_ops /\ all_ok_run true w_s0 w_ops /\
  Forall (op_wf w_s0) w_ops /\ all_ok true true w_s0 w_ops = true /\
  consistent_b (run true true w_s0 w_ops) = true /\ names_ok_b (run true true w_s0 w_ops) = true /\
  key_in_use_b (run true true w_s0 w_ops) (new_key 2 1) = false /\
  key_in_use_b (run true true w_s0 w_ops) (new_key 2 2) = true.
Proof.
  split; [exact w_s0_Inv|]. split; [exact w_s0_Cons|]. destruct w_ops_plain as [P1 P2].
  split; [exact P1|]. split; [exact P2|]. split; [repeat constructor; vm_compute; eauto|].
  destruct w_ops_facts as (H1 & H2 & H3 & H4 & H5 & _). auto.
Qed.

(* ---- tie to the source by translation: the channel-key arithmetic of the model (Core/Channel.v new_key /
   leaseholder / local_key / free test) is EQUAL to the Gallina that translator/go2coq regenerates from
   core/pkg/distribution/channel/channel.go, aspen/internal/node/node.go, x/go/math, x/go/types on every run
   (Generated/Src_ChanKey.v; proofs in Core/ChannelSrc.v): NewKey for all arguments, the projections for every
   uint32 key. *)
Theorem C15_channel_keys_from_source :
  (forall lease lkey, ChannelSrc.S.channel_NewKey (Z.of_N lease) (Z.of_N lkey) = Z.of_N (Channel.new_key lease lkey)) /\
  (forall k, (k < 2 ^ 32)%N -> ChannelSrc.S.Key_Leaseholder (Z.of_N k) = Z.of_N (Channel.leaseholder k)) /\
  (forall k, (k < 2 ^ 32)%N -> ChannelSrc.S.Key_LocalKey (Z.of_N k) = Z.of_N (Channel.local_key k)) /\
  (forall k, (k < 2 ^ 32)%N -> ChannelSrc.S.Key_Free (Z.of_N k) = (Channel.leaseholder k =? Consts_C15.node_free)%N) /\
  ChannelSrc.S.math_MaxUint20 = Z.of_N Consts_C15.max_local /\
  ChannelSrc.S.node_KeyBootstrapper = Z.of_N Consts_C15.node_boot.
Proof. exact ChannelSrc.channel_keys_from_source. Qed.
Print Assumptions C15_channel_keys_from_source.
