(* Properties/C15.v — placeholder while the model is being validated. *)
From stdpp Require Import gmap.
From Coq Require Import NArith.
From Synnax Require Import Generated.Consts_C15 Core.Channel.
Local Open Scope N_scope.

Theorem C15_stub : leaseholder (new_key 3 5) = 3.
Proof. reflexivity. Qed.
Print Assumptions C15_stub.
