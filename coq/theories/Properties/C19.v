(* Properties/C19.v — Compiled Arc code computes what the language specification says.
   Only statements, each closed by [exact], each followed by Print Assumptions.

   Objects: Arc/Syntax.v (typed scalar fragment, the spec's parse tree), Arc/Spec.v (reference
   semantics written from arc/docs/spec.md), Arc/Compile.v (the compiler's lowering, copied
   from the Go code), Arc/Wasm.v (semantics of the emitted instructions, host math.pow),
   Arc/Guard.v (the signatures of the known divergences), Arc/Sim.v (register images). *)
From Coq Require Import ZArith List Bool.
From Synnax Require Import Arc.Syntax Arc.Spec Arc.Wasm Arc.Compile Arc.Guard Arc.Sim Arc.FloatExec
  Arc.CorrectExpr Arc.CorrectStmt Arc.Correct Arc.Validates.
Import ListNotations.
Local Open Scope Z_scope.

(* Compiler correctness, for EVERY choice of the float operations, every well-typed function of
   the fragment, every argument vector of the parameter types: if neither the program text nor
   the (spec-level) evaluation of the call carries one of the nine signatures of Arc/Guard.v,
   then the function compiles, and running the compiled body on the register images of the
   arguments returns the register image of the value spec.md defines (early returns, locals,
   conditionals, short-circuit logic, wrapping arithmetic, casts, '^' through the host import),
   and traps with "integer divide by zero" exactly when spec.md prescribes a runtime error.
   [Unspec]: spec.md is silent (negative integer exponent, float->int of NaN), nothing claimed.
   LOOPS: the theorem is for loop-free functions ([loop_free_block]). spec.md defines no loops;
   the compiler's for / range / break / continue are modelled in Spec.v (conventional semantics,
   with fuel), Compile.v and Wasm.v (block / loop / br with the compiler's depth bookkeeping) and
   are covered by the byte-for-byte and value correspondence and by the monitor on every run,
   not by this theorem. The same holds for STATEFUL VARIABLES ($=): [loop_free_block] also excludes
   them; Spec.spec_calls / Wasm.wasm_calls (sequences of invocations, host table of
   stl/stateful) are compared with the real tool chain on every run; likewise GLOBAL CONSTANTS
   and CALLS of helper functions with a default value ([pure_expr] excludes them, [f_virt f = []]
   says there is no helper).
   The full statement (without the two guard hypotheses) is FALSE: see the _refuted theorems. *)
Theorem C19_compile_correct_partial : forall (fo : float_ops) (f : func) (args : list (val fo)),
  check_func f = true -> locals_ok f = true ->
  Forall2 (vok fo) (f_params f) args ->
  loop_free_block (f_body f) = true -> f_virt f = [] ->
  static_flags f = [] -> dyn_flags fo f args = [] ->
  exists w, compile f = Some w /\
    match spec_run fo f args with
    | Ok v => wasm_run fo w (wvs fo (f_params f) args) = WOk (wv fo (f_ret f) v)
    | RtErr => wasm_run fo w (wvs fo (f_params f) args) = WTrap TDivZero
    | Unspec => True
    end.
Proof. exact compile_correct_partial. Qed.
Print Assumptions C19_compile_correct_partial.

(* "Every program the analyzer accepts compiles to a module that validates": every well-typed
   function whose text carries no static signature compiles, and the emitted body type-checks
   under the WebAssembly validation rules (operand stack typing, block types, polymorphic stack
   after return/unreachable, a result on every path). *)
Theorem C19_validates_partial : forall f,
  check_func f = true -> locals_ok f = true -> loop_free_block (f_body f) = true ->
  f_virt f = [] -> static_flags f = [] ->
  exists w, compile f = Some w /\ validate w = true.
Proof. exact validates_partial. Qed.
Print Assumptions C19_validates_partial.

(* The same at the level of one expression, in any scope and any hint context the compiler can
   create: the emitted code pushes the register image of the specified value on any stack. *)
Theorem C19_expr_correct_partial : forall (fo : float_ops) (tys : list ty) (sc : list nat) (e : expr)
    (hint : option ty) (t : ty),
  type_of tys sc e = Some t -> pure_expr e = true ->
  hint_ok tys hint e = true -> float_mod_free tys e = true ->
  exists code, cexpr tys hint e = Some (code, t) /\
    forall r ls, sim fo tys sc r ls -> dflags fo tys r e = [] ->
      esim fo t code (eval fo tys r e) ls.
Proof. exact cexpr_correct. Qed.
Print Assumptions C19_expr_correct_partial.

(* Where no unary operator stands in front of an unparenthesised power, the implementation's
   parse is the spec's parse. *)
Theorem C19_parse_agrees_partial : forall e, uop_free e = true -> reparse e = e.
Proof. exact reparse_id. Qed.
Print Assumptions C19_parse_agrees_partial.

(* ---- each guard is necessary: one witness per signature (known findings) ---- *)
Theorem C19_unary_minus_over_pow_refuted :
  wf w_unary_pow = true /\ static_flags w_unary_pow = [TgUnaryOverPow] /\
  dyn_flags fo_exec w_unary_pow (ints [3]) = [] /\
  spec_z w_unary_pow (ints [3]) = Some (-9) /\
  wres_z (run_raw w_unary_pow (ints [3])) = Some (true, inl 9).
Proof. exact unary_minus_over_pow_refuted. Qed.
Print Assumptions C19_unary_minus_over_pow_refuted.

Theorem C19_literal_hint_leak_refuted :
  wf w_hint_leak = true /\ static_flags w_hint_leak = [TgHintLeak] /\
  option_map fst (run_raw w_hint_leak (ints [1])) = Some false.
Proof. exact literal_hint_leak_refuted. Qed.
Print Assumptions C19_literal_hint_leak_refuted.

Theorem C19_float_modulo_refuted :
  wf w_float_mod = true /\ static_flags w_float_mod = [TgFloatMod] /\ compile w_float_mod = None.
Proof. exact float_modulo_refuted. Qed.
Print Assumptions C19_float_modulo_refuted.

(* Finding F13h, fixed in /repo: a bare 'if' on an i64 register (what the pinned compiler
   emitted) does not validate; the fixed lowering validates and computes the condition. *)
Theorem C19_bare_if_on_i64_refuted :
  wf w_if64 = true /\ static_flags w_if64 = [] /\
  validate w_if64_pinned = false /\
  wres_z (run_raw w_if64 (ints [5])) = Some (true, inl 1) /\
  wres_z (run_raw w_if64 (ints [0])) = Some (true, inl 2).
Proof. exact bare_if_on_i64_refuted. Qed.
Print Assumptions C19_bare_if_on_i64_refuted.

Theorem C19_narrow_int_arith_overflow_refuted :
  wf w_narrow = true /\ static_flags w_narrow = [] /\
  dyn_flags fo_exec w_narrow (ints [127; 1]) = [TgNarrowOverflow] /\
  spec_z w_narrow (ints [127; 1]) = Some (-128) /\
  wres_z (run_raw w_narrow (ints [127; 1])) = Some (true, inl 128).
Proof. exact narrow_int_arith_overflow_refuted. Qed.
Print Assumptions C19_narrow_int_arith_overflow_refuted.

Theorem C19_signed_div_overflow_refuted :
  wf w_divov = true /\ static_flags w_divov = [] /\
  dyn_flags fo_exec w_divov (ints [-2147483648; -1]) = [TgSignedDivOverflow] /\
  spec_z w_divov (ints [-2147483648; -1]) = Some (-2147483648) /\
  wres_z (run_raw w_divov (ints [-2147483648; -1])) = Some (true, inr TIntOverflow).
Proof. exact signed_div_overflow_refuted. Qed.
Print Assumptions C19_signed_div_overflow_refuted.

Theorem C19_same_register_cast_refuted :
  wf w_samereg = true /\ static_flags w_samereg = [] /\
  dyn_flags fo_exec w_samereg (ints [300]) = [TgSameRegCast] /\
  spec_z w_samereg (ints [300]) = Some 44 /\
  wres_z (run_raw w_samereg (ints [300])) = Some (true, inl 300).
Proof. exact same_register_cast_refuted. Qed.
Print Assumptions C19_same_register_cast_refuted.

Theorem C19_sign_change_cast_refuted :
  wf w_signcast = true /\ static_flags w_signcast = [] /\
  dyn_flags fo_exec w_signcast (ints [-1]) = [TgSignCast] /\
  spec_z w_signcast (ints [-1]) = Some 0 /\
  wres_z (run_raw w_signcast (ints [-1])) = Some (true, inl 18446744073709551615).
Proof. exact sign_change_cast_refuted. Qed.
Print Assumptions C19_sign_change_cast_refuted.

Theorem C19_float_to_int_refuted :
  wf w_f2i = true /\ static_flags w_f2i = [] /\
  dyn_flags fo_exec w_f2i a_3e9 = [TgFloatToInt] /\
  spec_z w_f2i a_3e9 = Some 2147483647 /\
  wres_z (run_raw w_f2i a_3e9) = Some (true, inr TIntOverflow).
Proof. exact float_to_int_refuted. Qed.
Print Assumptions C19_float_to_int_refuted.

Theorem C19_u64_pow_exponent_refuted :
  wf w_powexp = true /\ static_flags w_powexp = [] /\
  dyn_flags fo_exec w_powexp (ints [3; 9223372036854775808]) = [TgPowExp63] /\
  spec_z w_powexp (ints [3; 9223372036854775808]) = Some 1 /\
  wres_z (run_raw w_powexp (ints [3; 9223372036854775808])) = Some (true, inl 0).
Proof. exact u64_pow_exponent_refuted. Qed.
Print Assumptions C19_u64_pow_exponent_refuted.

(* Non-vacuity: a function with two locals, casts, a conditional with an early return, an
   else-if, short-circuit logic and a division meets every hypothesis of
   C19_compile_correct_partial on three calls; its value is non-trivial and one call divides
   by zero (runtime error in the spec, trap in the compiled code). *)
(* Finding F13j, fixed in /repo: a u64 literal above 2^63-1 now compiles and computes. *)
Example C19_u64_literal_fixed :
  wf w_biglit = true /\ static_flags w_biglit = [] /\
  dyn_flags fo_exec w_biglit (ints [3]) = [] /\
  spec_z w_biglit (ints [3]) = Some 2 /\
  wres_z (run_raw w_biglit (ints [3])) = Some (true, inl 2).
Proof. exact u64_literal_fixed. Qed.

(* The loop part of the model, on one function: range loop with step, continue in the final
   else of an else-if chain, break, nested condition loop; compiled code and reference
   semantics agree. (Evaluation only: loops are outside the proved fragment.) *)
Example C19_loop_model_example :
  wf w_loop = true /\ loop_free_block (f_body w_loop) = false /\
  spec_z w_loop (ints [10]) = Some 1326 /\
  wres_z (run_raw w_loop (ints [10])) = Some (true, inl 1326).
Proof. exact loop_model_example. Qed.

Example C19_nonvacuous :
  wf w_ok = true /\
  no_flags w_ok (ints [-7; 4000000000]) = true /\
  spec_z w_ok (ints [-7; 4000000000]) = Some 28000000000 /\
  wres_z (run_raw w_ok (ints [-7; 4000000000])) = Some (true, inl 28000000000) /\
  no_flags w_ok (ints [6; 7]) = true /\
  spec_z w_ok (ints [6; 7]) = Some 21 /\
  wres_z (run_raw w_ok (ints [6; 7])) = Some (true, inl 21) /\
  no_flags w_ok (ints [6; 5]) = true /\
  spec_is_err w_ok (ints [6; 5]) = true /\
  wres_z (run_raw w_ok (ints [6; 5])) = Some (true, inr TDivZero).
Proof. exact compile_correct_nonvacuous. Qed.
