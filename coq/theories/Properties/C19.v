(* Properties/C19.v — placeholder while the proofs are being built. *)
From Coq Require Import ZArith List.
From Synnax Require Import Arc.Syntax Arc.Spec Arc.Wasm Arc.Compile Arc.Guard.

Theorem C19_placeholder : forall e, reparse (EParen e) = EParen (reparse e).
Proof. reflexivity. Qed.
Print Assumptions C19_placeholder.
