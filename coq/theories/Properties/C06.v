(* Properties/C06.v — Aspen replicas converge: same operations, any order, same state.
   Only statements, each closed by [exact] (short glue allowed), each followed by Print Assumptions.
   Model: Aspen/KV.v. Proofs: Aspen/KVJoin.v (one node), Aspen/KVInv.v (cluster LTS),
   Aspen/KVQuiesce.v (quiescence), Aspen/KVWitness.v (refutations by concrete runs). *)
From stdpp Require Import gmap.
From Coq Require Import NArith ZArith Lia.
From Synnax Require Import Aspen.KV Aspen.KVJoin Aspen.KVInv Aspen.KVQuiesce Aspen.KVWitness.
From Synnax Require Aspen.KV Aspen.VersionSrc.
Local Open Scope N_scope.

(* (1) The rule every node applies: [supersedes] is the strict lexicographic order on
   (version, leaseholder) — higher version wins, equal versions go to the higher leaseholder;
   irreflexive, transitive, total up to equal (version, leaseholder); no digest accepts anything. *)
Theorem C06_supersedes_strict_total_order :
  (forall d o, supersedes (Some d) o = true <-> op_lt d o) /\
  (forall o, supersedes None o = true) /\
  (forall a, ~ op_lt a a) /\
  (forall a b c, op_lt a b -> op_lt b c -> op_lt a c) /\
  (forall a b, op_lt a b \/ (o_ver a = o_ver b /\ o_lh a = o_lh b) \/ op_lt b a).
Proof.
  split; [exact supersedes_some|]. split; [exact supersedes_none|]. split; [exact op_lt_irrefl|].
  split; [exact op_lt_trans|exact op_lt_total].
Qed.
Print Assumptions C06_supersedes_strict_total_order.

(* (2) Ingestion resolves by that rule: after any batch the entry of a key is one of the candidates
   (the previous entry or a delivered operation of that key) and is at least as new as all of them. *)
Theorem C06_entry_is_lww_maximum : forall e l k m,
  ingest_eng e l !! k = Some m ->
  (e !! k = Some m \/ (In m l /\ o_key m = k)) /\
  (forall o, In o l -> o_key o = k -> op_le o m) /\
  (forall d, e !! k = Some d -> op_le d m).
Proof. exact ingest_is_max. Qed.
Print Assumptions C06_entry_is_lww_maximum.

(* (3) Same set of operations, in any order, with any duplication and any batching => identical
   engine (value, deletion and digest of every key), from any common starting engine. Coherence =
   one (key, version, leaseholder) names one operation. Unbounded in every dimension. *)
Theorem C06_same_set_same_state : forall e (bs1 bs2 : list (list op)),
  keyed e ->
  (forall o, In o (concat bs1) <-> In o (concat bs2)) ->
  coherent (fun o => eng_op e o \/ In o (concat bs1)) ->
  ingest_all e bs1 = ingest_all e bs2.
Proof. intros e bs1 bs2 K S C. rewrite !ingest_all_concat. apply ingest_same_set; assumption. Qed.
Print Assumptions C06_same_set_same_state.

(* batching is irrelevant; redelivery is a no-op (no coherence needed for either) *)
Theorem C06_batching_irrelevant : forall e bs, ingest_all e bs = ingest_eng e (concat bs).
Proof. intros e bs. apply ingest_all_concat. Qed.
Print Assumptions C06_batching_irrelevant.

Theorem C06_redelivery_idempotent : forall e b, ingest_eng (ingest_eng e b) b = ingest_eng e b.
Proof. exact ingest_idempotent. Qed.
Print Assumptions C06_redelivery_idempotent.

(* (4) Ingestion never replaces an applied operation by an older one, and never changes the
   content at an equal (version, leaseholder). *)
Theorem C06_ingest_never_older : forall e b k d,
  e !! k = Some d -> exists d', ingest_eng e b !! k = Some d' /\ (d' = d \/ op_lt d d').
Proof. exact ingest_monotone. Qed.
Print Assumptions C06_ingest_never_older.

(* (5) Interleaving with unconditional applies (the leaseholder path and recovery write without
   consulting the digest): two nodes that went through any two event sequences with the same
   operations end identical PROVIDED every unconditionally written operation was the stored one
   or superseded it at that moment ([forces_ok]). The guard is what (6) establishes. *)
Theorem C06_same_set_with_local_writes_partial : forall e evs1 evs2,
  keyed e -> forces_ok e evs1 -> forces_ok e evs2 ->
  (forall o, In o (concat (map ev_ops evs1)) <-> In o (concat (map ev_ops evs2))) ->
  coherent (fun o => eng_op e o \/ In o (concat (map ev_ops evs1))) ->
  run_events e evs1 = run_events e evs2.
Proof. exact events_same_set. Qed.
Print Assumptions C06_same_set_with_local_writes_partial.

(* (6) Under the single-leaseholder invariant InvU (maintained by every covered step, see (7)):
   the operation DB.Set/Delete makes the leaseholder write supersedes what the leaseholder stores,
   and every operation a back-to-back recovery streams is the stored one or supersedes it. *)
Theorem C06_leaseholder_path_is_join_partial : forall U w n k v lease del nd lh ndl,
  InvU U w ->
  (forall nd, w_nodes w !! n = Some nd -> n_eng nd !! k = None -> fresh_key U k) ->
  w_nodes w !! n = Some nd -> alloc nd n k lease del = inl lh -> w_nodes w !! lh = Some ndl ->
  supersedes (n_eng ndl !! k) (local_op ndl lh k del v) = true.
Proof. intros. eapply local_force_ok; eassumption. Qed.
Print Assumptions C06_leaseholder_path_is_join_partial.

Theorem C06_recovery_is_join_partial : forall U w n p nd ndp k o,
  InvU U w -> w_nodes w !! n = Some nd -> w_nodes w !! p = Some ndp ->
  rec_ops (n_eng ndp) (high_water (n_eng nd)) !! k = Some o ->
  n_eng nd !! k = Some o \/ supersedes (n_eng nd !! k) o = true.
Proof. exact recover_force_ok. Qed.
Print Assumptions C06_recovery_is_join_partial.

(* (7) Never older, over the whole cluster LTS: any number of nodes, any run from the empty
   cluster made of DB.Set/Delete on any node (lease forwarding, lease options), gossip rounds with
   early or late replies, payload snapshots delivered late / duplicated / never, redelivery of any
   batch of existing operations, feedback in any order or lost, restarts, back-to-back recovery,
   subscriptions — with one creator per key and no recovery split from its high-water read
   ([ok_run]). For every split of the run, what a node held after the first part it still holds,
   or holds something strictly newer, after the whole run. Both store variants. *)
Theorem C06_never_older_partial : forall fx T ns l1 l2,
  ok_run fx T no_op (world0 ns) (l1 ++ l2) ->
  world_le (run fx T (world0 ns) l1) (run fx T (world0 ns) (l1 ++ l2)).
Proof. exact never_older. Qed.
Print Assumptions C06_never_older_partial.

(* The full statement (no guard) does not hold in the faithful model — and not in the code:
   never_older_full := forall fx T ns l1 l2, world_le (run .. l1) (run .. (l1 ++ l2)).
   Two creators of one key: the leaseholder path overwrites a newer entry of the other leader. *)
Theorem C06_never_older_leaseholder_path_refuted : ~ never_older_full.
Proof. exact never_older_full_refuted. Qed.
Print Assumptions C06_never_older_leaseholder_path_refuted.

(* one creator per key, recovery applied after gossip moved on (or two peers, as kv.Open runs
   them): the peer's older entry lands on top *)
Theorem C06_never_older_recovery_refuted :
  ~ world_le (run true 1 (world0 [1; 2; 3]) rs_prefix) (run true 1 (world0 [1; 2; 3]) (rs_prefix ++ rs_last)) /\
  entry_at (run true 1 (world0 [1; 2; 3]) rp_prefix) 3 1 = Some (Op 1 2 1 false 11) /\
  entry_at (run true 1 (world0 [1; 2; 3]) (rp_prefix ++ rp_last)) 3 1 = Some (Op 1 1 1 false 10).
Proof. exact recovery_refuted_true. Qed.
Print Assumptions C06_never_older_recovery_refuted.

(* (8) Quiescence. Full statement:
   quiescent_full := forall T ns l, quiescent (run true T (world0 ns) l) ->
                     forall n m k, entry_at (run ..) n k = entry_at (run ..) m k.
   Refuted on three nodes (SIR stops after T+1 redundant feedbacks from any peers) ... *)
Theorem C06_quiescent_three_nodes_refuted : ~ quiescent_full.
Proof. exact quiescent_full_refuted. Qed.
Print Assumptions C06_quiescent_three_nodes_refuted.

(* ... and on two nodes after a restart (the gossip store is in memory only) *)
Theorem C06_quiescent_restart_refuted :
  quiescent (run true 1 (world0 [1; 2]) restart_script) /\
  entry_at (run true 1 (world0 [1; 2]) restart_script) 1 1 = Some (Op 1 1 1 false 10) /\
  entry_at (run true 1 (world0 [1; 2]) restart_script) 2 1 = None.
Proof. exact restart_refutes. Qed.
Print Assumptions C06_quiescent_restart_refuted.

(* With the pinned upstream gossip store (fx = false) it failed even on two nodes without restart:
   finding F5, repaired in /repo; the model's fx = true copies the repaired kvStore.apply. *)
Theorem C06_quiescent_unfixed_store_refuted :
  quiescent (run false 1 (world0 [1; 2]) f5_script) /\
  entry_at (run false 1 (world0 [1; 2]) f5_script) 1 1 = Some (Op 1 2 1 false 11) /\
  entry_at (run false 1 (world0 [1; 2]) f5_script) 2 1 = Some (Op 1 1 1 false 10).
Proof. exact f5_unfixed_refutes. Qed.
Print Assumptions C06_quiescent_unfixed_store_refuted.

(* What holds: two nodes, repaired store, one creator per key, no restart / recovery, payloads
   not delivered to their own sender; feedback delayed, reordered or lost, payloads delayed,
   duplicated or lost, unbounded runs. Whenever no node holds an infected operation the engines are
   identical and each node holds an entry at least as new as every operation the other one ever
   created as leaseholder — every node holds the leaseholder's latest write for each key. *)
Theorem C06_quiescent_two_nodes_partial : forall T A B l,
  A <> B ->
  ok_run true T no_op (world0 [A; B]) l -> q_run T (world0 [A; B]) l ->
  let w := run true T (world0 [A; B]) l in
  quiescent w ->
  forall ndA ndB, w_nodes w !! A = Some ndA -> w_nodes w !! B = Some ndB ->
    n_eng ndA = n_eng ndB /\
    exists U : op -> Prop, (forall o, in_world w o -> U o) /\
      (forall o, U o -> o_lh o = A -> above (n_eng ndB !! o_key o) o) /\
      (forall o, U o -> o_lh o = B -> above (n_eng ndA !! o_key o) o).
Proof. exact quiescent_two_nodes. Qed.
Print Assumptions C06_quiescent_two_nodes_partial.

(* Non-vacuity. (a) a coherent set with an equal-version pair and a delete, delivered in two
   different orders/batchings with a duplicate: same non-trivial engine. (b) the hypotheses of the
   two-node quiescence theorem are met by a 24-step run with an overwrite racing feedback. *)
Definition ex_S : list op :=
  [Op 1 2 4 false 10; Op 1 2 6 true 0; Op 1 1 7 false 3; Op 2 5 4 false 8; Op 2 3 5 true 0].
Example C06_nonvacuous :
  let bs1 := [[Op 1 2 4 false 10; Op 2 3 5 true 0]; [Op 1 2 6 true 0]; [Op 1 1 7 false 3; Op 2 5 4 false 8]] in
  let bs2 := [[Op 2 5 4 false 8]; [Op 1 1 7 false 3; Op 1 2 6 true 0; Op 1 2 4 false 10]; [Op 2 3 5 true 0; Op 1 2 6 true 0]] in
  (forall o, In o (concat bs1) <-> In o (concat bs2)) /\
  bool_decide (ingest_all ∅ bs1 = ingest_all ∅ bs2) = true /\
  ingest_all ∅ bs1 !! 1 = Some (Op 1 2 6 true 0) /\ ingest_all ∅ bs1 !! 2 = Some (Op 2 5 4 false 8) /\
  ok_run true 1 no_op (world0 [1; 2]) f5_script /\ q_run 1 (world0 [1; 2]) f5_script /\
  quiescent (run true 1 (world0 [1; 2]) f5_script) /\
  entry_at (run true 1 (world0 [1; 2]) f5_script) 2 1 = Some (Op 1 2 1 false 11).
Proof.
  split; [intros o; simpl; tauto|].
  split; [vm_compute; reflexivity|]. split; [vm_compute; reflexivity|]. split; [vm_compute; reflexivity|].
  destruct f5_script_covered as (H1 & H2 & H3).
  split; [exact H1|]. split; [exact H2|]. split; [exact H3|]. exact f5_fixed_entry.
Qed.

(* ---- tie to the source by translation: the acceptance rule of the model (KV.supersedes, a copy of
   aspen/internal/kv/filter_persist.go supersedes) uses the version order that translator/go2coq regenerates from
   x/go/version/counter.go on every run (Generated/Src_Version.v). *)
Theorem C06_version_order_from_source : forall d o,
  KV.supersedes (Some d) o =
  if VersionSrc.S.Counter_EqualTo (KV.o_ver o) (KV.o_ver d) then (KV.o_lh d <? KV.o_lh o)%N
  else VersionSrc.S.Counter_NewerThan (KV.o_ver o) (KV.o_ver d).
Proof. exact VersionSrc.supersedes_from_source. Qed.
Print Assumptions C06_version_order_from_source.
