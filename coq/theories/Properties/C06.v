(* Properties/C06.v — Aspen replicas converge. Only statements. *)
From stdpp Require Import gmap.
From Coq Require Import NArith ZArith.
From Synnax Require Import Aspen.KV Aspen.KVJoin.
Local Open Scope N_scope.

Theorem C06_supersedes_irreflexive : forall o, supersedes (Some o) o = false.
Proof. exact supersedes_irrefl. Qed.
Print Assumptions C06_supersedes_irreflexive.
