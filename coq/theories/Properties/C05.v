(* Properties/C05.v — stub, replaced below *)
From Synnax Require Import Cesium.Control.
