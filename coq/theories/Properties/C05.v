(* Properties/C05.v — Exactly one writer controls a channel region: highest authority wins.
   Only statements, each closed by [exact] (or short glue), each followed by Print Assumptions.

   [run true shared init ops] is the state of a cesium control.Controller (exclusive or shared)
   after ANY finite sequence of OpenGate / SetAuthority / Release calls ([true] = OpenGate as in
   /repo, i.e. with the F14 fix).  [cur r] is region.curr, [r_gates r] the open gates of the
   region in open order, [g_pos] the open position, [holder rs rho] the control.State of the
   controller of the region whose resource is rho. *)
From Coq Require Import List NArith ZArith Permutation.
Import ListNotations.
From Synnax Require Import Cesium.Control Cesium.ControlProofs Cesium.ControlMonitor
  Cesium.ControlMonitorProofs.
Local Open Scope N_scope.

(* (1) At every moment the gate in control of a region is an open gate of that region with the
   highest authority, ties broken by the earliest open (smallest position; the list of open
   gates is in strictly increasing position = open order). *)
Theorem C05_leader_inv : forall shared ops r,
  In r (c_regions (run true shared init ops)) ->
  exists l, cur r = Some l /\ In l (r_gates r) /\
    (forall g, In g (r_gates r) ->
       g = l \/ g_auth g < g_auth l \/ (g_auth g = g_auth l /\ g_pos l < g_pos g)) /\
    pos_sorted (r_gates r).
Proof. exact leader_inv. Qed.
Print Assumptions C05_leader_inv.

(* (1b) "Earliest open" is the order of the script: [c_live] is exactly the list of handles whose
   OpenGate succeeded and that were not released since, in order of open ([live_spec] replays
   that bookkeeping from the calls and their results), and the gates of every region are the
   sub-list of it — so a smaller position (1) means an earlier successful open. *)
Theorem C05_gates_in_open_order : forall shared ops,
  let s := run true shared init ops in
  c_live s = live_spec [] ops (outs true shared init ops) /\
  forall r, In r (c_regions s) -> map g_h (r_gates r) = restr (map g_h (r_gates r)) (c_live s).
Proof.
  intros shared ops s. split.
  - exact (run_live shared ops init).
  - exact (gates_in_open_order shared ops).
Qed.
Print Assumptions C05_gates_in_open_order.

(* (2) Go iterates region.gates (a map) in an arbitrary order inside release and update.  Whatever
   permutation each individual call uses, the run is the one computed with list order — so
   every theorem of this file holds for all map iteration orders. *)
Theorem C05_order_independent : forall shared (ops : list (op * (list gate -> list gate))),
  Forall (fun p => forall l, Permutation l (snd p l)) ops ->
  run_gen true shared init ops = run true shared init (map fst ops).
Proof. intros shared ops F. apply run_gen_eq; [exact cinv_init|exact F]. Qed.
Print Assumptions C05_order_independent.

(* (3) Authorize succeeds exactly for the controller (exclusive), or for every gate whose
   authority is at least — hence equal to — the controller's (shared); it hands out the
   region's resource exactly when it succeeds. *)
Theorem C05_authorize_iff : forall shared ops h,
  let s := run true shared init ops in
  In h (c_live s) ->
  exists r g l, In r (c_regions s) /\ In g (r_gates r) /\ g_h g = h /\ cur r = Some l /\
    (fst (authorize shared s h) = true <->
       if shared then g_auth l <= g_auth g else g = l) /\
    (g_auth l <= g_auth g <-> g_auth g = g_auth l) /\
    snd (authorize shared s h) = (if fst (authorize shared s h) then r_res r else 0).
Proof. exact authorize_iff. Qed.
Print Assumptions C05_authorize_iff.

(* (4) Every call returns exactly one transfer.  If the call changed the controller (or the
   controller's authority) of a region, the transfer names exactly the previous and the next
   holder of that region; if it changed nothing the transfer has not "occurred"; and one call
   never changes two regions. *)
Theorem C05_transfer_exact : forall shared ops o,
  let s := run true shared init ops in
  let s' := fst (step true shared s o) in
  let x := out_x (snd (step true shared s o)) in
  (forall rho, holder (c_regions s) rho <> holder (c_regions s') rho ->
     x_from x = holder (c_regions s) rho /\ x_to x = holder (c_regions s') rho) /\
  ((forall rho, holder (c_regions s) rho = holder (c_regions s') rho) -> occurred x = false) /\
  (forall rho1 rho2, holder (c_regions s) rho1 <> holder (c_regions s') rho1 ->
                     holder (c_regions s) rho2 <> holder (c_regions s') rho2 -> rho1 = rho2).
Proof.
  intros shared ops o s s' x.
  apply (transfer_exact shared s o s' (snd (step true shared s o))).
  - apply run_cinv, cinv_init.
  - unfold s'. destruct (step true shared s o); reflexivity.
Qed.
Print Assumptions C05_transfer_exact.

(* (5) Folding the reported transfers, from nothing, reconstructs the current holder of every
   region (and "no holder" for every resource without an open gate). *)
Theorem C05_transfers_reconstruct : forall shared ops rho,
  fold_left apply_xfer (map out_x (outs true shared init ops)) (fun _ => None) rho
  = holder (c_regions (run true shared init ops)) rho.
Proof.
  intros shared ops rho. apply (reconstruct shared ops init (fun _ => None)).
  - exact cinv_init.
  - reflexivity.
Qed.
Print Assumptions C05_transfers_reconstruct.

(* (5b) Writes. In the writer layer over the controller (one write = Authorize, then append) a
   write is persisted exactly when its gate authorizes — by (3): the controlling writer, or on a
   shared channel a writer of equal authority — and is then reported authorized; any other write
   is reported unauthorized and changes neither the stored data nor the control state. *)
Theorem C05_write_iff_authorized : forall shared s w n,
  let r := e2e_step shared s (EWrite w n) in
  e_ctl (fst r) = e_ctl s /\
  (existsb (N.eqb w) (c_live (e_ctl s)) = true /\ fst (authorize shared (e_ctl s) w) = true ->
     e_store (fst r) = e_store s ++ stamps (e_next s) (N.to_nat (N.max n 1)) /\
     snd (fst (snd r)) = 1) /\
  (existsb (N.eqb w) (c_live (e_ctl s)) = false \/ fst (authorize shared (e_ctl s) w) = false ->
     e_store (fst r) = e_store s /\ snd (fst (snd r)) <> 1).
Proof.
  intros shared s w n. unfold e2e_step.
  destruct (existsb (N.eqb w) (c_live (e_ctl s))) eqn:Lv; simpl.
  - destruct (fst (authorize shared (e_ctl s) w)) eqn:Az; simpl.
    + split; auto. split; auto. intros [|]; discriminate.
    + split; auto. split; [intros [_ ?]; discriminate|]. intros _. split; auto. discriminate.
  - split; auto. split; [intros [? _]; discriminate|]. intros _. split; auto. discriminate.
Qed.
Print Assumptions C05_write_iff_authorized.

(* (5c) The decidable monitor [ok_trace] — the statement of this property on what a caller can
   observe (after every call: the returned transfer, Authorize of every open gate with its
   subject/authority/resource, LeadingState), which the check applies to the IMPLEMENTATION —
   accepts every history of the model: clauses (1),(3),(4),(5) in observable form, for all
   histories.  (So the monitor can only reject an implementation that differs from the model.) *)
Theorem C05_monitor_accepts_model : forall shared ops,
  ok_trace shared (MS [] [] []) (combine ops (model_trace true shared init ops)) = true.
Proof. exact monitor_accepts_model. Qed.
Print Assumptions C05_monitor_accepts_model.

(* (6) Schedules: whatever the interleaving of the calls issued by concurrent goroutines, as long
   as each call is one atomic step (in Go: controller.mu / region.RWMutex; that the locks give
   this atomicity is validated by the harness, not proved), the history is one of the sequences
   above — stated here for the leader invariant and the transfer reconstruction. *)
Theorem C05_every_schedule_partial : forall shared (threads : list (list op)) l,
  interleaving threads l ->
  (forall r, In r (c_regions (run true shared init l)) ->
     exists g, cur r = Some g /\ In g (r_gates r) /\
       forall g', In g' (r_gates r) ->
         g' = g \/ g_auth g' < g_auth g \/ (g_auth g' = g_auth g /\ g_pos g < g_pos g')) /\
  (forall rho, fold_left apply_xfer (map out_x (outs true shared init l)) (fun _ => None) rho
               = holder (c_regions (run true shared init l)) rho).
Proof.
  intros shared threads l _. split.
  - intros r Ir. destruct (leader_inv shared l r Ir) as (g & C & Ig & M & _). eauto.
  - intros rho. apply (reconstruct shared l init (fun _ => None)); [exact cinv_init|reflexivity].
Qed.
Print Assumptions C05_every_schedule_partial.

(* The pinned upstream OpenGate ([fixed = false]) does not satisfy (1)/(3): a gate whose range
   spans two regions is opened in the first one, takes control, and the call then fails — the
   controller is a gate nobody holds and the open gate with the highest authority is refused.
   This is finding F14; /repo carries the fix and [fixed = true] copies it. *)
Definition f14_ops : list op :=
  [Open (OCfg 0 1 100 (TR 10 50) false false false);
   Open (OCfg 1 2 100 (TR 100 150) false false false);
   Open (OCfg 2 3 200 (TR 20 120) false false false)].
Theorem C05_upstream_open_refuted :
  let s := run false false init f14_ops in
  exists r, In r (c_regions s) /\ r_curr r = Some 2 /\ existsb (N.eqb 2) (c_live s) = false /\
            has_gate 0 r = true /\ existsb (N.eqb 0) (c_live s) = true /\
            fst (authorize false s 0) = false /\
            out_st (last (outs false false init f14_ops) (Out Ok false X0 0)) = Multi /\
            ok_trace false (MS [] [] [])
                     (combine f14_ops (model_trace false false init f14_ops)) = false.
Proof.
  eexists. split; [left; reflexivity|]. vm_compute. repeat split.
Qed.
Print Assumptions C05_upstream_open_refuted.

(* Non-vacuity: a reachable shared-mode state with two regions, a tie decided by open order, a
   take-over by SetAuthority and a release of the holder; the theorems' hypotheses are met and
   the conclusions are non-trivial. *)
Definition ex_ops : list op :=
  [Open (OCfg 0 1 100 (TR 0 9223372036854775807) false false false);
   Open (OCfg 1 2 100 (TR 10 9223372036854775807) false false false);
   Open (OCfg 2 3 50 (TR 20 9223372036854775807) false false false);
   SetAuth 2 200; Release 2; SetAuth 0 7].
Example C05_nonvacuous :
  let s := run true false init ex_ops in
  map out_x (outs true false init ex_ops) =
    [X None (Some (1, 100, 1)); X0; X0; X (Some (1, 100, 1)) (Some (3, 200, 1));
     X (Some (3, 200, 1)) (Some (1, 100, 1)); X (Some (1, 100, 1)) (Some (2, 100, 1))] /\
  c_live s = [0; 1] /\ holder (c_regions s) 1 = Some (2, 100, 1) /\
  authorize false s 1 = (true, 1) /\ authorize false s 0 = (false, 0) /\
  authorize true s 0 = (false, 0).
Proof. vm_compute. repeat split. Qed.
