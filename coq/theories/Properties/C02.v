(* Properties/C02.v — Cesium survives a crash at any point with consistent, durable data.

   Objects.  One channel directory of cesium (index.domain, counter.domain, <k>.domain,
   meta.json) under the process-crash model of the property: a crash image is the effect of
   a prefix of the sequence of file-system mutations the operations issue (FsLog.apply:
   create / write / write-at / truncate / rename / remove as x/io/fs implements them),
   optionally followed by a proper prefix of the payload of the next write
   (FsLog.crash_image).  Crash.step is the persistence protocol as the Go code issues it
   (data append at Write; index persist = Truncate THEN WriteAt; counter; meta tmp+rename;
   GC copy / rename / rename / remove / one index rewrite; channel delete rename+remove);
   Crash.view_of is what a restart serves from an image: whether the directory exists,
   whether it can be opened (meta.json), and every pointer of the decoded index together
   with the bytes it designates (domain.Open does no validation: floor(len/26) records).
   Histories include I/O faults that do not kill the process (Crash.DWriteFail: a data-file
   Write stores a proper prefix and returns an error — the tracked length still advances by
   what was stored, as x/go/io/tracked.go does; Crash.DCommitTF: the index Truncate of a
   commit returns an error, the pointer stays committed in memory only).
   Histories are arbitrary lists of operations; the arguments the layers above compute
   (commit end stamps, the byte offsets a delete resolves) are universally quantified.

   Crash.legal collects the decidable side conditions under which the theorems are stated
   (operations on an existing directory, representable pointers, a writer's file exists,
   a delete persists from a position before which disk and memory agree, GC and delete
   leave pointers inside their files — C04's subject); the correspondence check evaluates
   it on every generated history.

   Only statements here, each closed by [exact]. *)
From Coq Require Import List NArith ZArith Bool.
From Synnax Require Import Cesium.FsLog Cesium.Crash Cesium.CrashProofs Cesium.CrashInv Cesium.CrashMain.
Import ListNotations.
Local Open Scope Z_scope.

(* (1) Crash atomicity, for all histories, all cut points, all torn lengths — outside the
   three windows (Crash.win_class <> 0: channel directory without meta.json; between a
   length-changing index Truncate and its WriteAt or inside a torn index WriteAt; between
   GC's first file rename and the index rewrite).  The image is indistinguishable, to a
   restart, from the directory right before or right after the operation in progress:
   nothing older than what was on disk before it, nothing that no operation produced. *)
Theorem C02_crash_consistent_partial : forall cap thr h k t,
  legal cap thr h = true ->
  let log := fslog cap thr h in
  (k <= length log)%nat -> torn_ok log k t ->
  win_class (win_image log k t) = 0%nat ->
  adjacent None (snd (fst (run (init cap thr) h))) k (view_of (crash_image None log k t)).
Proof. exact crash_consistent_partial. Qed.
Print Assumptions C02_crash_consistent_partial.

(* the same statement for one operation started from any state that satisfies the
   invariant (what the induction uses; it also shows the directory after the operation is
   exactly the effect of the calls it issued, in that order) *)
Theorem C02_operation_atomic : forall s w o s' es oc,
  Inv s w -> step s o = (s', es, oc) -> legal_step s o s' oc = true ->
  s_fs s' = apply_all (s_fs s) es /\ Inv s' (fold_left win_step es w) /\ cuts_ok (s_fs s) w es /\
  (idx_written es = true -> disk_ptrs (s_fs s') = s_ptrs s').
Proof. intros s w o s' es oc HI. exact (step_all_good s w o HI s' es oc). Qed.
Print Assumptions C02_operation_atomic.

(* (2) Durability: after any history, an operation that rewrote the index leaves on disk
   exactly the in-memory pointer list, a restart loads exactly that list, and every pointer
   designates bytes that are there. *)
Theorem C02_persisted_is_durable : forall cap thr h o s' es oc,
  legal cap thr h = true ->
  let s := fst (fst (run (init cap thr) h)) in
  step s o = (s', es, oc) -> legal_step s o s' oc = true ->
  idx_written es = true ->
  disk_ptrs (s_fs s') = s_ptrs s' /\
  s_ptrs (recover cap thr (s_fs s')) = s_ptrs s' /\
  forall p, In p (s_ptrs s') -> read_d (s_fs s') p <> None.
Proof. exact persisted_is_durable. Qed.
Print Assumptions C02_persisted_is_durable.

(* which operations those are: a successful commit of pending bytes by a writer that is not
   lazily persisted (always-persist auto-commit, or an explicit commit) ... *)
Theorem C02_commit_rewrites_index : forall s wid e hint s' es x,
  step s (DCommit wid e hint) = (s', es, ROk) ->
  assoc (s_ws s) wid = Some x -> w_mode x <> MLazy -> w_len x <> 0%N ->
  idx_written es = true.
Proof. exact commit_rewrites_index. Qed.
Print Assumptions C02_commit_rewrites_index.

(* ... and closing a lazily persisted writer *)
Theorem C02_lazy_close_rewrites_index : forall s wid s' es oc x,
  step s (DCloseW wid) = (s', es, oc) ->
  assoc (s_ws s) wid = Some x -> w_mode x = MLazy ->
  idx_written es = true.
Proof. exact lazy_close_rewrites_index. Qed.
Print Assumptions C02_lazy_close_rewrites_index.

(* (3) The index rewrite itself: Truncate(26*|P|) then WriteAt(26*sd, encode P[sd:]) over a
   file whose first 26*sd bytes encode P[:sd] leaves encode P, and the 26-byte record
   round-trips every representable pointer (layout regenerated from the Go source). *)
Theorem C02_index_rewrite : forall ib P sd,
  (sd <= length P)%nat ->
  firstn (26 * sd) ib = encode_ptrs (firstn sd P) ->
  write_at (trunc_to ib (26 * length P)) (26 * sd) (encode_ptrs (skipn sd P)) = encode_ptrs P.
Proof. exact index_rewrite. Qed.
Print Assumptions C02_index_rewrite.

Theorem C02_pointer_codec_roundtrip : forall l, forallb wf_ptr l = true -> decode_ptrs (encode_ptrs l) = l.
Proof. exact decode_encode. Qed.
Print Assumptions C02_pointer_codec_roundtrip.

(* (4) The full statement (no window guard) is FALSE of the faithful model; each window
   has a witness, replayed on the implementation by the check (known findings F2, F47,
   F48, F49). *)
Theorem C02_truncate_gap_refuted :
  let log := fslog wit_cap 0 h_gap in
  let img := crash_image None log 13 0 in
  legal wit_cap 0 h_gap = true /\
  win_class (win_image log 13 0) = 2%nat /\
  alien_pointer wit_cap 0 h_gap img zero_ptr = true /\
  let r := recover wit_cap 0 img in
  seek_found r 12 = Some (10, 13) /\
  let '(r2, _, ocs) := run r later_write in
  ocs = [ROk; ROk; ROk; ROk] /\
  seek_found r2 12 = None /\
  snd (usearch (s_ptrs r2) (span0 12)) = false.
Proof. exact truncate_gap_refuted. Qed.
Print Assumptions C02_truncate_gap_refuted.

Theorem C02_torn_index_refuted :
  let log := fslog wit_cap 0 h_gap in
  let img := crash_image None log 13 30 in
  win_class (win_image log 13 30) = 3%nat /\
  alien_pointer wit_cap 0 h_gap img (mkPtr 30 0 0 0 0) = true.
Proof. exact torn_index_refuted. Qed.
Print Assumptions C02_torn_index_refuted.

Theorem C02_meta_window_refuted :
  let log := fslog wit_cap 0 h_gap in
  forallb (fun k =>
     let img := crash_image None log k 0 in
     Nat.eqb (win_class (win_image log k 0)) 1 &&
     match view_of img with Some v => negb (v_meta v) | None => false end) [1; 2; 3]%nat = true /\
  forallb (fun j => match view_of (boundary wit_cap 0 h_gap j) with
                    | Some v => v_meta v | None => true end) (seq 0 9) = true.
Proof. exact meta_window_refuted. Qed.
Print Assumptions C02_meta_window_refuted.

Theorem C02_gc_window_refuted :
  let log := fslog wit_cap 0 h_gc in
  legal wit_cap 0 h_gc = true /\
  forallb (fun k => Nat.eqb (win_class (win_image log k 0)) 4 && unreadable (crash_image None log k 0))
          [16; 17; 18; 19]%nat = true /\
  forallb (fun j => negb (unreadable (boundary wit_cap 0 h_gc j))) (seq 0 9) = true.
Proof. exact gc_window_refuted. Qed.
Print Assumptions C02_gc_window_refuted.

(* Non-vacuity: a legal history whose log has cut points of every kind; 10 of its 15 plain
   cuts and 51 of all its crash points (torn variants included) lie outside the windows,
   e.g. a data append torn after 5 bytes shows the directory as it was before the write. *)
Example C02_partial_nonvacuous :
  let log := fslog wit_cap 0 h_gap in
  legal wit_cap 0 h_gap = true /\
  length (filter (outside log) (map (fun k => (k, 0%nat)) (seq 0 15))) = 10%nat /\
  length (filter (outside log) (crash_points log)) = 51%nat /\
  outside log (8%nat, 5%nat) = true /\
  view_of (crash_image None log 8 5) = view_of (boundary wit_cap 0 h_gap 2).
Proof. exact partial_nonvacuous. Qed.
