(* Properties/C02.v — Cesium survives a crash at any point with consistent, durable data. *)
From Coq Require Import List NArith ZArith Bool.
From Synnax Require Import Cesium.FsLog Cesium.Crash Cesium.CrashProofs.
Import ListNotations.

Theorem C02_log_compositional : forall l1 l2 s, apply_all s (l1 ++ l2) = apply_all (apply_all s l1) l2.
Proof. exact apply_all_app. Qed.
Print Assumptions C02_log_compositional.
