(* Properties/C04.v — Time-range deletes remove exactly the range; GC is invisible to readers.
   Only statements, each closed by [exact] (short glue allowed), each followed by
   Print Assumptions.  Model: Cesium/DeleteModel.v + GCModel.v (and the Distance / Stamp / Store
   models they import), with [fx = true] = the code of /repo (after the C04 fix commits) and
   [fx = false] = the pinned upstream code.  Proofs: Cesium/DeleteBase, DeleteSearch,
   DeleteDistance, DeleteOffsets, DeleteContent, DeleteExact, ReadExact, DeleteDB, GCProofs.

   Vocabulary.  [allst P] is the sorted list of all stamps of the index channel whose domains
   are [P]; [content G c] lists every stored sample of channel [c] with its stamp;
   [chan_ok G c] is the storage invariant of one channel (pointers sorted, disjoint, non-empty,
   addressing whole samples of their files, aligned with the index: as many samples as index
   stamps in the pointer's time range); [db_ok d] says it of every channel of [d] relative to
   its index channel.  [read_res] is DB.Read with the iterator's error exposed
   ([read] returns the empty frame when an index look-up of the iterator fails). *)
From Coq Require Import ZArith List Bool.
From Synnax Require Import Cesium.Store Cesium.IndexSearch Cesium.Distance Cesium.Stamp
  Cesium.DeleteModel Cesium.GCModel Cesium.DeleteBase Cesium.DeleteSearch Cesium.DeleteDistance
  Cesium.DeleteOffsets Cesium.DeleteContent Cesium.DeleteExact Cesium.ReadExact Cesium.DeleteDB
  Cesium.GCProofs Cesium.DeleteCheck Cesium.DeleteRefuted Cesium.DeleteInv Cesium.DeleteIndex
  Cesium.ReadSuccess Cesium.ReadDB.
From Synnax Require Common.Telem Common.TelemSrc.
Import ListNotations.
Local Open Scope Z_scope.

(* ================================================================== deletes *)

(* (1) Delete offsets snap to sample boundaries, in each approximation case.  For a pointer
   [p] aligned with the index and a target [a] inside it, whenever calculateStartOffset
   succeeds it returns the byte offset of sample number k = #{index stamps in [start(p), a)}
   (so exactly the samples stamped before [a] are kept), and a snapped stamp [a'] <= [a] that
   separates the same index stamps as [a] does and lies after the domain start if anything is
   kept.  All four exact/inexact combinations of Distance are covered by the one statement. *)
Theorem C04_start_offset_snaps : forall P c l1 p l2 a bo a',
  widx P -> wf_chan c -> dens_ok c -> c_ptrs c = l1 ++ p :: l2 ->
  0 <= t_s (p_tr p) < MAXTS ->
  zlen (ptr_samples c p) = cnt_lt (t_e (p_tr p)) (allst P) - cnt_lt (t_s (p_tr p)) (allst P) ->
  t_s (p_tr p) <= a < t_e (p_tr p) ->
  calc_start_offset true P c (t_s (p_tr p)) a = Ok (bo, a') ->
  let k := cnt_lt a (allst P) - cnt_lt (t_s (p_tr p)) (allst P) in
  0 <= k <= zlen (ptr_samples c p) /\
  bo = bytes_of (firstn (Z.to_nat k) (ptr_samples c p)) /\
  cnt_lt a' (allst P) = cnt_lt a (allst P) /\ a' <= a /\ (0 < k -> t_s (p_tr p) < a').
Proof. intros. eapply calc_start_ok; eauto. Qed.
Print Assumptions C04_start_offset_snaps.

(* ... and calculateEndOffset returns the byte offset of the first sample stamped at or after
   [b], and, if a sample is kept, a snapped stamp [b'] >= [b] inside the pointer that separates
   the same index stamps as [b]. *)
Theorem C04_end_offset_snaps : forall P c l1 p l2 b bo b',
  widx P -> wf_chan c -> dens_ok c -> c_ptrs c = l1 ++ p :: l2 ->
  0 <= t_s (p_tr p) < MAXTS ->
  zlen (ptr_samples c p) = cnt_lt (t_e (p_tr p)) (allst P) - cnt_lt (t_s (p_tr p)) (allst P) ->
  t_s (p_tr p) <= b < t_e (p_tr p) ->
  calc_end_offset true P c (t_s (p_tr p)) b = Ok (bo, b') ->
  let k := cnt_lt b (allst P) - cnt_lt (t_s (p_tr p)) (allst P) in
  0 <= k <= zlen (ptr_samples c p) /\
  bo = bytes_of (firstn (Z.to_nat k) (ptr_samples c p)) /\
  (k < zlen (ptr_samples c p) ->
     cnt_lt b' (allst P) = cnt_lt b (allst P) /\ b <= b' < t_e (p_tr p)).
Proof. intros. eapply calc_end_ok; eauto. Qed.
Print Assumptions C04_end_offset_snaps.

(* The interface these rest on: what Distance and Stamp return when they succeed, over any
   well-formed index, whichever return site produced the value. *)
Theorem C04_distance_counts : forall P ds te a,
  widx P -> ds < te -> distance P (TR ds te) true = Ok a ->
  let k := cnt_lt te (allst P) - cnt_lt ds (allst P) in
  da_hi a = k + (if da_se a then 0 else 1) /\ da_lo a = k - (if da_ee a then 0 else 1) /\
  da_se a = zmem ds (allst P).
Proof. intros P ds te a Hw Hlt Hd. destruct (distance_ok P ds te a Hw Hlt Hd) as (A & B & C & _). auto. Qed.
Print Assumptions C04_distance_counts.

Theorem C04_stamp_selects : forall P ref off st,
  widx P -> 0 <= ref < MAXTS -> 0 <= off -> stamp P ref off true = Ok st ->
  znth (allst P) (cnt_lt ref (allst P) + off) = Some (s_hi st) /\
  (zmem ref (allst P) = true -> s_lo st = s_hi st).
Proof. exact stamp_ok. Qed.
Print Assumptions C04_stamp_selects.

(* (2) One channel.  domain.DB.Delete with those resolvers, for ANY bounds a <= b (aligned or
   not, inside domains or in gaps, spanning zero, one or many domains), on ANY channel state
   satisfying the invariant: if it succeeds, the content afterwards is the content before
   minus exactly the samples stamped in [a,b), and the invariant holds again — so the
   statement applies to every later delete (repeated, nested, overlapping).  Every pointer
   of the new state addresses the samples of an old pointer that belong to its own, narrower
   time range ([refines_ptr]). *)
Theorem C04_delete_exact_one_channel : forall P c a b c',
  widx P -> chan_ok (allst P) c -> a <= b ->
  dom_delete true P c (TR a b) = Ok c' ->
  chan_ok (allst P) c' /\
  content (allst P) c' = filter (outside_ab a b) (content (allst P) c) /\
  Forall (refines_ptr (allst P) c) (c_ptrs c').
Proof. exact dom_delete_exact. Qed.
Print Assumptions C04_delete_exact_one_channel.

(* (3) Reads see exactly the content: when the index look-ups of the read succeed, the series
   returned for [rs, re), paired with the index stamps of their time ranges, are the stored
   (stamp, sample) pairs stamped inside [rs, re). *)
Theorem C04_read_is_content : forall d k rs re l,
  db_ok d -> 0 <= rs < re -> re <= MAXTS -> read_res d k (TR rs re) = Ok l ->
  read_content (stamps_of_db d k) l = filter (inside_r rs re) (content_of d k).
Proof. exact read_res_content. Qed.
Print Assumptions C04_read_is_content.

(* (4) The database.  DeleteTimeRange naming ANY set of channels (data channels are deleted
   first, then index channels, each behind its guard): if it succeeds the database invariant is
   kept, every named channel loses exactly the samples stamped in [a,b), and every other
   channel keeps its content.  For an index channel this includes that the remaining stamps are
   a well-formed index again and that every channel it indexes stays aligned with it. *)
Theorem C04_delete_exact : forall d chs a b d',
  db_ok d -> delete_time_range true d chs (TR a b) = (d', None) ->
  db_ok d' /\
  (forall k, content_of d' k = if existsb (Z.eqb k) chs then filter (outside_ab a b) (content_of d k)
                               else content_of d k).
Proof. exact delete_exact_general. Qed.
Print Assumptions C04_delete_exact.

(* ... stated on reads of arbitrary ranges: whenever the reads before and after succeed, the
   (stamp, sample) pairs read after the deletion are those read before minus the pairs stamped
   in [a,b) for a named channel, and the same pairs for any other channel. *)
Theorem C04_reads_after_delete : forall d chs a b d' k rs re l l',
  db_ok d -> delete_time_range true d chs (TR a b) = (d', None) ->
  0 <= rs < re -> re <= MAXTS ->
  read_res d k (TR rs re) = Ok l -> read_res d' k (TR rs re) = Ok l' ->
  read_content (stamps_of_db d' k) l' =
  if existsb (Z.eqb k) chs then filter (outside_ab a b) (read_content (stamps_of_db d k) l)
  else read_content (stamps_of_db d k) l.
Proof. exact reads_after_delete_general. Qed.
Print Assumptions C04_reads_after_delete.

(* Deleting from an index channel, seen from the channel: the stamps that remain are the old
   ones outside [a,b), they form a well-formed index, and the channel is aligned with itself. *)
Theorem C04_index_channel_delete : forall c c' a b,
  widx (doms c) -> chan_ok (allst (doms c)) c -> a <= b ->
  dom_delete true (doms c) c (TR a b) = Ok c' ->
  widx (doms c') /\ chan_ok (allst (doms c')) c' /\
  content (allst (doms c')) c' = filter (outside_ab a b) (content (allst (doms c)) c) /\
  allst (doms c') = filter (keep_ab a b) (allst (doms c)).
Proof. exact idx_delete_self. Qed.
Print Assumptions C04_index_channel_delete.

(* (4') Without any success hypothesis.  [db_cov d]: every pointer's time range is covered by
   a chain of immediately contiguous domains of its index channel.  Then Distance succeeds
   for every look-up of a read (C04_distance_succeeds), so DB.Read returns exactly the stored
   samples of the requested range ... *)
Theorem C04_distance_succeeds : forall P ds te,
  widx P -> ds < te -> covered P ds te -> exists a, distance P (TR ds te) true = Ok a.
Proof. exact distance_succeeds. Qed.
Print Assumptions C04_distance_succeeds.

Theorem C04_read_exact : forall d k rs re,
  db_ok d -> db_cov d -> 0 <= rs < re -> re <= MAXTS ->
  read_content (stamps_of_db d k) (read d k (TR rs re)) = filter (inside_r rs re) (content_of d k).
Proof. exact read_exact. Qed.
Print Assumptions C04_read_exact.

(* ... and a successful DeleteTimeRange over data channels keeps the invariant and the
   coverage, and what DB.Read returns afterwards, for every channel and every range, is what
   it returned before minus the samples stamped in [a,b) if the channel was named, and exactly
   what it returned before otherwise. *)
Theorem C04_reads_after_data_delete : forall d chs a b d' k rs re,
  db_ok d -> db_cov d -> (forall k, In k chs -> is_data d k) ->
  delete_time_range true d chs (TR a b) = (d', None) ->
  0 <= rs < re -> re <= MAXTS ->
  db_ok d' /\ db_cov d' /\
  read_content (stamps_of_db d' k) (read d' k (TR rs re)) =
  if existsb (Z.eqb k) chs then filter (outside_ab a b) (read_content (stamps_of_db d k) (read d k (TR rs re)))
  else read_content (stamps_of_db d k) (read d k (TR rs re)).
Proof. exact reads_after_data_delete. Qed.
Print Assumptions C04_reads_after_data_delete.

(* GC and reopen keep the coverage as well. *)
Theorem C04_gc_reopen_keep_coverage : forall g d,
  db_ok d -> NoDup (map fst d) -> db_cov d -> db_cov (gc_db g d) /\ db_cov (reopen_db d).
Proof. intros g d Hok Hnd Hc. split; [apply gc_keeps_cov; assumption|apply reopen_keeps_cov; exact Hc]. Qed.
Print Assumptions C04_gc_reopen_keep_coverage.

(* (5) Channels that are not named are never modified — whatever the bounds, whether the
   call succeeds, fails half-way (earlier channels stay deleted) or is refused. *)
Theorem C04_unnamed_channels_untouched : forall fx d chs t d' e k,
  delete_time_range fx d chs t = (d', e) -> ~ In k chs -> alookup k d' = alookup k d.
Proof. exact delete_frame. Qed.
Print Assumptions C04_unnamed_channels_untouched.

(* (6) The index-channel guard: the deletion on index channel [k] is refused, and nothing
   more is changed, exactly when some other channel indexed by [k] "has data for" the range
   (domain-level test of the implementation) ... *)
Theorem C04_index_guard : forall fx d k r t,
  delete_index fx d (k :: r) t =
  if dependants_have_data d k t then (d, Some EConflict)
  else match delete_one fx d k t with
       | Ok d' => delete_index fx d' r t
       | Err e => (d, Some e)
       end.
Proof. exact index_guard. Qed.
Print Assumptions C04_index_guard.

(* ... which covers the property's reading: a dependant that still has a SAMPLE stamped in
   [a,b) makes the index channel's deletion fail and leaves the database as it was. *)
Theorem C04_index_guard_on_samples : forall d k k' c' a b ts s r fx,
  db_ok d -> alookup k' d = Some c' -> k' <> k -> c_index c' = k -> a < b ->
  In (ts, s) (content_of d k') -> a <= ts < b ->
  delete_index fx d (k :: r) (TR a b) = (d, Some EConflict).
Proof. exact index_guard_on_samples. Qed.
Print Assumptions C04_index_guard_on_samples.

(* ================================================================== garbage collection *)

(* Whenever it runs, at any threshold and file-size configuration [g], on any database whose
   channels satisfy the storage invariant, a GC pass changes no read of any channel over any
   range, and re-establishes the invariant (so the statement applies again after it). *)
Theorem C04_gc_invisible : forall g d, wf_db d ->
  (forall k b, read (gc_db g d) k b = read d k b) /\ wf_db (gc_db g d).
Proof.
  intros g d H. split; [intros; apply gc_invisible; exact H|apply gc_db_equiv; exact H].
Qed.
Print Assumptions C04_gc_invisible.

(* What GC keeps, stated on the storage itself: every pointer keeps its time range, its size
   and the very samples it addressed (only file contents and offsets move). *)
Theorem C04_gc_keeps_every_pointer : forall g c, wf_chan c ->
  cview (gc_chan g c) = cview c /\ wf_chan (gc_chan g c).
Proof. exact gc_chan_view. Qed.
Print Assumptions C04_gc_keeps_every_pointer.

(* Core lemma behind the offset remapping: in the delta map built from a sorted pointer list
   the only key whose range contains the range of pointer [p] is [p]'s own, so the lookup
   result does not depend on the order in which the (Go) map is iterated: it is [p]'s own
   delta if [p] moved and "absent" otherwise. *)
Theorem C04_gc_delta_lookup_unique : forall c a p b,
  (forall q, In q (a ++ b) -> contains_range (p_tr q) (p_tr p) = false) ->
  resolve_delta (p_tr p) (snd (gc_copy c (a ++ p :: b) [] [] 0)) =
  if sum_sizes a =? p_off p then None else Some (p_off p - sum_sizes a).
Proof. exact gc_resolve_unique. Qed.
Print Assumptions C04_gc_delta_lookup_unique.

Theorem C04_gc_delta_keys_disjoint : forall l1 p l2 q,
  sorted_ptrs (l1 ++ p :: l2) -> In q (l1 ++ l2) -> contains_range (p_tr q) (p_tr p) = false.
Proof. exact sorted_split_not_contains. Qed.
Print Assumptions C04_gc_delta_keys_disjoint.

(* GC and reopen keep the full database invariant too (alignment with the index included),
   so every delete theorem above applies again after any number of GC passes and reopens;
   together with (4) this is one step of the induction over histories. *)
Theorem C04_gc_keeps_invariant : forall g d,
  db_ok d -> NoDup (map fst d) ->
  (forall k b, read (gc_db g d) k b = read d k b) /\
  db_ok (gc_db g d) /\ NoDup (map fst (gc_db g d)).
Proof.
  intros g d Hok Hnd. split; [|apply gc_db_ok; assumption].
  intros. apply gc_invisible. apply db_ok_wf; assumption.
Qed.
Print Assumptions C04_gc_keeps_invariant.

Theorem C04_step_keeps_invariant : forall g d o d',
  db_ok d -> NoDup (map fst d) -> in_scope o -> step true g d o = (d', None) ->
  db_ok d' /\ NoDup (map fst d').
Proof. exact step_keeps_invariant. Qed.
Print Assumptions C04_step_keeps_invariant.

(* ... and the induction: along any history of successful deletes (arbitrary channels and
   bounds), GC passes (any threshold) and reopens, started in a state satisfying the invariant,
   the invariant holds at the end — hence at every point, so (3), (4) and the GC theorems
   apply to every delete, GC and read of the history. *)
Theorem C04_history_keeps_invariant : forall g ops d,
  db_ok d -> NoDup (map fst d) -> run_ok g d ops ->
  db_ok (run true g d ops) /\ NoDup (map fst (run true g d ops)).
Proof. exact history_keeps_invariant. Qed.
Print Assumptions C04_history_keeps_invariant.

(* ================================================================== reopen *)
Theorem C04_reopen_invisible : forall d,
  (forall k b, read (reopen_db d) k b = read d k b) /\ (wf_db d -> wf_db (reopen_db d)) /\
  (db_ok d -> NoDup (map fst d) -> db_ok (reopen_db d)).
Proof.
  intros d. split; [intros; apply reopen_invisible|]. split; [apply reopen_db_equiv|].
  intros. apply reopen_db_ok; assumption.
Qed.
Print Assumptions C04_reopen_invisible.

(* Reads are a function of what the pointers address (time range, size, samples) and of the
   channel's static description only — never of file keys, offsets or the writer pool. *)
Theorem C04_reads_see_views_only : forall d d' k b, db_equiv d d' -> read d k b = read d' k b.
Proof. exact read_equiv. Qed.
Print Assumptions C04_reads_see_views_only.

(* The invariant is decidable, and the check is sound: this is what the correspondence
   evaluates on every state the model reaches along every generated history (writes included),
   so the hypotheses [db_ok] / [wf_db] above are validated on every run. *)
Theorem C04_invariant_check_sound : forall d,
  (db_okb d = true -> db_ok d) /\ (db_covb d = true -> db_cov d).
Proof. intros d. split; [apply db_okb_ok|apply db_covb_ok]. Qed.
Print Assumptions C04_invariant_check_sound.

(* ================================================================== the pinned code *)
(* The model of the pinned upstream code (fx = false) does NOT satisfy the property; one
   witness per finding, replayed on the implementation (corpus/C04/f3*.json), next to what
   the model of /repo (fx = true, after the fix commits c5765f9 and 2a15dcc) does. *)

(* F30: a successful DeleteTimeRange [1025,2000) leaves the samples stamped 1025 and 1035. *)
Theorem C04_pinned_delete_skipped_refuted :
  fst (after false (d30 false) [2] 1025 2000) = None /\
  vals_of (read (snd (after false (d30 false) [2] 1025 2000)) 2 whole) =
    [(1005, 1036, [11; 12; 13; 14]); (2000, 2011, [21; 22])].
Proof. exact f30_pinned. Qed.
Print Assumptions C04_pinned_delete_skipped_refuted.

(* F31: after DeleteTimeRange [2011,2021) the sample stamped 2030 (outside the range) is no
   longer returned by a read of [2021,2040). *)
Theorem C04_pinned_end_snap_refuted :
  fst (after false (d31 false) [2] 2011 2021) = None /\
  vals_of (read (snd (after false (d31 false) [2] 2011 2021)) 2 (TR 2021 2040)) = [] /\
  vals_of (read (d31 false) 2 (TR 2021 2040)) = [(2021, 2031, [14])].
Proof. exact f31_pinned. Qed.
Print Assumptions C04_pinned_end_snap_refuted.

(* F32: after DeleteTimeRange [110,115) the sample stamped 100 (outside the range) is gone. *)
Theorem C04_pinned_start_snap_refuted :
  fst (after false (d32 false) [2] 110 115) = None /\
  vals_of (read (snd (after false (d32 false) [2] 110 115)) 2 whole) = [(110, 131, [13; 14])].
Proof. exact f32_pinned. Qed.
Print Assumptions C04_pinned_start_snap_refuted.

(* F33 / F34: well-formed deletions that the pinned code refuses with a discontinuity error. *)
Theorem C04_pinned_spurious_refusals_refuted :
  fst (after false (d32 false) [2] 100 105) = Some EDisc /\
  fst (after false (d34 false) [2; 1] 100 121) = Some EDisc.
Proof. split; [exact f33_pinned|exact f34_pinned]. Qed.
Print Assumptions C04_pinned_spurious_refusals_refuted.

(* ================================================================== non-vacuity *)
(* A reachable database (two contiguous index domains, an int64 data channel written with
   them) that satisfies the invariant; a deletion with non-aligned bounds that splits a domain
   satisfies every hypothesis of C04_delete_exact / C04_reads_after_delete and is not trivial;
   a GC pass at threshold 0 then rewrites the data file (it shrinks) and changes no read. *)
Definition ex_d : db :=
  run true wit_g (init_db wit_chans)
      [wit_w 995 [1000; 1010; 1020; 1030] [11; 12; 13; 14]; wit_w 1031 [1040; 1050] [15; 16]].
Definition ex_d' : db := snd (after true ex_d [2] 1012 1045).
Definition ex_g0 : gcfg := GCfg 1 0.
Definition ex_d'' : db := gc_db ex_g0 (reopen_db ex_d').

Example C04_nonvacuous :
  db_okb ex_d = true /\ db_covb ex_d = true /\
  fst (after true ex_d [2] 1012 1045) = None /\
  vals_of (read ex_d 2 whole) = [(995, 1031, [11; 12; 13; 14]); (1031, 1051, [15; 16])] /\
  vals_of (read ex_d' 2 whole) = [(995, 1011, [11; 12]); (1050, 1051, [16])] /\
  db_okb ex_d' = true /\
  match alookup 2 ex_d', alookup 2 ex_d'' with
  | Some c, Some c'' => file_size c'' 1 < file_size c 1
  | _, _ => False
  end /\
  vals_of (read ex_d'' 2 whole) = vals_of (read ex_d' 2 whole) /\
  vals_of (read ex_d'' 2 (TR 1005 1050)) = [(1005, 1011, [12])].
Proof.
  vm_compute. repeat split; reflexivity.
Qed.

(* ---- tie to the source by translation: the interval algebra (x/go/telem TimeRange / TimeStamp, x/go/clamp) that the
   cesium models are written over (Common/Telem.v) is EQUAL to the Gallina that translator/go2coq regenerates from
   the Go source on every run (Generated/Src_Telem.v; proofs in Common/TelemSrc.v). *)
Theorem C04_interval_algebra_from_source :
  (forall tr ts, TelemSrc.S.TimeRange_ContainsStamp (TelemSrc.src tr) ts = Telem.contains_stamp tr ts) /\
  (forall tr rng, TelemSrc.S.TimeRange_ContainsRange (TelemSrc.src tr) (TelemSrc.src rng) = Telem.contains_range tr rng) /\
  (forall tr rng, TelemSrc.S.TimeRange_OverlapsWith (TelemSrc.src tr) (TelemSrc.src rng) = Telem.overlaps_with tr rng) /\
  (forall tr b, TelemSrc.S.TimeRange_BoundBy (TelemSrc.src tr) (TelemSrc.src b) = TelemSrc.src (Telem.bound_by tr b)) /\
  (forall tr, TelemSrc.S.TimeRange_MakeValid (TelemSrc.src tr) = TelemSrc.src (Telem.tr_make_valid tr)) /\
  (forall tr, TelemSrc.S.TimeRange_Span (TelemSrc.src tr) = Telem.tr_span tr) /\
  (forall tr rng, TelemSrc.S.TimeRange_Intersection (TelemSrc.src tr) (TelemSrc.src rng) =
                  TelemSrc.src (Telem.tr_intersection tr rng)) /\
  (forall tr o, TelemSrc.S.TimeRange_Union (TelemSrc.src tr) (TelemSrc.src o) = TelemSrc.src (Telem.tr_union tr o)) /\
  (forall ts span, TelemSrc.int64 ts -> TelemSrc.int64 span ->
                   TelemSrc.S.TimeStamp_SpanRange ts span = TelemSrc.src (Telem.ts_span_range ts span)) /\
  (TelemSrc.S.TimeStampMin = Telem.ts_min /\ TelemSrc.S.TimeStampMax = Telem.ts_max).
Proof. exact TelemSrc.telem_from_source. Qed.
Print Assumptions C04_interval_algebra_from_source.
