(* Properties/C04.v — placeholder while the proofs are being built. *)
From Coq Require Import ZArith List.
From Synnax Require Import Cesium.Store Cesium.DeleteModel Cesium.GCModel.

Theorem C04_reopen_keeps_pointers : forall c, c_ptrs (reopen_chan c) = c_ptrs c.
Proof. reflexivity. Qed.
Print Assumptions C04_reopen_keeps_pointers.
