(* Properties/C04.v — Time-range deletes remove exactly the range; GC is invisible to readers.
   Only statements, each closed by [exact] (short glue allowed), each followed by
   Print Assumptions.  Model: Cesium/DeleteModel.v + GCModel.v (+ the Distance/Stamp/Store
   models they import); proofs: Cesium/DeleteBase.v, GCProofs.v. *)
From Coq Require Import ZArith List Bool.
From Synnax Require Import Cesium.Store Cesium.DeleteModel Cesium.GCModel Cesium.DeleteBase
  Cesium.GCProofs.
Import ListNotations.
Local Open Scope Z_scope.

(* ---- garbage collection ---- *)

(* Whenever it runs, at any threshold and file-size configuration [g], on any database whose
   channels satisfy the storage invariant, a GC pass changes no read of any channel over any
   range, and re-establishes the invariant (so the statement applies again after it). *)
Theorem C04_gc_invisible : forall g d, wf_db d ->
  (forall k b, read (gc_db g d) k b = read d k b) /\ wf_db (gc_db g d).
Proof.
  intros g d H. split; [intros; apply gc_invisible; exact H|apply gc_db_equiv; exact H].
Qed.
Print Assumptions C04_gc_invisible.

(* What GC keeps, stated on the storage itself: every pointer keeps its time range, its size
   and the very samples it addressed (only file contents and offsets move). *)
Theorem C04_gc_keeps_every_pointer : forall g c, wf_chan c ->
  cview (gc_chan g c) = cview c /\ wf_chan (gc_chan g c).
Proof. exact gc_chan_view. Qed.
Print Assumptions C04_gc_keeps_every_pointer.

(* Core lemma behind the offset remapping: in the delta map built from a sorted pointer list
   the only key whose range contains the range of pointer [p] is [p]'s own, so the lookup
   result does not depend on the order in which the (Go) map is iterated: it is [p]'s own
   delta if [p] moved and "absent" otherwise. *)
Theorem C04_gc_delta_lookup_unique : forall c a p b,
  (forall q, In q (a ++ b) -> contains_range (p_tr q) (p_tr p) = false) ->
  resolve_delta (p_tr p) (snd (gc_copy c (a ++ p :: b) [] [] 0)) =
  if sum_sizes a =? p_off p then None else Some (p_off p - sum_sizes a).
Proof. exact gc_resolve_unique. Qed.
Print Assumptions C04_gc_delta_lookup_unique.

Theorem C04_gc_delta_keys_disjoint : forall l1 p l2 q,
  sorted_ptrs (l1 ++ p :: l2) -> In q (l1 ++ l2) -> contains_range (p_tr q) (p_tr p) = false.
Proof. exact sorted_split_not_contains. Qed.
Print Assumptions C04_gc_delta_keys_disjoint.

(* ---- reopen ---- *)
Theorem C04_reopen_invisible : forall d,
  (forall k b, read (reopen_db d) k b = read d k b) /\ (wf_db d -> wf_db (reopen_db d)).
Proof.
  intros d. split; [intros; apply reopen_invisible|apply reopen_db_equiv].
Qed.
Print Assumptions C04_reopen_invisible.

(* Reads are a function of what the pointers address (time range, size, samples) and of the
   channel's static description only — never of file keys, offsets or the writer pool. *)
Theorem C04_reads_see_views_only : forall d d' k b, db_equiv d d' -> read d k b = read d' k b.
Proof. exact read_equiv. Qed.
Print Assumptions C04_reads_see_views_only.
